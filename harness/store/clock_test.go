package store

import (
	"syscall"
	"unsafe"
)

func clockGettime(ts *syscall.Timespec) error {
	_, _, e := syscall.Syscall(syscall.SYS_CLOCK_GETTIME, 1, uintptr(unsafe.Pointer(ts)), 0)
	if e != 0 {
		return e
	}
	return nil
}
