// Package store is an in-process driver (overlaid into the grog module at check time) for
// the output handlers, the CAS, the target cache and the file-system backend.
package store

import (
	"bytes"
	"context"
	"crypto/sha256"
	"encoding/hex"
	"encoding/json"
	"errors"
	"flag"
	"fmt"
	"io"
	"os"
	"path/filepath"
	"sort"
	"strings"
	"sync"
	"sync/atomic"
	"syscall"
	"testing"
	"time"

	"grog/internal/caching"
	"grog/internal/caching/backends"
	"grog/internal/config"
	"grog/internal/hashing"
	"grog/internal/label"
	grogmaps "grog/internal/maps"
	"grog/internal/model"
	"grog/internal/output"
	"grog/internal/output/handlers"
)

var (
	flagSeed = flag.Uint64("vseed", 1, "seed")
	flagFrom = flag.Int("vfrom", 0, "first case")
	flagTo   = flag.Int("vto", 10, "one past last case")
	flagDir  = flag.String("vdir", "", "scratch directory")
)

type rnd struct{ s uint64 }

func (r *rnd) u64() uint64 {
	r.s += 0x9E3779B97F4A7C15
	z := r.s
	z = (z ^ (z >> 30)) * 0xBF58476D1CE4E5B9
	z = (z ^ (z >> 27)) * 0x94D049BB133111EB
	return z ^ (z >> 31)
}
func (r *rnd) intn(n int) int {
	if n <= 0 {
		return 0
	}
	return int(r.u64() % uint64(n))
}
func (r *rnd) chance(a, b int) bool { return r.intn(b) < a }
func (r *rnd) word(a, b int) string {
	n := a + r.intn(b-a+1)
	bs := make([]byte, n)
	for i := range bs {
		bs[i] = byte('a' + r.intn(26))
	}
	return string(bs)
}

func mustJSON(v any) string {
	b, _ := json.Marshal(v)
	return string(b)
}

// ---- listing ------------------------------------------------------------------------------

type entry struct {
	Path string
	Type string
	Exec bool
	Size int64
	Sum  string
	Link string
}

func listing(root string) (map[string]entry, error) {
	out := map[string]entry{}
	fi, err := os.Lstat(root)
	if err != nil {
		return nil, err
	}
	add := func(rel, abs string, fi os.FileInfo) error {
		e := entry{Path: rel}
		switch {
		case fi.Mode()&os.ModeSymlink != 0:
			e.Type = "l"
			e.Link, _ = os.Readlink(abs)
		case fi.IsDir():
			e.Type = "d"
		default:
			e.Type = "f"
			b, err := os.ReadFile(abs)
			if err != nil {
				return err
			}
			s := sha256.Sum256(b)
			e.Sum = hex.EncodeToString(s[:])
			e.Size = int64(len(b))
			e.Exec = fi.Mode()&0111 != 0
		}
		out[rel] = e
		return nil
	}
	if !fi.IsDir() {
		return out, add("", root, fi)
	}
	err = filepath.Walk(root, func(p string, info os.FileInfo, err error) error {
		if err != nil {
			return err
		}
		rel, _ := filepath.Rel(root, p)
		if rel == "." {
			rel = ""
		}
		return add(rel, p, info)
	})
	return out, err
}

func diffListing(want, got map[string]entry) []string {
	kinds := map[string]bool{}
	for k, w := range want {
		g, ok := got[k]
		switch {
		case !ok:
			kinds["absent-"+w.Type] = true
		case w.Type != g.Type:
			kinds["type"] = true
		case w.Type == "f" && w.Sum != g.Sum:
			kinds["content"] = true
		case w.Type == "f" && w.Exec != g.Exec:
			kinds["execbit"] = true
		case w.Type == "l" && w.Link != g.Link:
			kinds["link"] = true
		}
	}
	for k, g := range got {
		if _, ok := want[k]; !ok {
			kinds["extra-"+g.Type] = true
		}
	}
	var ks []string
	for k := range kinds {
		ks = append(ks, k)
	}
	sort.Strings(ks)
	return ks
}

// ---- random trees ----------------------------------------------------------------------------

var oddNames = []string{"a b", "-dash", "ünï", ".hidden", "x.y.z", "UPPER", "q'uote", "tab\tname", "semi;colon", "star*", "name with  two spaces"}

func genTree(r *rnd, root string, depth int, feat map[string]bool) error {
	if err := os.MkdirAll(root, 0755); err != nil {
		return err
	}
	n := r.intn(7)
	if depth == 0 && n == 0 {
		n = 1
	}
	var contents [][]byte
	for i := 0; i < n; i++ {
		name := r.word(1, 8)
		if r.chance(1, 4) {
			name = oddNames[r.intn(len(oddNames))] + r.word(0, 2)
			feat["odd-name"] = true
		}
		p := filepath.Join(root, name)
		if _, err := os.Lstat(p); err == nil {
			continue
		}
		switch k := r.intn(10); {
		case k < 5: // file
			var data []byte
			switch r.intn(5) {
			case 0:
				feat["empty-file"] = true
			case 1:
				if len(contents) > 0 {
					data = contents[r.intn(len(contents))]
					feat["duplicate-content"] = true
				} else {
					data = []byte(r.word(1, 50))
				}
			case 2:
				data = bytes.Repeat([]byte(r.word(3, 9)), 1+r.intn(20000))
				feat["large-file"] = true
			default:
				data = []byte(r.word(1, 200))
			}
			contents = append(contents, data)
			mode := os.FileMode(0644)
			if r.chance(1, 3) {
				mode = 0755
				feat["exec-bit"] = true
			}
			if err := os.WriteFile(p, data, mode); err != nil {
				return err
			}
			_ = os.Chmod(p, mode)
		case k < 8 && depth < 4: // directory
			if r.chance(1, 4) {
				if err := os.MkdirAll(p, 0755); err != nil {
					return err
				}
				feat["empty-dir"] = true
			} else {
				if err := genTree(r, p, depth+1, feat); err != nil {
					return err
				}
				feat["nested-dir"] = true
			}
		case k < 9: // symlink
			switch r.intn(3) {
			case 0:
				_ = os.Symlink("nowhere/"+r.word(2, 4), p)
				feat["dangling-symlink"] = true
			case 1:
				_ = os.Symlink(".", p)
				feat["dir-symlink"] = true
			default:
				_ = os.Symlink(r.word(1, 4), p)
				feat["symlink"] = true
			}
		default: // duplicate sub-tree
			if depth < 3 {
				for _, nm := range []string{name + "_1", name + "_2"} {
					q := filepath.Join(root, nm)
					_ = os.MkdirAll(filepath.Join(q, "same"), 0755)
					_ = os.WriteFile(filepath.Join(q, "same", "f"), []byte("identical"), 0644)
				}
				feat["duplicate-subtree"] = true
			}
		}
	}
	return nil
}

// ---- environment -------------------------------------------------------------------------------

type env struct {
	ctx     context.Context
	ws      string
	backend *backends.FileSystemCache
	cas     *caching.Cas
}

func newEnv(dir string) (*env, error) {
	ws := filepath.Join(dir, "ws")
	if err := os.MkdirAll(filepath.Join(ws, "pkg"), 0755); err != nil {
		return nil, err
	}
	config.Global.WorkspaceRoot = ws
	config.Global.Root = filepath.Join(dir, "root")
	config.Global.LogLevel = "error"
	config.Global.NumWorkers = 4
	ctx := context.Background()
	be, err := backends.NewFileSystemCache(ctx)
	if err != nil {
		return nil, err
	}
	return &env{ctx: ctx, ws: ws, backend: be, cas: caching.NewCas(be)}, nil
}

var preStates = []string{"absent", "parent-absent", "same", "modified", "truncated", "extra-entries", "file-where-dir", "dir-where-file(lead)", "symlink-at-path(lead)", "exec-bit-flipped", "modified+exec-bit-flipped", "entry-kinds-swapped"}

type RestoreResult struct {
	ID         int      `json:"id"`
	Kind       string   `json:"kind"`
	PreState   string   `json:"pre_state"`
	Features   []string `json:"features"`
	Entries    int      `json:"entries"`
	Violations []string `json:"violations"`
	Leads      []string `json:"leads"`
	Err        string   `json:"err,omitempty"`
}

func applyPreState(r *rnd, path, kind, pre string) {
	switch pre {
	case "absent":
		_ = os.RemoveAll(path)
	case "parent-absent":
		_ = os.RemoveAll(filepath.Dir(path))
	case "same":
	case "modified":
		if kind == "file" {
			b, _ := os.ReadFile(path)
			_ = os.WriteFile(path, append(b, []byte(strings.Repeat("JUNK", 1+r.intn(3000)))...), 0644)
		} else {
			_ = filepath.Walk(path, func(p string, fi os.FileInfo, err error) error {
				if err == nil && fi.Mode().IsRegular() && r.chance(1, 2) {
					_ = os.WriteFile(p, []byte("changed "+r.word(1, 20)), fi.Mode())
				}
				return nil
			})
		}
	case "truncated":
		if kind == "file" {
			_ = os.WriteFile(path, nil, 0644)
		} else {
			_ = filepath.Walk(path, func(p string, fi os.FileInfo, err error) error {
				if err == nil && fi.Mode().IsRegular() {
					_ = os.Truncate(p, fi.Size()/2)
				}
				return nil
			})
		}
	case "extra-entries":
		if kind == "dir" {
			_ = os.MkdirAll(filepath.Join(path, "zz_stale", "deeper"), 0755)
			_ = os.WriteFile(filepath.Join(path, "zz_stale", "deeper", "old"), []byte("old"), 0644)
			_ = os.WriteFile(filepath.Join(path, "zz_stale_file"), []byte("old"), 0755)
			_ = os.Symlink("zz_stale_file", filepath.Join(path, "zz_stale_link"))
		}
	case "file-where-dir":
		if kind == "dir" {
			_ = os.RemoveAll(path)
			_ = os.WriteFile(path, []byte("file"), 0644)
		}
	case "dir-where-file(lead)":
		if kind == "file" {
			_ = os.RemoveAll(path)
			_ = os.MkdirAll(filepath.Join(path, "sub"), 0755)
		}
	case "symlink-at-path(lead)":
		_ = os.RemoveAll(path)
		_ = os.Symlink("/nonexistent-target", path)
	case "modified+exec-bit-flipped":
		if kind == "file" {
			if fi, err := os.Stat(path); err == nil {
				b, _ := os.ReadFile(path)
				_ = os.WriteFile(path, append(b, []byte("JUNK")...), fi.Mode())
				_ = os.Chmod(path, fi.Mode()^0111)
			}
		} else {
			_ = filepath.Walk(path, func(p string, fi os.FileInfo, err error) error {
				if err == nil && fi.Mode().IsRegular() && r.chance(1, 2) {
					_ = os.WriteFile(p, []byte("changed "+r.word(1, 20)), fi.Mode())
					_ = os.Chmod(p, fi.Mode()^0111)
				}
				return nil
			})
		}
	case "exec-bit-flipped":
		if kind == "file" {
			if fi, err := os.Stat(path); err == nil {
				_ = os.Chmod(path, fi.Mode()^0111)
			}
		}
	case "entry-kinds-swapped":
		// the local copy of a directory output holds entries of another kind under the names of
		// cached ones: a symlink or a directory where a regular file belongs, a regular file
		// where a symlink or a directory belongs
		if kind != "dir" {
			return
		}
		var ents []string
		_ = filepath.Walk(path, func(p string, fi os.FileInfo, err error) error {
			if err == nil && p != path {
				ents = append(ents, p)
			}
			return nil
		})
		outside := filepath.Join(filepath.Dir(path), "zz-link-target-"+r.word(3, 6))
		for i := len(ents) - 1; i >= 0; i-- { // deepest first
			p := ents[i]
			fi, err := os.Lstat(p)
			if err != nil || !r.chance(1, 2) {
				continue
			}
			switch {
			case fi.Mode().IsRegular():
				_ = os.Remove(p)
				if r.chance(1, 2) {
					_ = os.WriteFile(outside, []byte("content of a file outside the output\n"), 0644)
					_ = os.Symlink(outside, p)
				} else {
					_ = os.MkdirAll(filepath.Join(p, "was-a-file"), 0755)
				}
			case fi.Mode()&os.ModeSymlink != 0:
				_ = os.Remove(p)
				_ = os.WriteFile(p, []byte("was a link"), 0644)
			case fi.IsDir():
				_ = os.RemoveAll(p)
				_ = os.WriteFile(p, []byte("was a directory"), 0644)
			}
		}
	}
}

func TestRestore(t *testing.T) {
	for id := *flagFrom; id < *flagTo; id++ {
		r := &rnd{s: *flagSeed*7777 + uint64(id)*104729 + 5}
		dir := filepath.Join(*flagDir, fmt.Sprintf("r%d", id))
		kind := "dir"
		if r.chance(1, 3) {
			kind = "file"
		}
		pre := preStates[r.intn(len(preStates))]
		fmt.Printf("CASE %d %s\n", id, mustJSON(map[string]any{"id": id, "kind": kind, "pre": pre}))
		res := RestoreResult{ID: id, Kind: kind, PreState: pre}
		func() {
			e, err := newEnv(dir)
			if err != nil {
				res.Err = err.Error()
				return
			}
			if r.chance(1, 3) {
				config.Global.HashAlgorithm = config.HashAlgorithmSHA256
			} else {
				config.Global.HashAlgorithm = config.HashAlgorithmXXH3
			}
			target := model.Target{Label: label.TL("pkg", "t")}
			ident := "out"
			if r.chance(1, 2) {
				ident = "deep/er/out"
			}
			path := filepath.Join(e.ws, "pkg", ident)
			feat := map[string]bool{}
			var h handlers.Handler
			if kind == "dir" {
				if err := genTree(r, path, 0, feat); err != nil {
					res.Err = err.Error()
					return
				}
				h = handlers.NewDirectoryOutputHandler(e.cas)
			} else {
				_ = os.MkdirAll(filepath.Dir(path), 0755)
				data := []byte(r.word(0, 300))
				mode := os.FileMode(0644)
				switch r.intn(4) {
				case 0:
					data = nil
					feat["empty-file"] = true
				case 1:
					mode = 0755
					feat["exec-bit"] = true
				case 2:
					data = bytes.Repeat([]byte("0123456789abcdef"), 1+r.intn(100000))
					feat["large-file"] = true
				}
				_ = os.WriteFile(path, data, mode)
				_ = os.Chmod(path, mode)
				h = handlers.NewFileOutputHandler(e.cas)
			}
			for f := range feat {
				res.Features = append(res.Features, f)
			}
			sort.Strings(res.Features)
			want, err := listing(path)
			if err != nil {
				res.Err = err.Error()
				return
			}
			res.Entries = len(want)
			out, err := h.Write(e.ctx, target, model.NewOutput(kind, ident), nil)
			if err != nil {
				res.Err = "write: " + err.Error()
				return
			}
			applyPreState(r, path, kind, pre)
			lost := ""
			if r.chance(1, 5) {
				// one blob of the output is gone from the cache (eviction): Load may fail, but if it
				// reports success the output must be exact all the same
				var blobs []string
				_ = filepath.Walk(config.Global.GetWorkspaceCacheDirectory(), func(p string, fi os.FileInfo, err error) error {
					if err == nil && fi.Mode().IsRegular() && strings.Contains(p, string(filepath.Separator)+"cas"+string(filepath.Separator)) {
						blobs = append(blobs, p)
					}
					return nil
				})
				sort.Strings(blobs)
				if len(blobs) > 0 {
					lost = blobs[r.intn(len(blobs))]
					_ = os.Remove(lost)
					res.Features = append(res.Features, "one-blob-lost")
				}
			}
			if err := h.Load(e.ctx, target, out, nil); err != nil {
				if lost != "" {
					res.Leads = append(res.Leads, "load-error-with-a-lost-blob(expected)")
					return
				}
				if strings.Contains(pre, "(lead)") {
					res.Leads = append(res.Leads, "load-error "+pre)
				} else {
					res.Violations = append(res.Violations, "load-error pre="+pre+" kind="+kind)
					res.Err = err.Error()
				}
				return
			}
			got, err := listing(path)
			if err != nil {
				res.Violations = append(res.Violations, "unreadable-after-load pre="+pre+" kind="+kind)
				res.Err = err.Error()
				return
			}
			if d := diffListing(want, got); len(d) > 0 {
				v := fmt.Sprintf("restore-inexact diff=%s pre=%s kind=%s", strings.Join(d, "+"), pre, kind)
				if lost != "" {
					v = fmt.Sprintf("restore-reported-success-but-inexact cause=blob-lost diff=%s kind=%s", strings.Join(d, "+"), kind)
				}
				if strings.Contains(pre, "(lead)") {
					res.Leads = append(res.Leads, v)
				} else {
					res.Violations = append(res.Violations, v)
				}
			}
		}()
		_ = os.RemoveAll(dir)
		fmt.Printf("RES %d %s\n", id, mustJSON(res))
	}
	fmt.Println("BATCH-DONE")
}

// ---- fault-injecting backend ---------------------------------------------------------------------

type faultBackend struct {
	inner   backends.CacheBackend
	n       atomic.Int64
	failAt  int64  // fail the n-th call (1-based), 0 = never
	failOp  string // "" = any op, else only calls of this kind count
	midway  bool   // for Set: consume half of the reader, hand the backend a reader that errors midway
	slowUs  int    // every Set takes this long before it acts (widens the window between two writers)
	failKey string // if set: fail the first Set of exactly this key instead of the n-th call
	keyHit  atomic.Bool
	ops     []string
	mu      sync.Mutex
	// cancel: if set, the "fault" is not an error: the build's context is cancelled at that call
	// (another target failed under fail_fast, Ctrl-C) and the call itself goes through
	cancel func()
}

var errInjected = errors.New("injected backend fault")

func (f *faultBackend) hit(op, path, key string) bool {
	f.mu.Lock()
	f.ops = append(f.ops, op+" "+path+"/"+key)
	f.mu.Unlock()
	if f.failKey != "" {
		return op == "set" && key == f.failKey && f.keyHit.CompareAndSwap(false, true)
	}
	if f.failOp != "" && f.failOp != op {
		return false
	}
	n := f.n.Add(1)
	return f.failAt != 0 && n == f.failAt
}
func (f *faultBackend) TypeName() string { return "fault" }
func (f *faultBackend) Get(ctx context.Context, path, key string) (io.ReadCloser, error) {
	if f.hit("get", path, key) {
		return nil, errInjected
	}
	return f.inner.Get(ctx, path, key)
}

type halfReader struct {
	r    io.Reader
	left int
}

func (h *halfReader) Read(p []byte) (int, error) {
	if h.left <= 0 {
		return 0, errInjected
	}
	if len(p) > h.left {
		p = p[:h.left]
	}
	n, err := h.r.Read(p)
	h.left -= n
	if err == io.EOF {
		return n, errInjected
	}
	return n, err
}

func (f *faultBackend) Set(ctx context.Context, path, key string, content io.Reader) error {
	fail := f.hit("set", path, key)
	if f.slowUs > 0 {
		time.Sleep(time.Duration(f.slowUs) * time.Microsecond)
	}
	if fail && f.cancel != nil {
		f.cancel()
		fail = false
	}
	if fail {
		if f.midway {
			return f.inner.Set(ctx, path, key, &halfReader{r: content, left: 7})
		}
		return errInjected
	}
	return f.inner.Set(ctx, path, key, content)
}
func (f *faultBackend) Delete(ctx context.Context, path, key string) error {
	if f.hit("delete", path, key) {
		return errInjected
	}
	return f.inner.Delete(ctx, path, key)
}
func (f *faultBackend) Exists(ctx context.Context, path, key string) (bool, error) {
	if f.hit("exists", path, key) {
		return false, errInjected
	}
	return f.inner.Exists(ctx, path, key)
}

type FaultResult struct {
	ID       int      `json:"id"`
	FailOp   string   `json:"fail_op"`
	FailAt   int64    `json:"fail_at"`
	Midway   bool     `json:"midway"`
	Ops      int      `json:"ops"`
	WriteErr string   `json:"write_err,omitempty"`
	CacheDir string   `json:"cache_dir"`
	Order    []string `json:"order_violations"`
	Conc     bool     `json:"concurrent,omitempty"` // the two targets were written by two goroutines at once
}

// TestFaults writes the outputs of a target (several file outputs, a flat and a nested directory
// output with shared contents) through output.Registry and the target cache over a backend that
// fails the k-th call, and leaves the cache directory for the offline audit. It also checks the
// ordering invariant on the recorded backend calls: every blob Set/Exists precedes the result Set.
func TestFaults(t *testing.T) {
	for id := *flagFrom; id < *flagTo; id++ {
		r := &rnd{s: *flagSeed*31337 + uint64(id)*7 + 3}
		dir := filepath.Join(*flagDir, fmt.Sprintf("f%d", id))
		ops := []string{"", "set", "set", "get", "exists", "cancel-at-set", "cancel-at-set"}
		res := FaultResult{ID: id, FailOp: ops[r.intn(len(ops))], FailAt: int64(r.intn(24)), Midway: r.chance(1, 2), Conc: r.chance(1, 2)}
		fmt.Printf("CASE %d %s\n", id, mustJSON(res))
		func() {
			e, err := newEnv(dir)
			if err != nil {
				res.WriteErr = "env: " + err.Error()
				return
			}
			config.Global.HashAlgorithm = config.HashAlgorithmXXH3
			res.CacheDir = config.Global.GetWorkspaceCacheDirectory()
			fb := &faultBackend{inner: e.backend, failAt: res.FailAt, failOp: res.FailOp, midway: res.Midway}
			ctx := e.ctx
			if res.FailOp == "cancel-at-set" {
				// the context the outputs are written under is cancelled at the k-th write
				var cancel context.CancelFunc
				ctx, cancel = context.WithCancel(e.ctx)
				defer cancel()
				fb.failOp, fb.cancel = "set", cancel
				if fb.failAt == 0 {
					fb.failAt = 1
				}
			}
			if res.Conc {
				fb.slowUs = 500 + r.intn(2500)
			}
			shared := []byte("shared content " + r.word(3, 9))
			if res.Conc && r.chance(1, 2) {
				// the write that fails is the one of the blob both targets have in common
				fb.failKey = hashing.HashBytes(shared)
				res.FailOp, res.FailAt = "set-of-the-shared-blob", 1
			}
			cas := caching.NewCas(fb)
			tc := caching.NewTargetResultCache(fb)
			reg := output.NewRegistry(e.ctx, cas)
			pkg := filepath.Join(e.ws, "pkg")
			_ = os.WriteFile(filepath.Join(pkg, "a.out"), []byte("a "+r.word(1, 30)), 0644)
			_ = os.WriteFile(filepath.Join(pkg, "b.out"), shared, 0644)
			_ = os.WriteFile(filepath.Join(pkg, "c.out"), shared, 0644) // same digest as b.out
			_ = os.MkdirAll(filepath.Join(pkg, "flat.d"), 0755)
			for k := 0; k < 3; k++ {
				_ = os.WriteFile(filepath.Join(pkg, "flat.d", fmt.Sprintf("f%d", k)), []byte(r.word(1, 40)), 0644)
			}
			_ = os.WriteFile(filepath.Join(pkg, "flat.d", "dup"), shared, 0644)
			_ = os.MkdirAll(filepath.Join(pkg, "nest.d", "s1", "s2"), 0755)
			_ = os.WriteFile(filepath.Join(pkg, "nest.d", "s1", "s2", "deep"), bytes.Repeat([]byte("deep"), 20000), 0644)
			_ = os.WriteFile(filepath.Join(pkg, "nest.d", "top"), []byte(r.word(1, 40)), 0755)
			// a directory output whose regular files are all empty (a package skeleton): its file
			// nodes still reference a blob - the one of the empty content - that has to be stored
			_ = os.MkdirAll(filepath.Join(pkg, "void.d", "sub"), 0755)
			_ = os.WriteFile(filepath.Join(pkg, "void.d", "__init__.py"), nil, 0644)
			_ = os.WriteFile(filepath.Join(pkg, "void.d", "sub", ".keep"), nil, 0644)
			target := &model.Target{Label: label.TL("pkg", "t"), ChangeHash: "changehash" + r.word(6, 6), Outputs: []model.Output{
				model.NewOutput("file", "a.out"), model.NewOutput("file", "b.out"), model.NewOutput("file", "c.out"),
				model.NewOutput("dir", "flat.d"), model.NewOutput("dir", "nest.d"), model.NewOutput("dir", "void.d")}}
			writeFirst := func() {
				result, err := reg.WriteOutputs(ctx, target, nil)
				if err == nil {
					if !res.Conc {
						fb.mu.Lock()
						fb.ops = append(fb.ops, "RESULT-BEGIN")
						fb.mu.Unlock()
					}
					err = tc.Write(ctx, result)
				}
				if err != nil {
					fb.mu.Lock()
					res.WriteErr = err.Error() + res.WriteErr
					fb.mu.Unlock()
				}
			}
			var firstDone sync.WaitGroup
			if res.Conc {
				// both targets finish at the same time on two workers: whatever one writer
				// learns about a shared digest must not be trusted by the other before it is true
				firstDone.Add(1)
				go func() { defer firstDone.Done(); writeFirst() }()
			} else {
				writeFirst()
			}
			// a second, independent target of the same build shares contents (digests) with the first
			fb.mu.Lock()
			fb.ops = append(fb.ops, "SECOND-TARGET")
			fb.mu.Unlock()
			_ = os.MkdirAll(filepath.Join(pkg, "two.d"), 0755)
			_ = os.WriteFile(filepath.Join(pkg, "x.out"), shared, 0644)
			_ = os.WriteFile(filepath.Join(pkg, "y.out"), []byte("y "+r.word(1, 30)), 0644)
			for k := 0; k < 3; k++ {
				b, _ := os.ReadFile(filepath.Join(pkg, "flat.d", fmt.Sprintf("f%d", k)))
				_ = os.WriteFile(filepath.Join(pkg, "two.d", fmt.Sprintf("g%d", k)), b, 0644)
			}
			target2 := &model.Target{Label: label.TL("pkg", "t2"), ChangeHash: "changehash2" + r.word(6, 6), Outputs: []model.Output{
				model.NewOutput("file", "x.out"), model.NewOutput("file", "y.out"), model.NewOutput("dir", "two.d")}}
			if result2, err2 := reg.WriteOutputs(ctx, target2, nil); err2 == nil {
				fb.mu.Lock()
				fb.ops = append(fb.ops, "RESULT-BEGIN")
				fb.mu.Unlock()
				if err2 = tc.Write(ctx, result2); err2 != nil {
					fb.mu.Lock()
					res.WriteErr += " | second: " + err2.Error()
					fb.mu.Unlock()
				}
			} else {
				fb.mu.Lock()
				res.WriteErr += " | second: " + err2.Error()
				fb.mu.Unlock()
			}
			firstDone.Wait()
			fb.mu.Lock()
			res.Ops = len(fb.ops)
			seenResult := false
			for _, o := range fb.ops {
				if res.Conc {
					break // the call order of two concurrent writers says nothing
				}
				if o == "SECOND-TARGET" {
					seenResult = false
					continue
				}
				if o == "RESULT-BEGIN" {
					seenResult = true
					continue
				}
				if !seenResult && strings.HasPrefix(o, "set target/") {
					res.Order = append(res.Order, "result-written-before-outputs-finished")
				}
			}
			fb.mu.Unlock()
		}()
		fmt.Printf("RES %d %s\n", id, mustJSON(res))
	}
	fmt.Println("BATCH-DONE")
}

// ---- concurrent atomicity of the fs backend ---------------------------------------------------------

type Op struct {
	Client int    `json:"c"`
	Kind   string `json:"k"` // set get exists delete
	Key    string `json:"key"`
	Arg    string `json:"arg,omitempty"` // value id written
	Out    string `json:"out,omitempty"` // value id read | "none" | "partial:<n>" | "true"/"false"
	Err    string `json:"err,omitempty"`
	Call   int64  `json:"call"`
	Ret    int64  `json:"ret"`
}

func mono() int64 {
	var ts syscall.Timespec
	_ = clockGettime(&ts)
	return ts.Sec*1e9 + ts.Nsec
}

func valueBytes(id string) []byte {
	// long enough that a partially written file is visible; self-describing
	return []byte(strings.Repeat(id+"|", 4000))
}

func decodeValue(b []byte) string {
	if len(b) == 0 {
		return "empty"
	}
	i := bytes.IndexByte(b, '|')
	if i < 0 {
		return fmt.Sprintf("partial:%d", len(b))
	}
	id := string(b[:i])
	if !bytes.Equal(b, valueBytes(id)) {
		return fmt.Sprintf("partial:%s:%d", id, len(b))
	}
	return id
}

func TestAtomic(t *testing.T) {
	for id := *flagFrom; id < *flagTo; id++ {
		r := &rnd{s: *flagSeed*999331 + uint64(id)*13 + 1}
		dir := filepath.Join(*flagDir, fmt.Sprintf("a%d", id))
		fmt.Printf("CASE %d {}\n", id)
		e, err := newEnv(dir)
		if err != nil {
			t.Fatal(err)
		}
		clients := 3 + r.intn(4)
		keys := []string{"k1", "k2"}
		opsPer := 12
		var mu sync.Mutex
		var hist []Op
		var wg sync.WaitGroup
		seeds := make([]uint64, clients)
		for c := range seeds {
			seeds[c] = r.u64()
		}
		for c := 0; c < clients; c++ {
			wg.Add(1)
			go func(c int) {
				defer wg.Done()
				cr := &rnd{s: seeds[c]}
				for n := 0; n < opsPer; n++ {
					op := Op{Client: c, Key: keys[cr.intn(len(keys))]}
					switch x := cr.intn(10); {
					case x < 4:
						op.Kind = "set"
						op.Arg = fmt.Sprintf("w%d-%d", c, n)
						op.Call = mono()
						err := e.backend.Set(e.ctx, "cas", op.Key, bytes.NewReader(valueBytes(op.Arg)))
						op.Ret = mono()
						if err != nil {
							op.Err = err.Error()
						}
					case x < 8:
						op.Kind = "get"
						op.Call = mono()
						rc, err := e.backend.Get(e.ctx, "cas", op.Key)
						if err != nil {
							op.Out = "none"
						} else {
							b, rerr := io.ReadAll(rc)
							rc.Close()
							if rerr != nil {
								op.Err = rerr.Error()
							}
							op.Out = decodeValue(b)
						}
						op.Ret = mono()
					case x < 9:
						op.Kind = "exists"
						op.Call = mono()
						ok, err := e.backend.Exists(e.ctx, "cas", op.Key)
						op.Ret = mono()
						op.Out = fmt.Sprint(ok)
						if err != nil {
							op.Err = err.Error()
						}
					default:
						op.Kind = "delete"
						op.Call = mono()
						err := e.backend.Delete(e.ctx, "cas", op.Key)
						op.Ret = mono()
						if err != nil {
							op.Err = err.Error()
						}
					}
					mu.Lock()
					hist = append(hist, op)
					mu.Unlock()
					if cr.chance(1, 3) {
						time.Sleep(time.Duration(cr.intn(200)) * time.Microsecond)
					}
				}
			}(c)
		}
		wg.Wait()
		_ = os.RemoveAll(dir)
		fmt.Printf("RES %d %s\n", id, mustJSON(map[string]any{"id": id, "clients": clients, "history": hist}))
	}
	fmt.Println("BATCH-DONE")
}

// ---- remote wrapper under remote faults -------------------------------------------------------------

type flakyRemote struct {
	mu      sync.Mutex
	objects map[string][]byte
	setMode string // "" | "fail-before" | "fail-midway" | "fail-after"
	getMode string // "" | "truncate" | "error"
	midway  int
}

func (f *flakyRemote) TypeName() string { return "flaky" }
func (f *flakyRemote) Get(ctx context.Context, path, key string) (io.ReadCloser, error) {
	f.mu.Lock()
	b, ok := f.objects[path+"/"+key]
	f.mu.Unlock()
	if !ok {
		return nil, os.ErrNotExist
	}
	switch f.getMode {
	case "error":
		return nil, errInjected
	case "truncate":
		return io.NopCloser(&halfReader{r: bytes.NewReader(b), left: len(b) / 2}), nil
	}
	return io.NopCloser(bytes.NewReader(b)), nil
}
func (f *flakyRemote) Set(ctx context.Context, path, key string, content io.Reader) error {
	switch f.setMode {
	case "fail-before":
		return errInjected
	case "fail-midway":
		buf := make([]byte, f.midway)
		_, _ = io.ReadFull(content, buf)
		return errInjected
	}
	b, err := io.ReadAll(content)
	if err != nil {
		return err
	}
	if f.setMode == "fail-after" {
		return errInjected
	}
	f.mu.Lock()
	f.objects[path+"/"+key] = b
	f.mu.Unlock()
	return nil
}
func (f *flakyRemote) Delete(ctx context.Context, path, key string) error { return nil }
func (f *flakyRemote) Exists(ctx context.Context, path, key string) (bool, error) {
	f.mu.Lock()
	defer f.mu.Unlock()
	_, ok := f.objects[path+"/"+key]
	return ok, nil
}

// TestRemoteFaults drives backends.RemoteWrapper over the real fs backend and a remote that
// fails before, in the middle of, or after a write, or truncates a read; the local cache
// directory is left for the offline audit (a blob visible under a digest must have that content).
func TestRemoteFaults(t *testing.T) {
	for id := *flagFrom; id < *flagTo; id++ {
		r := &rnd{s: *flagSeed*65537 + uint64(id)*31 + 9}
		dir := filepath.Join(*flagDir, fmt.Sprintf("w%d", id))
		setModes := []string{"", "fail-before", "fail-midway", "fail-midway", "fail-after"}
		getModes := []string{"", "truncate", "error"}
		res := map[string]any{"id": id}
		setMode, getMode := setModes[r.intn(len(setModes))], getModes[r.intn(len(getModes))]
		res["set_mode"], res["get_mode"] = setMode, getMode
		fmt.Printf("CASE %d %s\n", id, mustJSON(res))
		e, err := newEnv(dir)
		if err != nil {
			t.Fatal(err)
		}
		config.Global.HashAlgorithm = config.HashAlgorithmSHA256
		res["cache_dir"] = config.Global.GetWorkspaceCacheDirectory()
		remote := &flakyRemote{objects: map[string][]byte{}, setMode: setMode, getMode: getMode, midway: 1 + r.intn(60000)}
		w := backends.NewRemoteWrapper(e.backend, remote)
		cas := caching.NewCas(w)
		var errs []string
		// writes of blobs of very different sizes (pipes hand data over in 32 KiB pieces)
		for k := 0; k < 4; k++ {
			size := []int{10, 40000, 300000, 1500000}[k]
			data := bytes.Repeat([]byte{byte('a' + k)}, size)
			sum := sha256.Sum256(data)
			digest := hex.EncodeToString(sum[:])
			if err := cas.Write(e.ctx, digest, plainReader{bytes.NewReader(data)}); err != nil {
				errs = append(errs, "write: "+err.Error())
				// a retry after the fault is over must not be skipped because of a bad local blob
				remote.setMode = ""
				if err2 := caching.NewCas(w).Write(e.ctx, digest, plainReader{bytes.NewReader(data)}); err2 != nil {
					errs = append(errs, "retry: "+err2.Error())
				}
				remote.setMode = setMode
			}
		}
		// read-through of objects that only exist remotely
		for k := 0; k < 3; k++ {
			data := bytes.Repeat([]byte{byte('A' + k)}, []int{100, 70000, 900000}[k])
			sum := sha256.Sum256(data)
			digest := hex.EncodeToString(sum[:])
			remote.mu.Lock()
			remote.objects["cas/"+digest] = data
			remote.mu.Unlock()
			rc, err := cas.Load(e.ctx, digest)
			if err != nil {
				errs = append(errs, "load: "+err.Error())
				continue
			}
			got, rerr := io.ReadAll(rc)
			rc.Close()
			if rerr == nil && !bytes.Equal(got, data) {
				errs = append(errs, "WRONG-CONTENT-READ")
				res["wrong_content_read"] = true
			}
		}
		res["errors"] = len(errs)
		fmt.Printf("RES %d %s\n", id, mustJSON(res))
	}
	fmt.Println("BATCH-DONE")
}

// plainReader hides WriteTo/Seek so that io.Copy streams in chunks, as it does for the
// progress-wrapped output files grog uploads.
type plainReader struct{ r io.Reader }

func (p plainReader) Read(b []byte) (int, error) { return p.r.Read(b) }

// ---- maps.MutexMap: per-name mutual exclusion ---------------------------------------------------------

func TestMutexMap(t *testing.T) {
	for id := *flagFrom; id < *flagTo; id++ {
		r := &rnd{s: *flagSeed*424243 + uint64(id)*17 + 5}
		fmt.Printf("CASE %d {}\n", id)
		mm := grogmaps.NewMutexMap()
		names := []string{"//a:x", "//a:y", "//b:x"}
		clients := 3 + r.intn(5)
		var mu sync.Mutex
		var hist []Op
		var wg sync.WaitGroup
		seeds := make([]uint64, clients)
		for c := range seeds {
			seeds[c] = r.u64()
		}
		inside := map[string]*atomic.Int32{}
		for _, n := range names {
			inside[n] = new(atomic.Int32)
		}
		overlap := atomic.Int32{}
		for c := 0; c < clients; c++ {
			wg.Add(1)
			go func(c int) {
				defer wg.Done()
				cr := &rnd{s: seeds[c]}
				for n := 0; n < 8; n++ {
					name := names[cr.intn(len(names))]
					op := Op{Client: c, Kind: "lock", Key: name, Call: mono()}
					mm.Lock(name)
					op.Ret = mono()
					if inside[name].Add(1) > 1 {
						overlap.Add(1)
					}
					mu.Lock()
					hist = append(hist, op)
					mu.Unlock()
					if cr.chance(1, 2) {
						time.Sleep(time.Duration(cr.intn(50)) * time.Microsecond)
					}
					inside[name].Add(-1)
					op2 := Op{Client: c, Kind: "unlock", Key: name, Call: mono()}
					_ = mm.Unlock(name)
					op2.Ret = mono()
					mu.Lock()
					hist = append(hist, op2)
					mu.Unlock()
				}
			}(c)
		}
		wg.Wait()
		fmt.Printf("RES %d %s\n", id, mustJSON(map[string]any{"id": id, "clients": clients, "overlaps": overlap.Load(), "history": hist}))
	}
	fmt.Println("BATCH-DONE")
}
