// Package walker is an in-process driver (overlaid into the grog module at check time) that
// runs dag.Walker over generated graphs inside testing/synctest bubbles and checks, from a
// logical-clock log kept at the callback boundary: dependencies-first, at-most-once,
// resolution of every selected node, failure containment, and absence of deadlock.
package walker

import (
	"context"
	"crypto/sha256"
	"encoding/json"
	"errors"
	"flag"
	"fmt"
	"os"
	"runtime"
	"sort"
	"strings"
	"sync"
	"sync/atomic"
	"testing"
	"testing/synctest"
	"time"

	"grog/internal/config"
	"grog/internal/dag"
	"grog/internal/label"
	"grog/internal/model"
	"grog/internal/verifhook"
)

var (
	flagSeed = flag.Uint64("vseed", 1, "seed")
	flagFrom = flag.Int("vfrom", 0, "first case")
	flagTo   = flag.Int("vto", 10, "one past last case")
	flagMax  = flag.Int("vmaxnodes", 400, "max nodes")
	flagMode = flag.String("vmode", "synctest", "synctest | real")
)

type rnd struct{ s uint64 }

func (r *rnd) u64() uint64 {
	r.s += 0x9E3779B97F4A7C15
	z := r.s
	z = (z ^ (z >> 30)) * 0xBF58476D1CE4E5B9
	z = (z ^ (z >> 27)) * 0x94D049BB133111EB
	return z ^ (z >> 31)
}
func (r *rnd) intn(n int) int {
	if n <= 0 {
		return 0
	}
	return int(r.u64() % uint64(n))
}
func (r *rnd) chance(a, b int) bool { return r.intn(b) < a }

type Case struct {
	ID       int    `json:"id"`
	Shape    string `json:"shape"`
	N        int    `json:"n"`
	Edges    int    `json:"edges"`
	Selected int    `json:"selected"`
	Failing  int    `json:"failing"`
	FailFast bool   `json:"fail_fast"`
	Latency  string `json:"latency"`
	RegDelay string `json:"reg_delay"`
	CancelAt int    `json:"cancel_at"`
	Procs    int    `json:"procs"`
}

type Result struct {
	Case       Case     `json:"case"`
	Violations []string `json:"violations"`
	Events     int      `json:"events"`
	Started    int      `json:"started"`
	Completed  int      `json:"completed"`
	OrderSig   string   `json:"order_sig"`
	WalkErr    string   `json:"walk_err,omitempty"`
	FailedN    int      `json:"failed_n"`
	SkippedN   int      `json:"skipped_n"`
}

type graphSpec struct {
	n     int
	deps  [][]int // deps[i] = dependencies of i (all < i)
	shape string
}

func genGraph(r *rnd, maxN int) graphSpec {
	kind := r.intn(6)
	var g graphSpec
	switch kind {
	case 0: // chain
		g.n = 2 + r.intn(min(maxN, 60))
		g.shape = "chain"
		g.deps = make([][]int, g.n)
		for i := 1; i < g.n; i++ {
			g.deps[i] = []int{i - 1}
		}
	case 1: // ladder W x D (complete bipartite layers)
		w := 2 + r.intn(3)
		d := 2 + r.intn(min(maxN/w, 7))
		g.n = w * d
		g.shape = fmt.Sprintf("ladder%dx%d", w, d)
		g.deps = make([][]int, g.n)
		for l := 1; l < d; l++ {
			for a := 0; a < w; a++ {
				for b := 0; b < w; b++ {
					g.deps[l*w+a] = append(g.deps[l*w+a], (l-1)*w+b)
				}
			}
		}
	case 2: // wide fan-in/out
		g.n = 3 + r.intn(min(maxN, 300))
		g.shape = "fan"
		g.deps = make([][]int, g.n)
		for i := 1; i < g.n-1; i++ {
			g.deps[i] = []int{0}
			g.deps[g.n-1] = append(g.deps[g.n-1], i)
		}
	case 3: // many independent roots
		g.n = 2 + r.intn(min(maxN, 200))
		g.shape = "roots"
		g.deps = make([][]int, g.n)
	default: // random DAG
		g.n = 3 + r.intn(maxN)
		g.shape = "random"
		g.deps = make([][]int, g.n)
		p := 1 + r.intn(4)
		for i := 1; i < g.n; i++ {
			k := r.intn(p + 1)
			seen := map[int]bool{}
			for j := 0; j < k; j++ {
				d := r.intn(i)
				if !seen[d] {
					seen[d] = true
					g.deps[i] = append(g.deps[i], d)
				}
			}
		}
	}
	return g
}

func runCase(t *testing.T, id int, seed uint64, maxN int, inBubble bool) Result {
	r := &rnd{s: seed*1000003 + uint64(id)*7919 + 17}
	g := genGraph(r, maxN)
	c := Case{ID: id, Shape: g.shape, N: g.n, Procs: runtime.GOMAXPROCS(0)}
	// selection: everything, or the closure of some random roots
	selected := make([]bool, g.n)
	if r.chance(2, 3) {
		for i := range selected {
			selected[i] = true
		}
	} else {
		var mark func(i int)
		mark = func(i int) {
			if selected[i] {
				return
			}
			selected[i] = true
			for _, d := range g.deps[i] {
				mark(d)
			}
		}
		for k := 0; k < 1+r.intn(3); k++ {
			mark(r.intn(g.n))
		}
	}
	failing := make([]bool, g.n)
	if r.chance(1, 2) {
		for i := range failing {
			if r.chance(1, 12) {
				failing[i] = true
			}
		}
	}
	c.FailFast = r.chance(1, 3)
	c.Latency = []string{"zero", "gosched", "sleep", "oneslow"}[r.intn(4)]
	c.RegDelay = []string{"none", "gosched", "sleep"}[r.intn(3)]
	c.CancelAt = -1
	if r.chance(1, 6) {
		c.CancelAt = r.intn(g.n)
	}
	graph := dag.NewDirectedGraph()
	nodes := make([]model.BuildNode, g.n)
	// labels: names repeat across packages (//p0:n3, //p1:n3, ...); nodes whose only
	// dependency is a single node are sometimes aliases of it
	isAlias := make([]bool, g.n)
	for i := 0; i < g.n; i++ {
		lb := label.TL(fmt.Sprintf("p%d", i%4), fmt.Sprintf("n%d", i/4))
		if len(g.deps[i]) == 1 && r.chance(1, 3) {
			d := g.deps[i][0]
			isAlias[i] = true
			failing[i] = false
			nodes[i] = &model.Alias{Label: lb, Actual: label.TL(fmt.Sprintf("p%d", d%4), fmt.Sprintf("n%d", d/4)), IsSelected: selected[i]}
		} else {
			nodes[i] = &model.Target{Label: lb, IsSelected: selected[i]}
		}
		graph.AddNode(nodes[i])
	}
	idx := map[string]int{}
	for i, nd := range nodes {
		idx[nd.GetLabel().String()] = i
	}
	for i := 0; i < g.n; i++ {
		for _, d := range g.deps[i] {
			_ = graph.AddEdge(nodes[d], nodes[i])
			c.Edges++
		}
		if selected[i] {
			c.Selected++
		}
		if failing[i] && selected[i] {
			c.Failing++
		}
	}
	fmt.Printf("CASE %d %s\n", id, mustJSON(c))

	var clock atomic.Int64
	type ev struct {
		t    int64
		kind byte
		n    int
	}
	var mu sync.Mutex
	var evs []ev
	started := make([]int32, g.n)
	ended := make([]int32, g.n) // 1 ok, 2 failed
	ctx, cancel := context.WithCancel(context.Background())
	defer cancel()
	var startCount atomic.Int64
	slow := r.intn(g.n)
	cb := func(cctx context.Context, node model.BuildNode) (dag.CacheResult, error) {
		i := idx[node.GetLabel().String()]
		tk := clock.Add(1)
		atomic.AddInt32(&started[i], 1)
		mu.Lock()
		evs = append(evs, ev{tk, 'S', i})
		mu.Unlock()
		if int(startCount.Add(1))-1 == c.CancelAt {
			cancel()
		}
		switch c.Latency {
		case "gosched":
			runtime.Gosched()
		case "sleep":
			time.Sleep(time.Duration(1+i%5) * time.Microsecond)
		case "oneslow":
			if i == slow {
				time.Sleep(time.Millisecond)
			}
		}
		if cctx.Err() != nil {
			tk = clock.Add(1)
			mu.Lock()
			evs = append(evs, ev{tk, 'C', i})
			mu.Unlock()
			return dag.CacheMiss, cctx.Err()
		}
		tk = clock.Add(1)
		if failing[i] {
			atomic.StoreInt32(&ended[i], 2)
			mu.Lock()
			evs = append(evs, ev{tk, 'F', i})
			mu.Unlock()
			return dag.CacheMiss, errors.New("injected failure")
		}
		atomic.StoreInt32(&ended[i], 1)
		mu.Lock()
		evs = append(evs, ev{tk, 'E', i})
		mu.Unlock()
		return dag.CacheMiss, nil
	}
	verifhook.SetHandler(func(kind, name string, kv []string) error {
		if name == "walk.register" {
			switch c.RegDelay {
			case "gosched":
				runtime.Gosched()
			case "sleep":
				time.Sleep(time.Microsecond)
			}
		}
		return nil
	})
	defer verifhook.SetHandler(nil)

	w := dag.NewWalker(graph, cb, c.FailFast)
	comp, werr := w.Walk(ctx)
	if inBubble {
		// Walk may legitimately return (cancellation, fail-fast) while callbacks are still
		// running: let virtual time pass so that they finish; whatever is still blocked
		// afterwards is reported by synctest as a deadlock/leak.
		time.Sleep(50 * time.Millisecond)
		synctest.Wait()
	}
	res := Result{Case: c}
	if werr != nil {
		res.WalkErr = werr.Error()
	}
	mu.Lock()
	defer mu.Unlock()
	res.Events = len(evs)
	sort.Slice(evs, func(a, b int) bool { return evs[a].t < evs[b].t })
	viol := map[string]bool{}
	add := func(f string, a ...any) { viol[fmt.Sprintf(f, a...)] = true }
	// transitive failed ancestors
	failedAnc := make([]bool, g.n)
	for i := 0; i < g.n; i++ {
		for _, d := range g.deps[i] {
			if (failing[d] && selected[d]) || failedAnc[d] {
				failedAnc[i] = true
			}
		}
	}
	doneOK := make([]bool, g.n)
	h := sha256.New()
	for _, e := range evs {
		switch e.kind {
		case 'S':
			res.Started++
			fmt.Fprintf(h, "%d,", e.n)
			if !selected[e.n] {
				add("started-unselected")
			}
			for _, d := range g.deps[e.n] {
				if !doneOK[d] {
					add("start-before-dependency-finished")
				}
			}
			if failedAnc[e.n] {
				add("started-after-dependency-failed")
			}
		case 'E':
			doneOK[e.n] = true
		}
	}
	res.OrderSig = fmt.Sprintf("%x", h.Sum(nil))[:12]
	for i := 0; i < g.n; i++ {
		if started[i] > 1 {
			add("callback-called-twice")
		}
	}
	cancelled := c.CancelAt >= 0 && int(startCount.Load()) > c.CancelAt
	failFastHit := c.FailFast && c.Failing > 0 && func() bool {
		for i := range failing {
			if failing[i] && started[i] > 0 {
				return true
			}
		}
		return false
	}()
	for i := 0; i < g.n; i++ {
		if !selected[i] {
			continue
		}
		cm, ok := comp[nodes[i].GetLabel()]
		if ok {
			res.Completed++
			if cm.IsSuccess != (ended[i] == 1) {
				add("completion-map-disagrees-with-callback-result")
			}
			if !cm.IsSuccess {
				res.FailedN++
			}
			continue
		}
		if failedAnc[i] {
			res.SkippedN++
			continue
		}
		if cancelled || failFastHit {
			continue
		}
		add("selected-node-unresolved")
	}
	if !cancelled && werr != nil && !(failFastHit) {
		add("walk-returned-error-without-cancellation")
	}
	for v := range viol {
		res.Violations = append(res.Violations, v)
	}
	sort.Strings(res.Violations)
	return res
}

func mustJSON(v any) string {
	b, _ := json.Marshal(v)
	return string(b)
}

func TestWalker(t *testing.T) {
	config.Global.LogLevel = "error"
	for id := *flagFrom; id < *flagTo; id++ {
		var res Result
		if *flagMode == "synctest" {
			synctest.Test(t, func(t *testing.T) {
				res = runCase(t, id, *flagSeed, *flagMax, true)
			})
		} else {
			done := make(chan struct{})
			go func() {
				res = runCase(t, id, *flagSeed, *flagMax, false)
				close(done)
			}()
			select {
			case <-done:
			case <-time.After(60 * time.Second):
				fmt.Printf("STUCK %d\n", id)
				buf := make([]byte, 1<<20)
				n := runtime.Stack(buf, true)
				os.Stderr.Write(buf[:n])
				os.Exit(3)
			}
		}
		fmt.Printf("RES %d %s\n", id, mustJSON(res))
	}
	fmt.Println("BATCH-DONE", strings.TrimSpace(fmt.Sprint(*flagFrom, *flagTo)))
}
