// TestPool drives worker.TaskWorkerPool the way the executor does: one goroutine per ready
// target calls pool.Run and blocks until its task has run. The monitor sits at the task
// boundary (entry/exit of the task function) and at the caller boundary (Run call/return).
// Everything runs in a testing/synctest bubble, so task latencies of seconds (longer than the
// pool's internal one-second enqueue backstop) cost nothing and a caller that can never return
// is reported by synctest as a deadlock.
package walker

import (
	"context"
	"fmt"
	"sort"
	"sync"
	"sync/atomic"
	"testing"
	"testing/synctest"
	"time"

	tea "github.com/charmbracelet/bubbletea"
	"go.uber.org/zap"
	"go.uber.org/zap/zapcore"

	"grog/internal/config"
	"grog/internal/console"
	"grog/internal/worker"
)

type PoolCase struct {
	ID       int    `json:"id"`
	Workers  int    `json:"workers"`
	Tasks    int    `json:"tasks"`
	Latency  string `json:"latency"`
	Arrival  string `json:"arrival"`
	CancelAt int    `json:"cancel_at"` // cancel the pool context after this many task starts (-1: never)
}

type PoolResult struct {
	Case       PoolCase `json:"case"`
	Violations []string `json:"violations"`
	MaxRunning int      `json:"max_running"`
	Ran        int      `json:"ran"`
	Returned   int      `json:"returned"`
	Refused    int      `json:"refused"`
	Waited1s   int      `json:"callers_waiting_over_1s"`
}

func runPoolCase(id int, seed uint64) PoolResult {
	r := &rnd{s: seed*7919 + uint64(id)*104729 + 3}
	c := PoolCase{ID: id, Workers: 1 + r.intn(4), CancelAt: -1}
	c.Tasks = 1 + r.intn(10*c.Workers+4)
	c.Latency = []string{"micro", "milli", "second", "mixed", "long-first"}[r.intn(5)]
	c.Arrival = []string{"burst", "staggered", "waves"}[r.intn(3)]
	// (cancellation is not driven here: callers whose job is still queued when the context is
	// cancelled are abandoned by design, the executor returns without them; C04 covers that
	// at the Walk and process level)
	fmt.Printf("CASE %d %s\n", id, mustJSON(c))
	res := PoolResult{Case: c}

	lat := make([]time.Duration, c.Tasks)
	for i := range lat {
		switch c.Latency {
		case "micro":
			lat[i] = time.Duration(1+r.intn(50)) * time.Microsecond
		case "milli":
			lat[i] = time.Duration(1+r.intn(200)) * time.Millisecond
		case "second":
			lat[i] = time.Duration(1100+r.intn(2500)) * time.Millisecond
		case "mixed":
			lat[i] = []time.Duration{time.Microsecond, 30 * time.Millisecond, 1300 * time.Millisecond, 4 * time.Second}[r.intn(4)]
		case "long-first":
			lat[i] = time.Millisecond
			if i < c.Workers {
				lat[i] = 5 * time.Second
			}
		}
	}
	arrive := make([]time.Duration, c.Tasks)
	for i := range arrive {
		switch c.Arrival {
		case "staggered":
			arrive[i] = time.Duration(i*r.intn(40)) * time.Millisecond
		case "waves":
			arrive[i] = time.Duration(i/(c.Workers+1)) * 700 * time.Millisecond
		}
	}

	logger := console.NewFromSugared(zap.NewNop().Sugar(), zapcore.ErrorLevel)
	ctx, cancel := context.WithCancel(context.Background())
	defer cancel()
	pool := worker.NewTaskWorkerPool[int](logger, c.Workers, func(_ tea.Msg) {}, c.Tasks)
	pool.StartWorkers(ctx)

	var running, maxRunning, starts atomic.Int32
	ran := make([]atomic.Int32, c.Tasks)
	var mu sync.Mutex
	var viol []string
	add := func(v string) {
		mu.Lock()
		viol = append(viol, v)
		mu.Unlock()
	}
	var wg sync.WaitGroup
	var returned, refused, waited atomic.Int32
	for i := 0; i < c.Tasks; i++ {
		wg.Add(1)
		go func(i int) {
			defer wg.Done()
			time.Sleep(arrive[i])
			t0 := time.Now()
			var startedAt time.Time
			got, err := pool.Run(func(update worker.StatusFunc) (int, error) {
				startedAt = time.Now()
				n := running.Add(1)
				for {
					m := maxRunning.Load()
					if n <= m || maxRunning.CompareAndSwap(m, n) {
						break
					}
				}
				if int(n) > c.Workers {
					add(fmt.Sprintf("more-than-num-workers-tasks-running running=%d workers=%d", n, c.Workers))
				}
				if ran[i].Add(1) > 1 {
					add("task-run-twice")
				}
				if int(starts.Add(1)) == c.CancelAt+1 && c.CancelAt >= 0 {
					cancel()
				}
				update(worker.Status("running"))
				time.Sleep(lat[i])
				running.Add(-1)
				if i%7 == 3 {
					return 0, fmt.Errorf("task %d failed", i)
				}
				return 1000 + i, nil
			})
			if !startedAt.IsZero() && startedAt.Sub(t0) > time.Second {
				waited.Add(1)
			}
			switch {
			case ran[i].Load() == 0:
				// never ran: only legal when the pool was shut down, and the caller must be told
				if err == nil {
					add("run-returned-no-error-for-a-task-that-never-ran")
				} else if c.CancelAt < 0 {
					add("task-refused-without-shutdown")
				}
				refused.Add(1)
			case i%7 == 3:
				if err == nil {
					add("task-error-lost")
				}
			default:
				if err != nil || got != 1000+i {
					add(fmt.Sprintf("wrong-result-delivered-to-caller got=%d err=%v", got, err))
				}
			}
			returned.Add(1)
		}(i)
	}
	wg.Wait()
	cancel()
	synctest.Wait()
	res.MaxRunning = int(maxRunning.Load())
	res.Returned = int(returned.Load())
	res.Refused = int(refused.Load())
	res.Waited1s = int(waited.Load())
	for i := range ran {
		if ran[i].Load() > 0 {
			res.Ran++
		}
	}
	if c.CancelAt < 0 && res.Ran != c.Tasks {
		viol = append(viol, "task-never-ran")
	}
	seen := map[string]bool{}
	for _, v := range viol {
		if !seen[v] {
			seen[v] = true
			res.Violations = append(res.Violations, v)
		}
	}
	sort.Strings(res.Violations)
	return res
}

func TestPool(t *testing.T) {
	config.Global.LogLevel = "error"
	for id := *flagFrom; id < *flagTo; id++ {
		var res PoolResult
		synctest.Test(t, func(t *testing.T) {
			res = runPoolCase(id, *flagSeed)
		})
		fmt.Printf("RES %d %s\n", id, mustJSON(res))
	}
	fmt.Println("BATCH-DONE")
}
