package static

import (
	"bytes"
	"context"
	"fmt"
	"os"
	"path/filepath"
	"testing"

	"grog/internal/caching"
	"grog/internal/caching/backends"
	"grog/internal/config"
	"grog/internal/label"
	"grog/internal/model"
	"grog/internal/output"
)

// TestOutputHash: the output hash of a target (which enters every dependant's key) must not
// depend on the order in which the output writers happen to finish.
func TestOutputHash(t *testing.T) {
	fmt.Printf("CASE %d {}\n", *flagFrom)
	distinct := 0
	runs := 0
	var example, exampleNC string
	unstableNC := 0
	for id := *flagFrom; id < *flagTo; id++ {
		r := &rnd{s: *flagSeed*131 + uint64(id)*977 + 7}
		dir := filepath.Join(*flagDir, fmt.Sprintf("oh%d", id))
		ws := filepath.Join(dir, "ws")
		_ = os.MkdirAll(filepath.Join(ws, "pkg"), 0755)
		config.Global.WorkspaceRoot = ws
		config.Global.Root = filepath.Join(dir, "root")
		config.Global.HashAlgorithm = config.HashAlgorithmXXH3
		config.Global.LogLevel = "error"
		ctx := context.Background()
		nout := 2 + r.intn(4)
		var outs []model.Output
		for k := 0; k < nout; k++ {
			name := fmt.Sprintf("o%d.out", k)
			size := 1 + r.intn(200)
			if r.chance(1, 3) {
				size = 200000 + r.intn(3000000) // very different write latencies
			}
			_ = os.WriteFile(filepath.Join(ws, "pkg", name), bytes.Repeat([]byte{byte('a' + k)}, size), 0644)
			outs = append(outs, model.NewOutput("file", name))
		}
		_ = os.MkdirAll(filepath.Join(ws, "pkg", "d.d", "s"), 0755)
		_ = os.WriteFile(filepath.Join(ws, "pkg", "d.d", "s", "f"), []byte("x"), 0644)
		outs = append(outs, model.NewOutput("dir", "d.d"))
		seen := map[string]bool{}
		for rep := 0; rep < 6; rep++ {
			// a fresh cache each time so that every blob is really written
			_ = os.RemoveAll(config.Global.Root)
			be, err := backends.NewFileSystemCache(ctx)
			if err != nil {
				t.Fatal(err)
			}
			reg := output.NewRegistry(ctx, caching.NewCas(be))
			target := &model.Target{Label: label.TL("pkg", "t"), ChangeHash: "ch", Outputs: outs}
			res, err := reg.WriteOutputs(ctx, target, nil)
			if err != nil {
				t.Fatal(err)
			}
			seen[res.OutputHash] = true
			runs++
		}
		// the flavour computed for targets that bypass the cache (no-cache tag, cache disabled):
		// it enters the key of every dependant just the same
		seenNC := map[string]bool{}
		{
			be, err := backends.NewFileSystemCache(ctx)
			if err != nil {
				t.Fatal(err)
			}
			reg := output.NewRegistry(ctx, caching.NewCas(be))
			for rep := 0; rep < 12; rep++ {
				target := &model.Target{Label: label.TL("pkg", "t"), ChangeHash: "ch", Outputs: outs}
				res, err := reg.GetNoCacheOutputHash(ctx, target)
				if err != nil {
					t.Fatal(err)
				}
				seenNC[res.OutputHash] = true
				runs++
			}
		}
		if len(seenNC) > 1 {
			unstableNC++
			if exampleNC == "" {
				exampleNC = fmt.Sprintf("case %d: %d outputs, %d different no-cache output hashes over 12 identical evaluations", id, len(outs), len(seenNC))
			}
		}
		if len(seen) > 1 {
			distinct++
			if example == "" {
				example = fmt.Sprintf("case %d: %d outputs, %d different output hashes over 6 identical writes", id, len(outs), len(seen))
			}
		}
		_ = os.RemoveAll(dir)
	}
	fmt.Printf("RES %d %s\n", *flagFrom, mustJSON(map[string]any{"cases": *flagTo - *flagFrom, "writes": runs, "unstable_cases": distinct, "example": example,
		"unstable_nocache_cases": unstableNC, "example_nocache": exampleNC}))
	fmt.Println("BATCH-DONE")
}
