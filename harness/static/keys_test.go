package static

import (
	"crypto/sha256"
	"encoding/hex"
	"fmt"
	"os"
	"path/filepath"
	"sort"
	"strings"
	"testing"

	"grog/internal/config"
	"grog/internal/hashing"
	"grog/internal/label"
	"grog/internal/model"
	"grog/internal/output"
)

// state is a target state as the property sees it.
type state struct {
	Pkg, Name   string
	Command     string
	Inputs      []string          // declared (resolved) input paths, order as listed
	Files       map[string]string // path -> content (missing = not in map)
	Links       map[string]string // input path -> name of a non-input file it is a symlink to
	Outputs     []string          // output definitions as the user writes them
	Bin         string
	DepHashes   []string
	Fingerprint map[string]string
	OS, Arch    string
	MultiPlat   bool
	AllPlat     bool // the invocation selects all platforms (--all-platforms): not part of the state
}

func (s state) clone() state {
	c := s
	c.Inputs = append([]string{}, s.Inputs...)
	c.Outputs = append([]string{}, s.Outputs...)
	c.DepHashes = append([]string{}, s.DepHashes...)
	c.Files = map[string]string{}
	for k, v := range s.Files {
		c.Files[k] = v
	}
	c.Fingerprint = map[string]string{}
	for k, v := range s.Fingerprint {
		c.Fingerprint[k] = v
	}
	c.Links = map[string]string{}
	for k, v := range s.Links {
		c.Links[k] = v
	}
	return c
}

func lp(parts ...string) string {
	var sb strings.Builder
	for _, p := range parts {
		fmt.Fprintf(&sb, "%d:%s", len(p), p)
	}
	return sb.String()
}

// canon is an injective encoding of the state tuple (sets and multisets sorted).
func canon(s state) string {
	inSet := map[string]bool{}
	for _, p := range s.Inputs {
		inSet[filepath.Clean(p)] = true
	}
	var ins []string
	for p := range inSet {
		if tgt, isLink := s.Links[p]; isLink {
			// the content of a symlinked input is the content of its target
			if c, ok := s.Files[tgt]; ok {
				ins = append(ins, lp(p, "P", c))
			} else {
				ins = append(ins, lp(p, "M"))
			}
			continue
		}
		if c, ok := s.Files[p]; ok {
			ins = append(ins, lp(p, "P", c))
		} else {
			ins = append(ins, lp(p, "M"))
		}
	}
	sort.Strings(ins)
	outs := append([]string{}, s.Outputs...)
	sort.Strings(outs)
	deps := append([]string{}, s.DepHashes...)
	sort.Strings(deps)
	var fp []string
	for k, v := range s.Fingerprint {
		fp = append(fp, lp(k, v))
	}
	sort.Strings(fp)
	plat := s.OS + "/" + s.Arch
	if s.MultiPlat {
		plat = "*"
	}
	return lp("//"+s.Pkg+":"+s.Name, s.Command, lp(ins...), lp(outs...), lp("bin", s.Bin), lp(deps...), lp(fp...), plat)
}

// key evaluates grog's change hash for the state under both hash algorithms.
func key(t *testing.T, root string, s state) (string, error) {
	pkgDir := filepath.Join(root, s.Pkg)
	_ = os.RemoveAll(pkgDir)
	if err := os.MkdirAll(pkgDir, 0755); err != nil {
		return "", err
	}
	for p, c := range s.Files {
		fp := filepath.Join(pkgDir, p)
		_ = os.MkdirAll(filepath.Dir(fp), 0755)
		if err := os.WriteFile(fp, []byte(c), 0644); err != nil {
			return "", err
		}
	}
	for p, tgt := range s.Links {
		_ = os.Symlink(tgt, filepath.Join(pkgDir, p))
	}
	config.Global.WorkspaceRoot = root
	config.Global.OS, config.Global.Arch = s.OS, s.Arch
	config.Global.AllPlatforms = s.AllPlat
	parsed, err := output.ParseOutputs(s.Outputs)
	if err != nil {
		return "", err
	}
	tg := model.Target{Label: label.TargetLabel{Package: s.Pkg, Name: s.Name}, Command: s.Command,
		Inputs: append([]string{}, s.Inputs...), Outputs: parsed}
	if s.Bin != "" {
		tg.BinOutput = model.NewOutput("file", s.Bin)
	}
	if s.MultiPlat {
		tg.Tags = []string{model.TagMultiplatformCache}
	}
	if len(s.Fingerprint) > 0 {
		tg.Fingerprint = map[string]string{}
		for k, v := range s.Fingerprint {
			tg.Fingerprint[k] = v
		}
	}
	var ks []string
	for _, alg := range []string{config.HashAlgorithmXXH3, config.HashAlgorithmSHA256} {
		config.Global.HashAlgorithm = alg
		tc := tg
		tc.Inputs = append([]string{}, tg.Inputs...)
		h, err := hashing.GetTargetChangeHash(tc, append([]string{}, s.DepHashes...))
		if err != nil {
			return "", err
		}
		ks = append(ks, h)
	}
	return strings.Join(ks, "|"), nil
}

func word(r *rnd, a, b int) string {
	n := a + r.intn(b-a+1)
	bs := make([]byte, n)
	for i := range bs {
		bs[i] = byte('a' + r.intn(4))
	}
	return string(bs)
}

func baseState(r *rnd) state {
	s := state{Pkg: []string{"p", "p/q", "pq"}[r.intn(3)], Name: word(r, 1, 3), Command: "echo " + word(r, 1, 4),
		Files: map[string]string{}, Fingerprint: map[string]string{}, Links: map[string]string{}, OS: "linux", Arch: "amd64"}
	if r.chance(1, 5) {
		s.Inputs = append(s.Inputs, "lnk.txt")
		s.Links["lnk.txt"] = "real_target.dat"
		s.Files["real_target.dat"] = word(r, 1, 6)
	}
	for i := 0; i < r.intn(4); i++ {
		f := word(r, 1, 3) + ".txt"
		s.Inputs = append(s.Inputs, f)
		if !r.chance(1, 6) {
			s.Files[f] = word(r, 0, 6)
		}
	}
	s.Inputs = uniq(s.Inputs)
	for i := 0; i < r.intn(3); i++ {
		s.Outputs = append(s.Outputs, word(r, 1, 3)+".out")
	}
	s.Outputs = uniq(s.Outputs)
	for i := 0; i < r.intn(3); i++ {
		h := sha256.Sum256([]byte(word(r, 1, 5)))
		s.DepHashes = append(s.DepHashes, hex.EncodeToString(h[:])[:32])
	}
	for i := 0; i < r.intn(3); i++ {
		s.Fingerprint[word(r, 1, 2)] = word(r, 0, 3)
	}
	if r.chance(1, 8) {
		s.Fingerprint[[]string{"platform", "os", "arch"}[r.intn(3)]] = []string{"linux/amd64", "amd64", "linux", word(r, 1, 3)}[r.intn(4)]
	}
	return s
}

func uniq(xs []string) []string {
	seen := map[string]bool{}
	var out []string
	for _, x := range xs {
		if !seen[x] {
			seen[x] = true
			out = append(out, x)
		}
	}
	return out
}

func shuffle(r *rnd, xs []string) []string {
	out := append([]string{}, xs...)
	for i := len(out) - 1; i > 0; i-- {
		j := r.intn(i + 1)
		out[i], out[j] = out[j], out[i]
	}
	return out
}

// pair builds a second state related to the first; class names the relation.
func pair(r *rnd, a0 state) (state, state, string) {
	a := a0.clone()
	b := a.clone()
	switch r.intn(33) {
	case 0:
		b.Inputs = shuffle(r, a.Inputs)
		return a, b, "eq:permute-inputs"
	case 1:
		b.Outputs = shuffle(r, a.Outputs)
		return a, b, "eq:permute-outputs"
	case 2:
		b.DepHashes = shuffle(r, a.DepHashes)
		return a, b, "eq:permute-dep-hashes"
	case 3:
		return a, b, "eq:re-evaluate"
	case 4: // label | command boundary
		if len(a.Name) < 2 {
			return a, b, "eq:re-evaluate"
		}
		k := 1 + r.intn(len(a.Name)-1)
		b.Name = a.Name[:k]
		b.Command = a.Name[k:] + a.Command
		return a, b, "ne:boundary label|command"
	case 5: // command | first input name
		ins := append([]string{}, a.Inputs...)
		sort.Strings(ins)
		if len(ins) == 0 || len(ins[0]) < 2 {
			return a, b, "eq:re-evaluate"
		}
		first := ins[0]
		k := 1 + r.intn(len(first)-1)
		nf := first[k:]
		if _, clash := a.Files[nf]; clash || contains(a.Inputs, nf) {
			return a, b, "eq:re-evaluate"
		}
		// nf must still sort first
		for _, o := range ins[1:] {
			if o < nf {
				return a, b, "eq:re-evaluate"
			}
		}
		b.Command = a.Command + first[:k]
		b.Inputs = replace(a.Inputs, first, nf)
		if c, ok := a.Files[first]; ok {
			delete(b.Files, first)
			b.Files[nf] = c
		}
		return a, b, "ne:boundary command|inputs"
	case 6: // list element containing the separator
		if len(a.Inputs) < 2 {
			return a, b, "eq:re-evaluate"
		}
		ins := append([]string{}, a.Inputs...)
		sort.Strings(ins)
		joined := ins[0] + "," + ins[1]
		b.Inputs = append([]string{joined}, ins[2:]...)
		delete(b.Files, ins[0])
		delete(b.Files, ins[1])
		c0, ok0 := a.Files[ins[0]]
		c1, ok1 := a.Files[ins[1]]
		if ok0 || ok1 {
			b.Files[joined] = c0 + c1
		}
		return a, b, "ne:input-name-containing-separator"
	case 7: // outputs: element containing the separator
		if len(a.Outputs) < 2 {
			return a, b, "eq:re-evaluate"
		}
		outs := append([]string{}, a.Outputs...)
		sort.Strings(outs)
		// model.Output.String() prints "file::<path>": joining two entries needs the printed form
		b.Outputs = append([]string{outs[0] + ",file::" + outs[1]}, outs[2:]...)
		return a, b, "ne:output-name-containing-separator"
	case 8: // inputs | outputs boundary: move the last input name to the outputs
		return a, b, "eq:re-evaluate"
	case 9: // fingerprint key/value boundary
		if len(a.Fingerprint) == 0 {
			a2 := a.clone()
			if len(a.Name)%2 == 0 {
				// an entry framed as key "=" <len value> ":" value (only the value length-prefixed) cannot tell
				// {a: "p=1:z"} from {"a=5:p": "z"}: both read a=5:p=1:z
				z := a.Name
				inner := fmt.Sprintf("p=%d:%s", len(z), z)
				a2.Fingerprint["a"] = inner
				b.Fingerprint[fmt.Sprintf("a=%d:p", len(inner))] = z
				return a2, b, "ne:fingerprint-value-spelling-a-length-frame"
			}
			b.Fingerprint["a=b"] = "c"
			a2.Fingerprint["a"] = "b=c"
			return a2, b, "ne:fingerprint key=value boundary"
		}
		for k, v := range a.Fingerprint {
			if len(v) < 1 {
				return a, b, "eq:re-evaluate"
			}
			if len(v)%2 == 0 {
				// the same with this state's own entry: k -> "p=<len v>:v"   vs   (k "=<len>:p") -> v
				inner := fmt.Sprintf("p=%d:%s", len(v), v)
				a.Fingerprint[k] = inner
				b.Fingerprint = map[string]string{}
				for k2, v2 := range a.Fingerprint {
					b.Fingerprint[k2] = v2
				}
				delete(b.Fingerprint, k)
				b.Fingerprint[fmt.Sprintf("%s=%d:p", k, len(inner))] = v
				return a, b, "ne:fingerprint-value-spelling-a-length-frame"
			}
			// a: k -> "x=" + v   b: (k + "=x") -> v     both print as "k=x=v"
			a.Fingerprint[k] = "x=" + v
			b.Fingerprint = map[string]string{}
			for k2, v2 := range a.Fingerprint {
				b.Fingerprint[k2] = v2
			}
			delete(b.Fingerprint, k)
			b.Fingerprint[k+"=x"] = v
			return a, b, "ne:fingerprint-key-containing-equals"
		}
	case 10: // fingerprint entries separated by ","
		b.Fingerprint = map[string]string{"k": "v,l=w"}
		a2 := a.clone()
		a2.Fingerprint = map[string]string{"k": "v", "l": "w"}
		return a2, b, "ne:fingerprint-value-containing-separator"
	case 11: // dep hashes | fingerprint boundary
		b.DepHashes = append(append([]string{}, a.DepHashes...), "zz")
		b.Fingerprint = map[string]string{}
		a2 := a.clone()
		a2.Fingerprint = map[string]string{}
		a2.DepHashes = append([]string{}, a.DepHashes...)
		if len(a2.DepHashes) == 0 {
			return a, b, "ne:extra-dep-hash"
		}
		return a, b, "ne:extra-dep-hash"
	case 12: // content shift between adjacent inputs
		ins := append([]string{}, a.Inputs...)
		sort.Strings(ins)
		for i := 0; i+1 < len(ins); i++ {
			c0, ok0 := a.Files[ins[i]]
			_, ok1 := a.Files[ins[i+1]]
			if ok0 && ok1 && len(c0) > 0 {
				k := 1 + r.intn(len(c0))
				b.Files[ins[i]] = c0[:len(c0)-k]
				b.Files[ins[i+1]] = c0[len(c0)-k:] + a.Files[ins[i+1]]
				return a, b, "ne:content-shift-between-adjacent-inputs"
			}
		}
		return a, b, "eq:re-evaluate"
	case 13: // missing vs empty
		for _, f := range a.Inputs {
			if c, ok := a.Files[f]; ok && c == "" {
				delete(b.Files, f)
				return a, b, "ne:input-empty-vs-missing"
			}
			if _, ok := a.Files[f]; !ok {
				b.Files[f] = ""
				return a, b, "ne:input-empty-vs-missing"
			}
		}
		return a, b, "eq:re-evaluate"
	case 14: // platform
		b.Arch = "arm64"
		if a.MultiPlat {
			return a, b, "eq:multiplatform-cache-ignores-platform"
		}
		return a, b, "ne:platform"
	case 15:
		b.MultiPlat = !a.MultiPlat
		return a, b, "ne:multiplatform-tag"
	case 16: // change a content byte
		for f, c := range a.Files {
			if contains(a.Inputs, f) {
				if len(c) > 0 && r.chance(1, 2) {
					cb := []byte(c)
					cb[0] ^= 1
					b.Files[f] = string(cb)
					return a, b, "ne:input-content-same-size"
				}
				b.Files[f] = c + "x"
				return a, b, "ne:input-content"
			}
		}
		return a, b, "eq:re-evaluate"
	case 17:
		b.Command = a.Command + " "
		return a, b, "ne:command"
	case 18:
		b.Outputs = append(append([]string{}, a.Outputs...), "extra.out")
		return a, b, "ne:extra-output"
	case 19: // dir vs file output at the same path
		if len(a.Outputs) == 0 {
			return a, b, "eq:re-evaluate"
		}
		b.Outputs = append([]string{}, a.Outputs...)
		b.Outputs[0] = "dir::" + strings.TrimPrefix(a.Outputs[0], "dir::")
		if b.Outputs[0] == a.Outputs[0] {
			return a, b, "eq:re-evaluate"
		}
		return a, b, "ne:output-kind"
	case 20: // bin output vs plain output with the same path
		b.Bin = "tool.bin"
		a2 := a.clone()
		a2.Outputs = append(append([]string{}, a.Outputs...), "tool.bin")
		return a2, b, "ne:bin-output-vs-plain-output"
	case 21: // rename a file under the same content
		for _, f := range a.Inputs {
			if c, ok := a.Files[f]; ok {
				nf := "z" + f
				if contains(a.Inputs, nf) {
					break
				}
				b.Inputs = replace(a.Inputs, f, nf)
				delete(b.Files, f)
				b.Files[nf] = c
				return a, b, "ne:input-renamed"
			}
		}
		return a, b, "eq:re-evaluate"
	case 22: // duplicate entry in the input list (same set of (path, content) pairs)
		if len(a.Inputs) == 0 {
			return a, b, "eq:re-evaluate"
		}
		b.Inputs = append(append([]string{}, a.Inputs...), a.Inputs[0])
		return a, b, "eq:duplicate-input-entry(lead)"
	case 23: // content behind a symlinked input
		for l, tgt := range a.Links {
			_ = l
			c := []byte(a.Files[tgt])
			if len(c) == 0 {
				return a, b, "eq:re-evaluate"
			}
			c[len(c)-1] ^= 1 // same size, different content
			b.Files[tgt] = string(c)
			return a, b, "ne:symlinked-input-content"
		}
		return a, b, "eq:re-evaluate"
	case 24, 25: // content shift between adjacent inputs that are reached through symlinks
		ins := append([]string{}, a.Inputs...)
		sort.Strings(ins)
		for i := 0; i+1 < len(ins); i++ {
			c0, ok0 := a.Files[ins[i]]
			c1, ok1 := a.Files[ins[i+1]]
			_, l0 := a.Links[ins[i]]
			_, l1 := a.Links[ins[i+1]]
			if !ok0 || !ok1 || len(c0) == 0 || l0 || l1 || contains(a.Inputs, "zz_tgt0") {
				continue
			}
			// both (or only the first / only the second) become symlinks to non-input files
			which := r.intn(3)
			for _, st := range []*state{&a, &b} {
				if which != 2 {
					delete(st.Files, ins[i])
					st.Files["zz_tgt0"] = c0
					st.Links[ins[i]] = "zz_tgt0"
				}
				if which != 1 {
					delete(st.Files, ins[i+1])
					st.Files["zz_tgt1"] = c1
					st.Links[ins[i+1]] = "zz_tgt1"
				}
			}
			k := 1 + r.intn(len(c0))
			set := func(st *state, in, tgt, content string) {
				if _, isLink := st.Links[in]; isLink {
					st.Files[tgt] = content
				} else {
					st.Files[in] = content
				}
			}
			set(&b, ins[i], "zz_tgt0", c0[:len(c0)-k])
			set(&b, ins[i+1], "zz_tgt1", c0[len(c0)-k:]+c1)
			return a, b, "ne:content-shift-between-adjacent-symlinked-inputs"
		}
		return a, b, "eq:re-evaluate"
	case 26: // a fingerprint entry that happens to be called like a component of the key
		k := []string{"platform", "os", "arch", "label", "command"}[r.intn(5)]
		a.Fingerprint[k] = "ubuntu-22.04"
		b.Fingerprint = map[string]string{}
		for k2, v2 := range a.Fingerprint {
			b.Fingerprint[k2] = v2
		}
		b.Fingerprint[k] = "ubuntu-24.04"
		return a, b, "ne:fingerprint-entry-named-like-a-key-component"
	case 27, 28: // the platform component vs a fingerprint entry that spells the same platform
		a.MultiPlat = false
		delete(a.Fingerprint, "platform")
		b = a.clone()
		b.MultiPlat = true
		b.Fingerprint["platform"] = a.OS + "/" + a.Arch
		return a, b, "ne:platform-component-vs-fingerprint-entry"
	case 29: // the same state keyed by an invocation with and without --all-platforms
		b.AllPlat = !a.AllPlat
		return a, b, "eq:all-platforms-flag-of-the-invocation"
	case 30: // two platforms, both keyed by invocations that select all platforms
		a.MultiPlat, a.AllPlat = false, true
		delete(a.Fingerprint, "platform")
		b = a.clone()
		b.Arch = "arm64"
		return a, b, "ne:platform-under-all-platforms"
	default: // package vs name boundary: //p:qx vs //p/q:x cannot collide textually; use label prefix
		b.Pkg = a.Pkg + "x"
		return a, b, "ne:package"
	}
	return a, b, "eq:re-evaluate"
}

func contains(xs []string, x string) bool {
	for _, y := range xs {
		if y == x {
			return true
		}
	}
	return false
}

func replace(xs []string, old, nw string) []string {
	out := append([]string{}, xs...)
	for i, x := range out {
		if x == old {
			out[i] = nw
		}
	}
	return out
}

type KeyResult struct {
	Pairs      int               `json:"pairs"`
	Classes    map[string]int    `json:"classes"`
	Violations map[string]int    `json:"violations"`
	Examples   map[string]string `json:"examples"`
	ModelSkew  int               `json:"model_skew"`
	Leads      map[string]int    `json:"leads"`
}

func TestKeys(t *testing.T) {
	res := KeyResult{Classes: map[string]int{}, Violations: map[string]int{}, Examples: map[string]string{}, Leads: map[string]int{}}
	fmt.Printf("CASE %d {}\n", *flagFrom)
	rootA := filepath.Join(*flagDir, fmt.Sprintf("ka%d", *flagFrom))
	rootB := filepath.Join(*flagDir, fmt.Sprintf("elsewhere/deeper/kb%d", *flagFrom))
	defer os.RemoveAll(rootA)
	defer os.RemoveAll(filepath.Join(*flagDir, "elsewhere"))
	for id := *flagFrom; id < *flagTo; id++ {
		r := &rnd{s: *flagSeed*48271 + uint64(id)*2147483647 + 11}
		a := baseState(r)
		a, b, class := pair(r, a)
		root2 := rootA
		if r.chance(1, 3) {
			root2 = rootB // the workspace location must not matter
		}
		ka, err := key(t, rootA, a)
		if err != nil {
			continue
		}
		kb, err := key(t, root2, b)
		if err != nil {
			continue
		}
		res.Pairs++
		res.Classes[class]++
		ca, cb := canon(a), canon(b)
		wantEq := ca == cb
		if strings.HasPrefix(class, "eq:") != wantEq {
			res.ModelSkew++ // the generator's label and the canonical encoding disagree: do not judge
			continue
		}
		if wantEq && ka != kb && strings.HasSuffix(class, "(lead)") {
			res.Leads[class]++
			continue
		}
		if wantEq && ka != kb {
			res.Violations["different-keys-for-equal-states "+class]++
			if _, ok := res.Examples[class]; !ok {
				res.Examples[class] = fmt.Sprintf("a=%+v b=%+v ka=%s kb=%s", a, b, ka, kb)
			}
		}
		if !wantEq && ka == kb {
			res.Violations["collision "+class]++
			if _, ok := res.Examples[class]; !ok {
				res.Examples[class] = fmt.Sprintf("a=%+v b=%+v key=%s", a, b, ka)
			}
		}
	}
	fmt.Printf("RES %d %s\n", *flagFrom, mustJSON(res))
	fmt.Println("BATCH-DONE")
}
