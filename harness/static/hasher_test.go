package static

import (
	"fmt"
	"os"
	"path/filepath"
	"testing"

	"grog/internal/config"
	"grog/internal/dag"
	"grog/internal/hashing"
	"grog/internal/label"
	"grog/internal/model"
)

// TestHasherHistory: the key a build computes for a target is a function of the state at the
// moment it is computed - not of what the same build hashed before. Targets are keyed lazily,
// while other commands of the build run; a command may rewrite a file (a formatter) that is an
// input of a target keyed later. One hasher (= one build) keys target A, then files change and a
// dependency finishes, then it keys B (same package, same or overlapping input list, same
// command text in some cases); B's key must equal the key a fresh hasher gives B in the final state.
func TestHasherHistory(t *testing.T) {
	fmt.Printf("CASE %d {}\n", *flagFrom)
	cases, bad := 0, 0
	example := ""
	for id := *flagFrom; id < *flagTo; id++ {
		r := &rnd{s: *flagSeed*733 + uint64(id)*389 + 11}
		dir := filepath.Join(*flagDir, fmt.Sprintf("hh%d", id))
		ws := filepath.Join(dir, "ws")
		pkg := []string{"pkg", "pkg/sub"}[r.intn(2)]
		_ = os.MkdirAll(filepath.Join(ws, pkg), 0755)
		config.Global.WorkspaceRoot = ws
		config.Global.OS, config.Global.Arch = "linux", "amd64"
		config.Global.HashAlgorithm = []string{config.HashAlgorithmXXH3, config.HashAlgorithmSHA256}[r.intn(2)]
		files := []string{"data.txt", "b.txt", "c.txt"}[:1+r.intn(3)]
		write := func(version int) {
			for i, f := range files {
				c := fmt.Sprintf("%s v1\n", f)
				if version == 2 && (i == 0 || r.chance(1, 2)) {
					c = fmt.Sprintf("%s V2\n", f) // same length, other bytes
					if r.chance(1, 2) {
						c += "and a line more\n"
					}
				}
				_ = os.WriteFile(filepath.Join(ws, pkg, f), []byte(c), 0644)
			}
		}
		mk := func() (*dag.DirectedTargetGraph, *model.Target, *model.Target, *model.Target) {
			g := &model.Target{Label: label.TL(pkg, "fmt"), Command: "fmt"}
			a := &model.Target{Label: label.TL(pkg, "lint"), Command: "lint", Inputs: append([]string{}, files...)}
			bIn := append([]string{}, files...)
			if r.chance(1, 3) && len(bIn) > 1 {
				bIn[0], bIn[len(bIn)-1] = bIn[len(bIn)-1], bIn[0] // same set, written in another order
			}
			b := &model.Target{Label: label.TL(pkg, "pack"), Command: "pack", Inputs: bIn, Dependencies: []label.TargetLabel{g.Label}}
			gr := dag.NewDirectedGraphFromTargets(g, a, b)
			_ = gr.AddEdge(g, b)
			return gr, g, a, b
		}
		state := r.s
		write(1)
		gr, g, a, b := mk()
		h := hashing.NewTargetHasher(gr)
		if err := h.SetTargetChangeHash(a); err != nil {
			t.Fatal(err)
		}
		if err := h.SetTargetChangeHash(g); err != nil {
			t.Fatal(err)
		}
		write(2) // what fmt's command did while it ran
		g.OutputHash = "outputhash-of-fmt"
		if err := h.SetTargetChangeHash(b); err != nil {
			t.Fatal(err)
		}
		// the reference: a fresh build keying B in the final state
		r.s = state
		write(1)
		r.s = state
		gr2, g2, _, b2 := mk()
		_ = gr2
		write(2)
		g2.OutputHash = "outputhash-of-fmt"
		if err := hashing.NewTargetHasher(gr2).SetTargetChangeHash(b2); err != nil {
			t.Fatal(err)
		}
		cases++
		if b.ChangeHash != b2.ChangeHash {
			bad++
			if example == "" {
				example = fmt.Sprintf("case %d: %s:pack (inputs %v) keyed after %s:lint (inputs %v) had been keyed and the files were rewritten: key %s, a fresh hasher in the same final state gives %s", id, pkg, b.Inputs, pkg, a.Inputs, b.ChangeHash, b2.ChangeHash)
			}
		}
		_ = os.RemoveAll(dir)
	}
	fmt.Printf("RES %d %s\n", *flagFrom, mustJSON(map[string]any{"cases": cases, "history_dependent": bad, "example": example}))
	fmt.Println("BATCH-DONE")
}
