// Package static is an in-process driver for the label/pattern algebra (C17) and the cache-key
// function (C09), overlaid into the grog module at check time.
package static

import (
	"encoding/json"
	"flag"
	"fmt"
	"regexp"
	"sort"
	"strings"
	"testing"

	"grog/internal/label"
)

var (
	flagSeed = flag.Uint64("vseed", 1, "seed")
	flagFrom = flag.Int("vfrom", 0, "first case")
	flagTo   = flag.Int("vto", 1, "one past last case")
	flagLen  = flag.Int("vlen", 6, "max string length for exhaustive enumeration")
	flagRand = flag.Int("vrand", 20000, "random longer strings")
	flagDir  = flag.String("vdir", "", "scratch dir")
)

type rnd struct{ s uint64 }

func (r *rnd) u64() uint64 {
	r.s += 0x9E3779B97F4A7C15
	z := r.s
	z = (z ^ (z >> 30)) * 0xBF58476D1CE4E5B9
	z = (z ^ (z >> 27)) * 0x94D049BB133111EB
	return z ^ (z >> 31)
}
func (r *rnd) intn(n int) int {
	if n <= 0 {
		return 0
	}
	return int(r.u64() % uint64(n))
}
func (r *rnd) chance(a, b int) bool { return r.intn(b) < a }

func mustJSON(v any) string {
	b, _ := json.Marshal(v)
	return string(b)
}

var alphabet = []byte("ab/:.-")

var uniPkgs = []string{"", "a", "b", "ab", "a/b", "a/b/c", "a.b", "a-b", "b/a", "a/bb", "aa", "ab/c", "aa/b", "a.b/c", "b/ab", "ab/a", "a/b/a"}
var uniNames = []string{"a", "b", "all", "a.b", "ab", "c", "x-test", "-", "bb"}

func universe() []label.TargetLabel {
	var u []label.TargetLabel
	for _, p := range uniPkgs {
		for _, n := range uniNames {
			u = append(u, label.TargetLabel{Package: p, Name: n})
		}
	}
	return u
}

var (
	nameRe = `[a-zA-Z0-9_.\-]+`
	compRe = `[a-zA-Z0-9_\-]+(?:\.[a-zA-Z0-9_\-]+)*` // components without "..", never containing "..."
	pkgRe  = compRe + `(?:/` + compRe + `)*`
	reRec  = regexp.MustCompile(`^//(?:(` + pkgRe + `)/)?\.\.\.(?::(` + nameRe + `))?$`)
	reFull = regexp.MustCompile(`^//(` + pkgRe + `)?:(` + nameRe + `)$`)
	reShrt = regexp.MustCompile(`^//(` + pkgRe + `)$`)
	reRel  = regexp.MustCompile(`^:(` + nameRe + `)$`)
)

// refMatch is the reference matcher for the documented pattern forms. ok=false: the string is
// not one of the documented forms (only crash-freedom and round trips are judged then).
func refMatch(cur, p string) (func(label.TargetLabel) bool, bool) {
	nameOK := func(want string, l label.TargetLabel) bool {
		return want == "" || want == "all" || want == "..." || l.Name == want
	}
	under := func(pkg, prefix string) bool {
		return prefix == "" || pkg == prefix || strings.HasPrefix(pkg, prefix+"/")
	}
	if m := reRec.FindStringSubmatch(p); m != nil {
		if m[2] == "..." && false {
			return nil, false
		}
		return func(l label.TargetLabel) bool { return under(l.Package, m[1]) && nameOK(m[2], l) }, true
	}
	if m := reFull.FindStringSubmatch(p); m != nil {
		return func(l label.TargetLabel) bool { return l.Package == m[1] && nameOK(m[2], l) }, true
	}
	if m := reShrt.FindStringSubmatch(p); m != nil {
		parts := strings.Split(m[1], "/")
		last := parts[len(parts)-1]
		return func(l label.TargetLabel) bool { return l.Package == m[1] && nameOK(last, l) }, true
	}
	if m := reRel.FindStringSubmatch(p); m != nil {
		return func(l label.TargetLabel) bool { return l.Package == cur && nameOK(m[1], l) }, true
	}
	return nil, false
}

type LabelResult struct {
	Strings        int               `json:"strings"`
	LabelsParsed   int               `json:"labels_parsed"`
	PatternsParsed int               `json:"patterns_parsed"`
	Documented     int               `json:"patterns_in_documented_form"`
	MatchChecks    int               `json:"match_checks"`
	ShorthandLaws  int               `json:"shorthand_law_checks"`
	Violations     map[string]int    `json:"violations"`
	Leads          map[string]int    `json:"leads"`
	Examples       map[string]string `json:"examples"`
}

func checkString(s string, curs []string, u []label.TargetLabel, res *LabelResult) {
	viol := func(kind, ex string) {
		res.Violations[kind]++
		if _, ok := res.Examples[kind]; !ok {
			res.Examples[kind] = ex
		}
	}
	res.Strings++
	for _, cur := range curs {
		// labels
		if l, err := label.ParseTargetLabel(cur, s); err == nil {
			res.LabelsParsed++
			l2, err2 := label.ParseTargetLabel("zz", l.String())
			if err2 != nil || l2 != l {
				viol("label-roundtrip", fmt.Sprintf("cur=%q s=%q -> %+v prints %q reparses %+v err=%v", cur, s, l, l.String(), l2, err2))
			}
			if m := reShrt.FindStringSubmatch(s); m != nil {
				parts := strings.Split(m[1], "/")
				if l.Package != m[1] || l.Name != parts[len(parts)-1] {
					viol("label-shorthand", fmt.Sprintf("s=%q -> %+v", s, l))
				}
			}
			if m := reRel.FindStringSubmatch(s); m != nil {
				if l.Package != cur || l.Name != m[1] {
					viol("label-relative", fmt.Sprintf("cur=%q s=%q -> %+v", cur, s, l))
				}
			}
			if m := reFull.FindStringSubmatch(s); m != nil {
				if l.Package != m[1] || l.Name != m[2] {
					viol("label-explicit", fmt.Sprintf("s=%q -> %+v", s, l))
				}
			}
		} else {
			// documented label forms must parse
			if (reFull.MatchString(s) && !strings.HasSuffix(s, ":...")) || reShrt.MatchString(s) {
				viol("label-documented-form-rejected", fmt.Sprintf("s=%q err=%v", s, err))
			}
		}
		// patterns
		p, err := label.ParseTargetPattern(cur, s)
		if err != nil {
			if _, doc := refMatch(cur, s); doc {
				viol("pattern-documented-form-rejected", fmt.Sprintf("cur=%q s=%q err=%v", cur, s, err))
			}
			continue
		}
		res.PatternsParsed++
		ref, doc := refMatch(cur, s)
		printed := p.String()
		p2, err2 := label.ParseTargetPattern("zz", printed)
		for _, l := range u {
			got := p.Matches(l)
			res.MatchChecks++
			if doc {
				if want := ref(l); want != got {
					kind := "pattern-match-missing"
					if got {
						kind = "pattern-match-extra"
					}
					viol(kind, fmt.Sprintf("cur=%q pattern=%q label=%s want=%v got=%v", cur, s, l, want, got))
				}
			}
			if err2 != nil {
				viol("pattern-roundtrip-unparseable", fmt.Sprintf("cur=%q pattern=%q prints %q err=%v", cur, s, printed, err2))
				break
			}
			if p2.Matches(l) != got && !cleanPath(p.Prefix()) {
				res.Leads["pattern-roundtrip-changes-matches(package path with empty components)"]++
				break
			}
			if p2.Matches(l) != got {
				viol("pattern-roundtrip-changes-matches", fmt.Sprintf("cur=%q pattern=%q prints %q label=%s before=%v after=%v", cur, s, printed, l, got, p2.Matches(l)))
			}
		}
		if doc {
			res.Documented++
		}
	}
}

func TestLabels(t *testing.T) {
	fmt.Printf("CASE 0 {}\n")
	res := LabelResult{Violations: map[string]int{}, Examples: map[string]string{}, Leads: map[string]int{}}
	u := universe()
	curs := []string{"", "a", "a/b"}
	// exhaustive enumeration
	var rec func(prefix []byte)
	rec = func(prefix []byte) {
		if len(prefix) > 0 {
			checkString(string(prefix), curs, u, &res)
		}
		if len(prefix) == *flagLen {
			return
		}
		for _, c := range alphabet {
			rec(append(prefix, c))
		}
	}
	rec(nil)
	// random longer strings assembled from plausible fragments
	r := &rnd{s: *flagSeed*2654435761 + 99}
	frags := []string{"//", ":", "/", "...", "a", "b", "ab", "all", ".", "-", "a/b", "x-test", "a.b", "bb", "c"}
	for i := 0; i < *flagRand; i++ {
		var sb strings.Builder
		for k := 0; k < 2+r.intn(6); k++ {
			sb.WriteString(frags[r.intn(len(frags))])
		}
		checkString(sb.String(), curs, u, &res)
	}
	// every documented pattern form over the universe's packages and names
	for _, p := range uniPkgs {
		for _, n := range append([]string{"all", "...", ""}, uniNames...) {
			var forms []string
			pre := "//" + p
			if n == "" {
				forms = []string{pre, pre + "/...", "//..."}
				if p == "" {
					forms = []string{"//..."}
				}
			} else {
				forms = []string{pre + ":" + n, ":" + n}
				if p == "" {
					forms = append(forms, "//...:"+n)
				} else {
					forms = append(forms, pre+"/...:"+n)
				}
			}
			for _, f := range forms {
				checkString(f, curs, u, &res)
			}
		}
	}
	// documented label forms over deeper package paths than the enumeration reaches, and the
	// shorthand law: a label can be written //pkg exactly when its name is the last component
	// of its package, and then //pkg parses back to it
	deep := append([]string{"a/b/c/d", "x-y/z.w/q", "aa/a", "a/aa", "ab/b", "b/ab", "a/b/b", "b/b", "a/b/ab", "ab/ab", "a.b/b", "a-b/b", "c/b/a"}, uniPkgs...)
	names := append([]string{"d", "q", "aa", "z.w"}, uniNames...)
	for _, pk := range deep {
		if pk != "" {
			checkString("//"+pk, curs, u, &res)
		}
		for _, n := range names {
			checkString("//"+pk+":"+n, curs, u, &res)
			l := label.TargetLabel{Package: pk, Name: n}
			res.ShorthandLaws++
			comps := strings.Split(pk, "/")
			want := pk != "" && n == comps[len(comps)-1]
			if got := l.CanBeShortened(); got != want {
				viol := "label-can-be-shortened-wrong"
				res.Violations[viol]++
				if _, ok := res.Examples[viol]; !ok {
					res.Examples[viol] = fmt.Sprintf("%+v CanBeShortened()=%v want %v", l, got, want)
				}
			}
			if l.CanBeShortened() {
				if l2, err := label.ParseTargetLabel("zz", "//"+pk); err != nil || l2 != l {
					viol := "label-shorthand-does-not-denote-the-label"
					res.Violations[viol]++
					if _, ok := res.Examples[viol]; !ok {
						res.Examples[viol] = fmt.Sprintf("%+v can be shortened but //%s parses to %+v err=%v", l, pk, l2, err)
					}
				}
			}
		}
	}
	keys := make([]string, 0, len(res.Violations))
	for k := range res.Violations {
		keys = append(keys, k)
	}
	sort.Strings(keys)
	fmt.Printf("RES 0 %s\n", mustJSON(res))
	fmt.Println("BATCH-DONE")
}

// cleanPath reports whether a package path has no empty components.
func cleanPath(p string) bool {
	if p == "" {
		return true
	}
	for _, c := range strings.Split(p, "/") {
		if c == "" {
			return false
		}
	}
	return true
}
