// Package cost is an in-process driver that measures operation counts (verifhook counters) of
// the graph algorithms on ladder (layered complete-bipartite) graphs versus chains.
package cost

import (
	"encoding/json"
	"flag"
	"fmt"
	"os"
	"sync/atomic"
	"testing"
	"time"

	"grog/internal/analysis"
	"grog/internal/config"
	"grog/internal/console"
	"grog/internal/dag"
	"grog/internal/label"
	"grog/internal/model"
	"grog/internal/selection"
	"grog/internal/verifhook"
)

var (
	flagFrom = flag.Int("vfrom", 0, "first case")
	flagTo   = flag.Int("vto", 1, "one past last case")
	flagSeed = flag.Uint64("vseed", 1, "seed")
	flagMaxD = flag.Int("vmaxd", 14, "max ladder depth")
)

type Case struct {
	ID     int    `json:"id"`
	Family string `json:"family"` // ladder | chain | dense
	W      int    `json:"w"`
	D      int    `json:"d"`
	Naming string `json:"naming"` // topdown | bottomup
	Op     string `json:"op"`
	V      int    `json:"v"`
	E      int    `json:"e"`
}

type Result struct {
	Case     Case             `json:"case"`
	Counts   map[string]int64 `json:"counts"`
	Bound    int64            `json:"bound"`
	Exceeded string           `json:"exceeded,omitempty"`
	Millis   int64            `json:"millis"`
}

var ops = []string{"select", "descendants", "ancestors", "conflicts", "cycle"}

func cases(maxD int) []Case {
	var cs []Case
	id := 0
	for _, fam := range []string{"ladder", "chain", "dense"} {
		for _, w := range []int{2, 3, 4} {
			for d := 4; d <= maxD; d += 2 {
				for _, naming := range []string{"topdown", "bottomup"} {
					for _, op := range ops {
						if fam == "chain" && (w != 2) {
							continue
						}
						if fam == "dense" && w != 3 {
							continue
						}
						cs = append(cs, Case{ID: id, Family: fam, W: w, D: d, Naming: naming, Op: op})
						id++
					}
				}
			}
		}
	}
	return cs
}

func build(c *Case) (model.BuildNodeMap, []*model.Target) {
	n := c.W * c.D
	if c.Family == "chain" {
		n = c.W * c.D // same node count as the ladder of that size
	}
	nodes := make([]*model.Target, n)
	name := func(i int) string {
		// naming decides the alphabetical order in which roots are visited
		if c.Naming == "bottomup" {
			return fmt.Sprintf("n%04d", i)
		}
		return fmt.Sprintf("n%04d", n-1-i)
	}
	for i := 0; i < n; i++ {
		nodes[i] = &model.Target{Label: label.TL("p", name(i)), Command: "true"}
	}
	addDep := func(i, d int) {
		nodes[i].Dependencies = append(nodes[i].Dependencies, nodes[d].Label)
		c.E++
	}
	switch c.Family {
	case "chain":
		for i := 1; i < n; i++ {
			addDep(i, i-1)
		}
	case "ladder":
		for l := 1; l < c.D; l++ {
			for a := 0; a < c.W; a++ {
				for b := 0; b < c.W; b++ {
					addDep(l*c.W+a, (l-1)*c.W+b)
				}
			}
		}
	case "dense":
		for i := 1; i < n; i++ {
			for d := max(0, i-4); d < i; d++ {
				addDep(i, d)
			}
		}
	}
	c.V = n
	if c.Op == "conflicts" {
		// a shared directory output at the bottom and the top, plus one in the middle: ordered
		// pairs, so the graph is valid but the ancestor sets are needed
		nodes[0].Outputs = []model.Output{model.NewOutput("dir", "shared")}
		nodes[n-1].Outputs = []model.Output{model.NewOutput("dir", "shared")}
		nodes[n/2].Outputs = []model.Output{model.NewOutput("file", "shared/f")}
	}
	m := model.BuildNodeMap{}
	for _, t := range nodes {
		m[t.Label] = t
	}
	return m, nodes
}

func run(c Case) Result {
	verifhook.ResetCounts()
	res := Result{Case: c}
	nodeMap, nodes := build(&res.Case)
	v, e := int64(res.Case.V), int64(res.Case.E)
	res.Bound = 8 * (v + e) * (v + e)
	done := make(chan struct{})
	var exceeded atomic.Value
	start := time.Now()
	go func() {
		defer close(done)
		graph, err := analysis.BuildGraph(nodeMap) // cycle search + output conflicts
		if err != nil {
			exceeded.Store("build-graph-error: " + err.Error())
			return
		}
		switch c.Op {
		case "select":
			pat, _ := label.ParseTargetPattern("", "//...")
			sel := selection.New([]label.TargetPattern{pat}, nil, nil, selection.AllTargets)
			if _, _, err := sel.SelectTargetsForBuild(graph); err != nil {
				exceeded.Store("select-error: " + err.Error())
			}
		case "descendants":
			_ = graph.GetDescendants(nodes[0])
		case "ancestors":
			_ = graph.GetAncestors(nodes[len(nodes)-1])
		case "conflicts", "cycle":
			// done by BuildGraph
		}
	}()
	tick := time.NewTicker(5 * time.Millisecond)
	defer tick.Stop()
loop:
	for {
		select {
		case <-done:
			break loop
		case <-tick.C:
			for k, n := range verifhook.Counts() {
				if n > 4*res.Bound {
					res.Exceeded = k
					break loop
				}
			}
		}
	}
	res.Counts = verifhook.Counts()
	res.Millis = time.Since(start).Milliseconds()
	if res.Exceeded == "" {
		for k, n := range res.Counts {
			if n > res.Bound {
				res.Exceeded = k
			}
		}
	}
	if s, ok := exceeded.Load().(string); ok && res.Exceeded == "" {
		res.Exceeded = s
	}
	return res
}

func TestCost(t *testing.T) {
	config.Global.LogLevel = "error"
	config.Global.OS, config.Global.Arch = "linux", "amd64"
	_ = console.InitLogger()
	_ = dag.NewDirectedGraph()
	cs := cases(*flagMaxD)
	for id := *flagFrom; id < *flagTo && id < len(cs); id++ {
		b, _ := json.Marshal(cs[id])
		fmt.Printf("CASE %d %s\n", id, b)
		r := run(cs[id])
		rb, _ := json.Marshal(r)
		fmt.Printf("RES %d %s\n", id, rb)
		if r.Exceeded != "" && r.Counts[r.Exceeded] > 4*r.Bound {
			// the operation is still running in its goroutine: leave this process, the batch resumes
			os.Exit(0)
		}
	}
	fmt.Println("BATCH-DONE")
}
