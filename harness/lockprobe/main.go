// Command lockprobe (overlaid into the grog module at check time) takes the real workspace
// lock, stays in a marked critical section and releases it. Every file-system step of the
// locker is a verifhook point, so a controller can run several probes step by step.
package main

import (
	"context"
	"fmt"
	"os"
	"os/signal"
	"syscall"

	"grog/internal/config"
	"grog/internal/locking"
	"grog/internal/verifhook"
)

func main() {
	if len(os.Args) < 3 {
		fmt.Fprintln(os.Stderr, "usage: lockprobe <grog-root> <workspace-root>")
		os.Exit(2)
	}
	config.Global.Root = os.Args[1]
	config.Global.WorkspaceRoot = os.Args[2]
	config.Global.LogLevel = "error"
	ctx, cancel := context.WithCancel(context.Background())
	sig := make(chan os.Signal, 1)
	signal.Notify(sig, syscall.SIGTERM, syscall.SIGINT)
	go func() { <-sig; cancel() }()
	locker := locking.NewWorkspaceLocker()
	if err := locker.Lock(ctx); err != nil {
		fmt.Println("LOCK-ERROR", err)
		os.Exit(3)
	}
	verifhook.Point("cs.enter")
	verifhook.Point("cs.exit")
	if err := locker.Unlock(); err != nil {
		fmt.Println("UNLOCK-ERROR", err)
		verifhook.Point("probe.unlock.error")
		os.Exit(4)
	}
	verifhook.Point("probe.done")
	os.Exit(0)
}
