package main

import (
	"fmt"
	"os"
	"strconv"
	"time"

	"vctl/internal/grog"
)

// ptyCmd: vctl pty <grog-bin> <workspace> <key-delay-ms|-1> <args...>   (debugging aid)
// runs grog on a pseudo terminal, optionally presses Ctrl-C after the delay, prints what the
// terminal received and the exit status.
func ptyCmd(args []string) int {
	if len(args) < 4 {
		fmt.Fprintln(os.Stderr, "usage: vctl pty <grog-bin> <workspace> <ctrl-c-after-ms|-1> <args...>")
		return 2
	}
	delay, _ := strconv.Atoi(args[2])
	m := &grog.Machine{Bin: args[0], Workspace: args[1], Root: os.Getenv("GROG_ROOT"), Home: os.Getenv("HOME")}
	o := grog.RunOpts{Pty: true, Timeout: 60 * time.Second}
	if delay >= 0 {
		o.WithPty = func(pid int, master *os.File) {
			time.Sleep(time.Duration(delay) * time.Millisecond)
			master.Write([]byte{3})
		}
	}
	res := m.Run(args[3:], o)
	fmt.Printf("%q\nexit=%d timedout=%v wall=%v\n", res.Stdout, res.Exit, res.TimedOut, res.Wall)
	return 0
}
