package e5

import (
	"crypto/sha256"
	"fmt"
	"path/filepath"
)

// prefixOf is the directory grog derives from the workspace path.
func prefixOf(ws string) string {
	h := sha256.Sum256([]byte(ws))
	return fmt.Sprintf("%x", h)[:16] + "-" + filepath.Base(ws)
}
