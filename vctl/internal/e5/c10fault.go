package e5

import (
	"fmt"
	"os"
	"os/exec"
	"path/filepath"
	"strings"
	"syscall"
	"time"

	"vctl/internal/e1"
	"vctl/internal/grog"
	"vctl/internal/report"
	"vctl/internal/rng"
	"vctl/internal/spec"
)

// c10LockLeftBehind: whole builds of the real binary that leave their lock file behind - killed
// at a locker step (hook plan), or a system call on the lock file fails under strace (the PID
// write fails: empty file; the remove at Unlock fails: file naming a dead process; the create
// fails) - followed by an ordinary build, which must get the lock and finish: a lock left
// behind by a dead process never blocks a new build.
func c10LockLeftBehind(run *report.Run, n int) {
	st, err := e1.Prepare(run, false)
	if err != nil {
		run.Infra(err.Error())
		return
	}
	defer st.Cleanup()
	straceOK := false
	if p, err := exec.LookPath("strace"); err == nil {
		out, err := exec.Command(p, "-f", "-b", "execve", "-o", "/dev/null", "-e", "trace=write", "-e", "inject=write:error=EIO:when=60000", "true").CombinedOutput()
		straceOK = err == nil && !strings.Contains(string(out), "PTRACE")
	}
	type mode struct{ name, plan, call, errno string }
	modes := []mode{
		{name: "killed-after-create", plan: "lock.created=kill:1"},
		{name: "killed-after-pid-write", plan: "lock.pidwritten=kill:1"},
		{name: "killed-while-holding", plan: "build.locked=kill:1"},
		{name: "killed-at-release", plan: "lock.release=kill:1"},
	}
	if straceOK {
		modes = append(modes,
			mode{name: "pid-write-fails", call: "write", errno: "ENOSPC"},
			mode{name: "pid-write-fails", call: "write", errno: "EIO"},
			mode{name: "remove-at-unlock-fails", call: "unlinkat", errno: "EIO"},
			mode{name: "remove-at-unlock-fails", call: "unlinkat", errno: "EACCES"},
			mode{name: "create-fails", call: "openat", errno: "EACCES"},
			mode{name: "close-fails", call: "close", errno: "EIO"})
	} else {
		run.Count("lock_fault_modes_skipped(strace cannot trace here)", 1)
	}
	e1.Parallel(n, func(i int) {
		r := rng.Derive(uint64(run.Seed), "C10-left-behind", fmt.Sprint(i))
		md := modes[i%len(modes)]
		pf := spec.DefaultProfile()
		pf.MinTargets, pf.MaxTargets = 1, 3
		s := spec.Gen(r, pf)
		env, err := e1.NewEnv(st.Base, fmt.Sprintf("lf%d", i), st.Grog, st.Vctl, s, grog.Config{NumWorkers: 2})
		if err != nil {
			run.Infra(err.Error())
			return
		}
		keep := false
		defer func() {
			if !keep {
				env.Cleanup()
			}
		}()
		lockFile := filepath.Join(filepath.Dir(env.CacheDir()), "lockfile")
		pre := ""
		if r.Chance(1, 3) {
			// the workspace was built before (the cache directory and an older state exist)
			if res := env.M.Run([]string{"build"}, grog.RunOpts{Build: "warm"}); res.Exit != 0 {
				return
			}
			pre = "after-an-earlier-build"
		}
		opts := grog.RunOpts{Build: "faulty", Timeout: 60 * time.Second}
		slog := filepath.Join(env.Dir, "strace.log")
		if md.plan != "" {
			opts.Env = []string{"GROG_VERIF_PLAN=" + md.plan}
		} else {
			_ = os.MkdirAll(filepath.Dir(lockFile), 0755)
			opts.Wrapper = []string{"strace", "-f", "-b", "execve", "-y", "-s", "0", "-o", slog, "-P", lockFile,
				"-e", "trace=" + md.call, "-e", fmt.Sprintf("inject=%s:error=%s:when=1", md.call, md.errno)}
		}
		res := env.M.Run([]string{"build"}, opts)
		run.Eval(1)
		run.Count("builds_made_to_leave_their_lock_behind:"+md.name, 1)
		left := "absent"
		if b, err := os.ReadFile(lockFile); err == nil {
			switch c := strings.TrimSpace(string(b)); {
			case c == "":
				left = "empty"
			default:
				left = "names-a-process"
			}
		}
		run.Count("lock_file_after_the_faulty_build:"+left, 1)
		injected := md.plan != ""
		if b, err := os.ReadFile(slog); err == nil && strings.Contains(string(b), "(INJECTED)") {
			injected = true
		}
		if !injected {
			run.Count("lock_fault_not_reached", 1)
			return
		}
		if res.TimedOut && res.Hang {
			keep = !run.Violation("build-hangs-after-lock-file-fault mode="+md.name, fmt.Sprintf("grog build did not exit after %s (%s %s) on its lock file", md.name, md.call, md.errno),
				map[string]any{"mode": md, "stdout": tail(res.Stdout, 800), "stderr": tail(res.Stderr, 800)}) || keep
			return
		}
		// the next build: must get the lock and finish
		nx := env.M.Run([]string{"build"}, grog.RunOpts{Build: "next", Timeout: 60 * time.Second})
		run.Count("follow_up_builds", 1)
		run.Nontrivial(fmt.Sprintf("%s|%s|%s|%s", md.name, md.errno, left, pre))
		if nx.TimedOut || nx.Exit != 0 {
			what := fmt.Sprintf("exit %d", nx.Exit)
			if nx.TimedOut {
				what = fmt.Sprintf("still waiting after 60 s (quiescent: %v)", nx.Hang)
			}
			keep = !run.Violation(fmt.Sprintf("stale-lock-blocks-next-build mode=%s lock-file=%s", md.name, left),
				fmt.Sprintf("after a build that left its lock file behind (%s; lock file %s) the next grog build: %s; output: %s", md.name, left, what, tail(nx.Stdout+nx.Stderr, 400)),
				map[string]any{"mode": md, "lock_file": left, "first_stdout": tail(res.Stdout+res.Stderr, 600), "next_stdout": tail(nx.Stdout+nx.Stderr, 600)}) || keep
			return
		}
		if _, err := os.Stat(lockFile); err == nil {
			keep = !run.Violation("lock-file-left-behind-by-a-successful-build mode="+md.name, "the follow-up build exited 0 but its lock file still exists",
				map[string]any{"mode": md}) || keep
		}
	})
}

// c10InterruptedWaiter: build A holds the workspace lock (a slow target), build B starts, waits (or, every third case, is started with --skip-workspace-lock and runs to its end meanwhile; in another third all builds run with --enable-cache=false and the second is a plain contender)
// for the lock and is interrupted (SIGINT / SIGTERM) while waiting, then build C starts. B's
// way out must leave A's lock alone: the lock file still names A while A runs, no command of C
// starts before A's build is over, and A and C both end normally.
func c10InterruptedWaiter(run *report.Run, n int) {
	st, err := e1.Prepare(run, false)
	if err != nil {
		run.Infra(err.Error())
		return
	}
	defer st.Cleanup()
	e1.Parallel(n, func(i int) {
		r := rng.Derive(uint64(run.Seed), "C10-interrupted-waiter", fmt.Sprint(i))
		s := &spec.Spec{Files: map[string]string{"p/a.txt": "a\n", "p/b.txt": "b\n"}}
		slow := &spec.Target{Pkg: "p", Name: "slow", Salt: r.Word(4, 8), Inputs: []string{"a.txt"}, Outs: []spec.Out{{Kind: "file", Path: "slow.out"}}, SleepMs: 3500}
		quick := &spec.Target{Pkg: "p", Name: "quick", Salt: r.Word(4, 8), Inputs: []string{"b.txt"}, Outs: []spec.Out{{Kind: "file", Path: "quick.out"}}}
		s.Targets = []*spec.Target{slow, quick}
		env, err := e1.NewEnv(st.Base, fmt.Sprintf("iw%d", i), st.Grog, st.Vctl, s, grog.Config{NumWorkers: 2})
		if err != nil {
			run.Infra(err.Error())
			return
		}
		keep := false
		defer func() {
			if !keep {
				env.Cleanup()
			}
		}()
		lockFile := filepath.Join(filepath.Dir(env.CacheDir()), "lockfile")
		logA := filepath.Join(env.Dir, "hooks-a.jsonl")
		logB := filepath.Join(env.Dir, "hooks-b.jsonl")
		saw := func(log, name string) bool {
			for _, ev := range e1.ReadHookLog(log) {
				if ev.Name == name {
					return true
				}
			}
			return false
		}
		sig := rng.Pick(r, []syscall.Signal{syscall.SIGINT, syscall.SIGTERM})
		noCache := i%3 == 2
		doneA := make(chan *grog.Result, 1)
		var pidA int
		go func() {
			argsA := []string{"build", "//p:slow"}
			if noCache {
				argsA = []string{"build", "--enable-cache=false", "//p:slow"}
			}
			doneA <- env.M.Run(argsA, grog.RunOpts{Build: "A", Timeout: 60 * time.Second, Env: []string{"GROG_VERIF_LOG=" + logA},
				AfterStart: func(pid int) { pidA = pid }})
		}()
		inTarget := func() bool {
			b, _ := os.ReadFile(env.M.Trace)
			return strings.Contains(string(b), " A ")
		}
		for w := 0; w < 250 && !saw(logA, "build.locked") && !inTarget(); w++ {
			time.Sleep(20 * time.Millisecond)
		}
		signalled := false
		// every third case: B is not a waiter at all but a build started with --skip-workspace-lock
		// that runs to its end while A holds the lock (it never took the lock, so it has none to give up)
		skipB := i%3 == 1
		cause := "interrupted-waiter"
		var resB *grog.Result
		if noCache {
			// every third case: all three builds run with the cache disabled - which says nothing
			// about the lock: the second build is a plain contender and is simply not interrupted
			cause = "cache-disabled-builds"
			resB = env.M.Run([]string{"build", "--enable-cache=false", "//p:quick"}, grog.RunOpts{Build: "C", Timeout: 60 * time.Second, Env: []string{"GROG_VERIF_LOG=" + logB}})
			run.Count("contenders_with_the_cache_disabled", 1)
			resA := <-doneA
			run.Eval(1)
			run.Nontrivial(fmt.Sprintf("%s|B-exit%d", cause, resB.Exit))
			replay := map[string]any{"A": tail(resA.Stdout+resA.Stderr, 600), "B": tail(resB.Stdout+resB.Stderr, 600)}
			b, _ := os.ReadFile(env.M.Trace)
			lastA, firstC := -1, -1
			for li, line := range strings.Split(string(b), "\n") {
				f := strings.Fields(line)
				if len(f) < 3 {
					continue
				}
				if f[1] == "A" {
					lastA = li
				}
				if f[1] == "C" && firstC < 0 {
					firstC = li
				}
			}
			replay["trace"] = tail(string(b), 600)
			if firstC >= 0 && lastA > firstC {
				keep = !run.Violation("two-builds-overlap cause="+cause, "a command of the second build started before the build holding the lock had finished (both builds run with --enable-cache=false, neither with --skip-workspace-lock)", replay) || keep
				return
			}
			if resA.Exit != 0 || resB.Exit != 0 || resA.TimedOut || resB.TimedOut {
				keep = !run.Violation("holder-or-newcomer-failed cause="+cause, fmt.Sprintf("holder exit=%d, contender exit=%d", resA.Exit, resB.Exit), replay) || keep
			}
			return
		}
		if skipB {
			cause = "skip-lock-build-finished-meanwhile"
			resB = env.M.Run([]string{"build", "--skip-workspace-lock", "//p:quick"}, grog.RunOpts{Build: "B", Timeout: 40 * time.Second, Env: []string{"GROG_VERIF_LOG=" + logB}})
			signalled = resB.Exit == 0
			run.Count("skip_lock_builds_finished_while_the_lock_was_held", 1)
		} else {
			resB = env.M.Run([]string{"build", "//p:quick"}, grog.RunOpts{Build: "B", Timeout: 40 * time.Second, Env: []string{"GROG_VERIF_LOG=" + logB},
				AfterStart: func(pid int) {
					for w := 0; w < 150; w++ {
						if saw(logB, "lock.wait") {
							time.Sleep(time.Duration(r.Range(0, 120)) * time.Millisecond)
							signalled = true
							_ = syscall.Kill(pid, sig)
							return
						}
						time.Sleep(20 * time.Millisecond)
					}
				}})
		}
		lockContent := ""
		if b, err := os.ReadFile(lockFile); err == nil {
			lockContent = strings.TrimSpace(string(b))
		}
		// judged only if A had not begun to release its lock when the file was read (the release
		// event is logged before the file is removed), so that a slow machine cannot turn A's own
		// orderly release into an alarm
		aStillRunning := len(doneA) == 0 && !saw(logA, "lock.release")
		var resC *grog.Result
		if signalled && aStillRunning {
			resC = env.M.Run([]string{"build", "//p:quick"}, grog.RunOpts{Build: "C", Timeout: 60 * time.Second})
		}
		resA := <-doneA
		run.Eval(1)
		run.Count("holder+interrupted-waiter+newcomer_runs", 1)
		if !signalled || !aStillRunning || resC == nil {
			run.Count("interrupted_waiter_cases_not_judged(timing)", 1)
			return
		}
		run.Nontrivial(fmt.Sprintf("%s|%s|B-exit%d", cause, sig, resB.Exit))
		replay := map[string]any{"signal": sig.String(), "A": tail(resA.Stdout+resA.Stderr, 600), "B": tail(resB.Stdout+resB.Stderr, 600), "C": tail(resC.Stdout+resC.Stderr, 600)}
		if lockContent != fmt.Sprint(pidA) {
			keep = !run.Violation("holder-lock-file-gone cause="+cause, fmt.Sprintf("after the second build (%s; signal if interrupted: %s) the lock file of the build that still holds the lock is %q (holder pid %d)", cause, sig, lockContent, pidA), replay) || keep
			return
		}
		// C must not have run its command while A was running: in the shared trace every line of A
		// precedes every line of C
		b, _ := os.ReadFile(env.M.Trace)
		lastA, firstC := -1, -1
		for li, line := range strings.Split(string(b), "\n") {
			f := strings.Fields(line)
			if len(f) < 3 {
				continue
			}
			if f[1] == "A" {
				lastA = li
			}
			if f[1] == "C" && firstC < 0 {
				firstC = li
			}
		}
		if firstC >= 0 && lastA > firstC {
			keep = !run.Violation("two-builds-overlap cause="+cause, "a command of the third build started before the build holding the lock had finished", replay) || keep
			return
		}
		if resA.Exit != 0 || resC.Exit != 0 || resA.TimedOut || resC.TimedOut {
			keep = !run.Violation("holder-or-newcomer-failed cause="+cause, fmt.Sprintf("holder exit=%d, newcomer exit=%d", resA.Exit, resC.Exit), replay) || keep
		}
	})
}
