package e5

import (
	"fmt"
	"os"
	"os/exec"
	"path/filepath"
	"strings"
	"time"

	"vctl/internal/e1"
	"vctl/internal/grog"
	"vctl/internal/report"
	"vctl/internal/rng"
	"vctl/internal/spec"
)

// c10LockLeftBehind: whole builds of the real binary that leave their lock file behind - killed
// at a locker step (hook plan), or a system call on the lock file fails under strace (the PID
// write fails: empty file; the remove at Unlock fails: file naming a dead process; the create
// fails) - followed by an ordinary build, which must get the lock and finish: a lock left
// behind by a dead process never blocks a new build.
func c10LockLeftBehind(run *report.Run, n int) {
	st, err := e1.Prepare(run, false)
	if err != nil {
		run.Infra(err.Error())
		return
	}
	defer st.Cleanup()
	straceOK := false
	if p, err := exec.LookPath("strace"); err == nil {
		out, err := exec.Command(p, "-f", "-b", "execve", "-o", "/dev/null", "-e", "trace=write", "-e", "inject=write:error=EIO:when=60000", "true").CombinedOutput()
		straceOK = err == nil && !strings.Contains(string(out), "PTRACE")
	}
	type mode struct{ name, plan, call, errno string }
	modes := []mode{
		{name: "killed-after-create", plan: "lock.created=kill:1"},
		{name: "killed-after-pid-write", plan: "lock.pidwritten=kill:1"},
		{name: "killed-while-holding", plan: "build.locked=kill:1"},
		{name: "killed-at-release", plan: "lock.release=kill:1"},
	}
	if straceOK {
		modes = append(modes,
			mode{name: "pid-write-fails", call: "write", errno: "ENOSPC"},
			mode{name: "pid-write-fails", call: "write", errno: "EIO"},
			mode{name: "remove-at-unlock-fails", call: "unlinkat", errno: "EIO"},
			mode{name: "remove-at-unlock-fails", call: "unlinkat", errno: "EACCES"},
			mode{name: "create-fails", call: "openat", errno: "EACCES"},
			mode{name: "close-fails", call: "close", errno: "EIO"})
	} else {
		run.Count("lock_fault_modes_skipped(strace cannot trace here)", 1)
	}
	e1.Parallel(n, func(i int) {
		r := rng.Derive(uint64(run.Seed), "C10-left-behind", fmt.Sprint(i))
		md := modes[i%len(modes)]
		pf := spec.DefaultProfile()
		pf.MinTargets, pf.MaxTargets = 1, 3
		s := spec.Gen(r, pf)
		env, err := e1.NewEnv(st.Base, fmt.Sprintf("lf%d", i), st.Grog, st.Vctl, s, grog.Config{NumWorkers: 2})
		if err != nil {
			run.Infra(err.Error())
			return
		}
		keep := false
		defer func() {
			if !keep {
				env.Cleanup()
			}
		}()
		lockFile := filepath.Join(filepath.Dir(env.CacheDir()), "lockfile")
		pre := ""
		if r.Chance(1, 3) {
			// the workspace was built before (the cache directory and an older state exist)
			if res := env.M.Run([]string{"build"}, grog.RunOpts{Build: "warm"}); res.Exit != 0 {
				return
			}
			pre = "after-an-earlier-build"
		}
		opts := grog.RunOpts{Build: "faulty", Timeout: 60 * time.Second}
		slog := filepath.Join(env.Dir, "strace.log")
		if md.plan != "" {
			opts.Env = []string{"GROG_VERIF_PLAN=" + md.plan}
		} else {
			_ = os.MkdirAll(filepath.Dir(lockFile), 0755)
			opts.Wrapper = []string{"strace", "-f", "-b", "execve", "-y", "-s", "0", "-o", slog, "-P", lockFile,
				"-e", "trace=" + md.call, "-e", fmt.Sprintf("inject=%s:error=%s:when=1", md.call, md.errno)}
		}
		res := env.M.Run([]string{"build"}, opts)
		run.Eval(1)
		run.Count("builds_made_to_leave_their_lock_behind:"+md.name, 1)
		left := "absent"
		if b, err := os.ReadFile(lockFile); err == nil {
			switch c := strings.TrimSpace(string(b)); {
			case c == "":
				left = "empty"
			default:
				left = "names-a-process"
			}
		}
		run.Count("lock_file_after_the_faulty_build:"+left, 1)
		injected := md.plan != ""
		if b, err := os.ReadFile(slog); err == nil && strings.Contains(string(b), "(INJECTED)") {
			injected = true
		}
		if !injected {
			run.Count("lock_fault_not_reached", 1)
			return
		}
		if res.TimedOut && res.Hang {
			keep = !run.Violation("build-hangs-after-lock-file-fault mode="+md.name, fmt.Sprintf("grog build did not exit after %s (%s %s) on its lock file", md.name, md.call, md.errno),
				map[string]any{"mode": md, "stdout": tail(res.Stdout, 800), "stderr": tail(res.Stderr, 800)}) || keep
			return
		}
		// the next build: must get the lock and finish
		nx := env.M.Run([]string{"build"}, grog.RunOpts{Build: "next", Timeout: 60 * time.Second})
		run.Count("follow_up_builds", 1)
		run.Nontrivial(fmt.Sprintf("%s|%s|%s|%s", md.name, md.errno, left, pre))
		if nx.TimedOut || nx.Exit != 0 {
			what := fmt.Sprintf("exit %d", nx.Exit)
			if nx.TimedOut {
				what = fmt.Sprintf("still waiting after 60 s (quiescent: %v)", nx.Hang)
			}
			keep = !run.Violation(fmt.Sprintf("stale-lock-blocks-next-build mode=%s lock-file=%s", md.name, left),
				fmt.Sprintf("after a build that left its lock file behind (%s; lock file %s) the next grog build: %s; output: %s", md.name, left, what, tail(nx.Stdout+nx.Stderr, 400)),
				map[string]any{"mode": md, "lock_file": left, "first_stdout": tail(res.Stdout+res.Stderr, 600), "next_stdout": tail(nx.Stdout+nx.Stderr, 600)}) || keep
			return
		}
		if _, err := os.Stat(lockFile); err == nil {
			keep = !run.Violation("lock-file-left-behind-by-a-successful-build mode="+md.name, "the follow-up build exited 0 but its lock file still exists",
				map[string]any{"mode": md}) || keep
		}
	})
}
