package e5

import (
	"fmt"
	"os"
	"os/exec"
	"path/filepath"
	"strings"
	"syscall"
	"time"

	"vctl/internal/e1"
	"vctl/internal/report"
	"vctl/internal/rng"
)

// c10CrossUser: the holder and the contender belong to different users (a root / CI build
// overlapping a developer's build on a shared cache root). The contender's liveness probe of the
// holder (kill(pid, 0)) then answers EPERM - "exists, but not yours" - which must count as alive.
// Needs root (to start a process under another uid); skipped and counted otherwise.
func c10CrossUser(run *report.Run, probe, base string, n int) {
	if os.Geteuid() != 0 {
		run.Count("cross_user_contention_skipped(not root)", 1)
		return
	}
	// the probe binary and the scratch path must be reachable by the other user
	shared, err := os.MkdirTemp(e1.Scratch(), "verif-C10u-")
	if err != nil {
		run.Infra(err.Error())
		return
	}
	defer os.RemoveAll(shared)
	_ = os.Chmod(shared, 0755)
	probeCopy := filepath.Join(shared, "lockprobe")
	if b, err := os.ReadFile(probe); err != nil || os.WriteFile(probeCopy, b, 0755) != nil {
		run.Infra("cannot copy the lock probe for the second user")
		return
	}
	_ = os.Chmod(probeCopy, 0755)
	const otherUID = 65534 // nobody
	e1.Parallel(n, func(i int) {
		r := rng.Derive(uint64(run.Seed), "C10-uid", fmt.Sprint(i))
		dir := filepath.Join(shared, fmt.Sprintf("u%d", i))
		root := filepath.Join(dir, "root")
		ws := filepath.Join(dir, "ws")
		lockDir := filepath.Join(root, prefixOf(ws))
		for _, d := range []string{dir, root, ws, lockDir} {
			_ = os.MkdirAll(d, 0777)
			_ = os.Chmod(d, 0777) // a cache root shared between users
		}
		defer os.RemoveAll(dir)
		holderIsRoot := r.Chance(2, 3)
		holdMs := r.Range(1500, 2600)
		start := func(name string, asOther bool, plan string) (*exec.Cmd, string) {
			log := filepath.Join(dir, "hooks-"+name+".jsonl")
			_ = os.WriteFile(log, nil, 0666)
			_ = os.Chmod(log, 0666)
			c := exec.Command(probeCopy, root, ws)
			c.Dir = dir
			c.Env = []string{"PATH=" + os.Getenv("PATH"), "HOME=" + dir, "GROG_VERIF_LOG=" + log}
			if plan != "" {
				c.Env = append(c.Env, "GROG_VERIF_PLAN="+plan)
			}
			c.SysProcAttr = &syscall.SysProcAttr{Setsid: true}
			if asOther {
				c.SysProcAttr.Credential = &syscall.Credential{Uid: otherUID, Gid: otherUID}
			}
			out, _ := os.Create(filepath.Join(dir, "out-"+name+".txt"))
			c.Stdout, c.Stderr = out, out
			if err := c.Start(); err != nil {
				return nil, log
			}
			out.Close()
			return c, log
		}
		evMono := func(log, name string) int64 {
			for _, ev := range e1.ReadHookLog(log) {
				if ev.Name == name {
					return ev.Mono
				}
			}
			return 0
		}
		holder, hlog := start("holder", !holderIsRoot, fmt.Sprintf("cs.enter=delay:%d", holdMs*1000))
		if holder == nil {
			run.Inconclusive("could not start a process under another uid")
			return
		}
		for w := 0; w < 300 && evMono(hlog, "lock.acquired") == 0; w++ {
			time.Sleep(10 * time.Millisecond)
		}
		if evMono(hlog, "lock.acquired") == 0 {
			_ = holder.Process.Kill()
			_ = holder.Wait()
			run.Inconclusive("holder did not acquire the lock")
			return
		}
		time.Sleep(time.Duration(r.Range(0, 300)) * time.Millisecond)
		contender, clog := start("contender", holderIsRoot, "")
		if contender == nil {
			_ = holder.Process.Kill()
			_ = holder.Wait()
			run.Inconclusive("could not start the contender")
			return
		}
		done := make(chan error, 2)
		go func() { done <- holder.Wait() }()
		go func() { done <- contender.Wait() }()
		timeout := time.After(40 * time.Second)
		for k := 0; k < 2; k++ {
			select {
			case <-done:
			case <-timeout:
				_ = holder.Process.Kill()
				_ = contender.Process.Kill()
				k = 2
			}
		}
		run.Eval(1)
		run.Count("cross_user_contentions", 1)
		who := map[bool]string{true: "holder=root contender=nobody", false: "holder=nobody contender=root"}[holderIsRoot]
		hAcq, hRel := evMono(hlog, "lock.acquired"), evMono(hlog, "lock.release")
		cAcq := evMono(clog, "lock.acquired")
		outH, _ := os.ReadFile(filepath.Join(dir, "out-holder.txt"))
		outC, _ := os.ReadFile(filepath.Join(dir, "out-contender.txt"))
		replay := map[string]any{"users": who, "holder_acquired_mono": hAcq, "holder_release_mono": hRel, "contender_acquired_mono": cAcq,
			"holder_output": tail(string(outH), 400), "contender_output": tail(string(outC), 400), "hold_ms": holdMs}
		if len(e1.ReadHookLog(clog)) == 0 {
			run.Inconclusive("the contender under the other uid logged no event (cannot write its log?)")
			return
		}
		run.Nontrivial("cross-user|" + who)
		switch {
		case cAcq != 0 && hRel != 0 && cAcq < hRel:
			run.Violation("two-holders cause=cross-user-liveness-probe", fmt.Sprintf("%s: the contender was past lock acquisition %.0f ms before the holder released the lock", who, float64(hRel-cAcq)/1e6), replay)
		case cAcq != 0 && hRel == 0:
			run.Violation("two-holders cause=cross-user-liveness-probe", who+": the contender acquired the lock although the holder never released it", replay)
		case strings.Contains(string(outH), "UNLOCK-ERROR"):
			run.Violation("unlock-failed cause=cross-user-liveness-probe", who+": the holder's Unlock failed, its lock file was removed by the contender: "+tail(string(outH), 200), replay)
		case cAcq == 0:
			run.Violation("contender-never-acquires cause=cross-user", who+": the contender did not acquire the lock within 40 s after the holder released it: "+tail(string(outC), 200), replay)
		default:
			run.Count("cross_user_waiter_acquired_after_release", 1)
		}
	})
}
