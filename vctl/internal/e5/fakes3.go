package e5

import (
	"fmt"
	"io"
	"net"
	"net/http"
	"sort"
	"strings"
	"sync"
)

// FakeS3 is an in-memory path-style object store that logs every request (the remote event
// history) and applies a fault plan.
type FakeS3 struct {
	mu      sync.Mutex
	Objects map[string][]byte // "<bucket>/<key>"
	Log     []S3Req
	Faults  []*S3Fault
	ln      net.Listener
	srv     *http.Server
}

type S3Req struct {
	N      int    `json:"n"`
	Verb   string `json:"verb"`
	Key    string `json:"key"`
	Status int    `json:"status"`
	Bytes  int    `json:"bytes"`
	Fault  string `json:"fault,omitempty"`
}

// S3Fault: requests with this verb whose key contains KeyPart are answered abnormally.
type S3Fault struct {
	Verb    string // GET | PUT | HEAD
	KeyPart string // e.g. "/cas/" or "/target/"
	Kind    string // "500" | "404" | "truncate" | "drop" (PUT acknowledged but not stored)
	Skip    int    // let this many matching requests pass first
	Count   int    // number of requests to hit (0 = all)
	hits    int
	seen    int
}

func NewFakeS3() (*FakeS3, error) {
	ln, err := net.Listen("tcp", "127.0.0.1:0")
	if err != nil {
		return nil, err
	}
	f := &FakeS3{Objects: map[string][]byte{}, ln: ln}
	f.srv = &http.Server{Handler: http.HandlerFunc(f.handle)}
	go func() { _ = f.srv.Serve(ln) }()
	return f, nil
}

func (f *FakeS3) URL() string { return "http://" + f.ln.Addr().String() }
func (f *FakeS3) Close()      { _ = f.srv.Close() }

func (f *FakeS3) Env() []string {
	return []string{"AWS_ENDPOINT_URL_S3=" + f.URL(), "AWS_ACCESS_KEY_ID=test", "AWS_SECRET_ACCESS_KEY=test", "AWS_REGION=us-east-1",
		"AWS_EC2_METADATA_DISABLED=true", "AWS_MAX_ATTEMPTS=2", "AWS_REQUEST_CHECKSUM_CALCULATION=when_required", "AWS_RESPONSE_CHECKSUM_VALIDATION=when_required"}
}

func (f *FakeS3) fault(verb, key string) string {
	for _, ft := range f.Faults {
		if ft.Verb != verb || !strings.Contains(key, ft.KeyPart) {
			continue
		}
		ft.seen++
		if ft.seen <= ft.Skip {
			continue
		}
		if ft.Count > 0 && ft.hits >= ft.Count {
			continue
		}
		ft.hits++
		return ft.Kind
	}
	return ""
}

func (f *FakeS3) handle(w http.ResponseWriter, r *http.Request) {
	key := strings.TrimPrefix(r.URL.Path, "/")
	f.mu.Lock()
	defer f.mu.Unlock()
	rec := S3Req{N: len(f.Log) + 1, Verb: r.Method, Key: key}
	defer func() { f.Log = append(f.Log, rec) }()
	var body []byte
	if r.Method == http.MethodPut {
		body, _ = io.ReadAll(r.Body)
		rec.Bytes = len(body)
	}
	ft := f.fault(r.Method, key)
	rec.Fault = ft
	notFound := func() {
		w.Header().Set("Content-Type", "application/xml")
		w.WriteHeader(404)
		rec.Status = 404
		if r.Method != http.MethodHead {
			fmt.Fprintf(w, `<?xml version="1.0" encoding="UTF-8"?><Error><Code>NoSuchKey</Code><Message>The specified key does not exist.</Message><Key>%s</Key></Error>`, key)
		}
	}
	switch ft {
	case "500":
		w.Header().Set("Content-Type", "application/xml")
		w.WriteHeader(500)
		rec.Status = 500
		fmt.Fprint(w, `<?xml version="1.0" encoding="UTF-8"?><Error><Code>InternalError</Code><Message>injected</Message></Error>`)
		return
	case "403":
		// what S3 answers to a HEAD/GET when the credentials lack the permission to learn
		// whether a key exists
		w.Header().Set("Content-Type", "application/xml")
		w.WriteHeader(403)
		rec.Status = 403
		if r.Method != http.MethodHead {
			fmt.Fprint(w, `<?xml version="1.0" encoding="UTF-8"?><Error><Code>AccessDenied</Code><Message>injected</Message></Error>`)
		}
		return
	case "404":
		notFound()
		return
	}
	switch r.Method {
	case http.MethodPut:
		// conditional writes as S3 implements them: "If-None-Match: *" refuses to replace an object
		if _, exists := f.Objects[key]; exists && strings.TrimSpace(r.Header.Get("If-None-Match")) == "*" {
			w.Header().Set("Content-Type", "application/xml")
			w.WriteHeader(412)
			rec.Status = 412
			fmt.Fprint(w, `<?xml version="1.0" encoding="UTF-8"?><Error><Code>PreconditionFailed</Code><Message>At least one of the pre-conditions you specified did not hold</Message><Condition>If-None-Match</Condition></Error>`)
			return
		}
		if ft != "drop" {
			f.Objects[key] = body
		}
		w.Header().Set("ETag", `"x"`)
		w.WriteHeader(200)
		rec.Status = 200
	case http.MethodGet, http.MethodHead:
		b, ok := f.Objects[key]
		if !ok {
			notFound()
			return
		}
		w.Header().Set("Content-Length", fmt.Sprint(len(b)))
		w.Header().Set("ETag", `"x"`)
		w.WriteHeader(200)
		rec.Status = 200
		if r.Method == http.MethodGet {
			if ft == "truncate" && len(b) > 1 {
				_, _ = w.Write(b[:len(b)/2])
				if hj, ok := w.(http.Hijacker); ok {
					if c, _, err := hj.Hijack(); err == nil {
						_ = c.Close()
					}
				}
				return
			}
			_, _ = w.Write(b)
			rec.Bytes = len(b)
		}
	case http.MethodDelete:
		delete(f.Objects, key)
		w.WriteHeader(204)
		rec.Status = 204
	default:
		w.WriteHeader(405)
		rec.Status = 405
	}
}

// Store returns the objects below "<bucket>/<prefix>/" keyed like a local cache ("cas/<d>", ...).
func (f *FakeS3) Store(bucketPrefix string) map[string][]byte {
	f.mu.Lock()
	defer f.mu.Unlock()
	out := map[string][]byte{}
	for k, v := range f.Objects {
		if strings.HasPrefix(k, bucketPrefix+"/") {
			out[strings.TrimPrefix(k, bucketPrefix+"/")] = v
		}
	}
	return out
}

// Expire removes up to n stored blobs ("/cas/" objects) chosen by pick, as a lifecycle rule
// would; it returns the removed keys.
func (f *FakeS3) Expire(n int, pick func(k int) int) []string {
	f.mu.Lock()
	defer f.mu.Unlock()
	var ks []string
	for k := range f.Objects {
		if strings.Contains(k, "/cas/") {
			ks = append(ks, k)
		}
	}
	sort.Strings(ks)
	var gone []string
	for i := 0; i < n && len(ks) > 0; i++ {
		j := pick(len(ks))
		gone = append(gone, ks[j])
		delete(f.Objects, ks[j])
		ks = append(ks[:j], ks[j+1:]...)
	}
	return gone
}

// ExpireRecords removes every object whose key contains part (e.g. "/target/") and returns the keys.
func (f *FakeS3) ExpireRecords(part string) []string {
	f.mu.Lock()
	defer f.mu.Unlock()
	var gone []string
	for k := range f.Objects {
		if strings.Contains(k, part) {
			gone = append(gone, k)
		}
	}
	sort.Strings(gone)
	for _, k := range gone {
		delete(f.Objects, k)
	}
	return gone
}

// PutKeys returns the keys of the successful PUT requests (since the last Reset) that contain part.
func (f *FakeS3) PutKeys(part string) []string {
	f.mu.Lock()
	defer f.mu.Unlock()
	var ks []string
	for _, r := range f.Log {
		if r.Verb == "PUT" && r.Status == 200 && r.Fault == "" && strings.Contains(r.Key, part) {
			ks = append(ks, r.Key)
		}
	}
	return ks
}

func (f *FakeS3) Reset() {
	f.mu.Lock()
	f.Log = nil
	f.mu.Unlock()
}

func (f *FakeS3) Count(verb, keyPart string) int {
	f.mu.Lock()
	defer f.mu.Unlock()
	n := 0
	for _, r := range f.Log {
		if r.Verb == verb && strings.Contains(r.Key, keyPart) {
			n++
		}
	}
	return n
}
