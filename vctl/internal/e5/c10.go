package e5

import (
	"fmt"
	"os"
	"path/filepath"
	"strings"

	"vctl/internal/e1"
	"vctl/internal/grog"
	"vctl/internal/report"
	"vctl/internal/rng"
)

func tierN(tier string, q, t int) int {
	if tier == "thorough" {
		return t
	}
	return q
}

// RunC10: at most one grog build runs in a workspace; stale locks are recovered.
func RunC10(tier string) int {
	run := report.New("C10", tier, "fault_enumeration",
		"2 and 3 real OS processes run the real WorkspaceLocker (overlay main 'lockprobe'); every locker step (before each os.* call: try/create, write PID, read, liveness probe, stale remove, wait, release) is a hook point that announces itself on a unix socket and blocks until the controller releases it, so exactly one process moves at a time and the interleaving is the controller's seeded choice (2/3 continue, 1/3 preempt); optional pre-existing lock files (dead PID, garbage, empty, negative) a SIGKILL of one process at a random step, or a SIGTERM to a contender that is waiting while another one holds the lock; "+
			"verdicts: two processes inside the critical section at one point of the schedule; the lock file not naming the process that is inside the critical section; a live contender that does not acquire within 14 of its own tries although it keeps being scheduled; a contender failing; the lock file left behind after everyone finished; non-trivial = schedule with >=1 preemption between the steps of a locker call; distinct = schedule trace")
	probe, err := grog.Tool("lockprobe")
	if err != nil {
		run.Infra(err.Error())
		return run.Finish()
	}
	base, err := os.MkdirTemp(e1.Scratch(), "verif-C10-")
	if err != nil {
		run.Infra(err.Error())
		return run.Finish()
	}
	defer os.RemoveAll(base)
	n := tierN(tier, 160, 3000)
	pre := []string{"none", "none", "none", "dead-pid", "garbage", "empty", "negative"}
	e1.Parallel(n, func(i int) {
		r := rng.Derive(uint64(run.Seed), "C10", fmt.Sprint(i))
		dir := filepath.Join(base, fmt.Sprintf("s%d", i))
		_ = os.MkdirAll(dir, 0755)
		defer os.RemoveAll(dir)
		np := 2
		if r.Chance(1, 3) {
			np = 3
		}
		pe := rng.Pick(r, pre)
		kp := 0
		if r.Chance(1, 2) {
			kp = 6
		}
		cp := 0
		if r.Chance(1, 3) {
			cp, kp = 25, 0
			if r.Chance(1, 2) {
				np = 3
			}
		}
		v := RunLockSchedule(r, dir, probe, np, pe, kp, cp)
		run.Eval(1)
		run.Count("schedules", 1)
		run.Count("steps_released", v.Steps)
		run.Count("critical_section_entries", v.Entered)
		run.Count("processes_killed", v.Kills)
		run.Count("waiting_contenders_sent_SIGTERM", v.Cancels)
		run.Count("owner_scheduled_after_unfair_wait", v.FairnessForced)
		run.Count("pre_existing:"+pe, 1)
		if v.Inconclusive != "" {
			run.Inconclusive(v.Inconclusive)
			return
		}
		pre := 0
		last := ""
		for _, t := range v.Trace {
			id := strings.SplitN(t, ":", 2)[0]
			if last != "" && id != last {
				pre++
			}
			last = id
		}
		if pre > 0 {
			run.Nontrivial(strings.Join(v.Trace, " "))
		}
		run.Sample(map[string]any{"contenders": np, "pre_existing_lock_file": pe, "schedule": v.Trace})
		if v.Violation != "" {
			run.Violation(v.Violation, v.What, map[string]any{"contenders": np, "pre_existing_lock_file": pe, "schedule": v.Trace})
		}
	})
	// holder and contender owned by different users
	c10CrossUser(run, probe, base, tierN(tier, 6, 40))
	// whole builds that leave their lock file behind (killed at a locker step; a system call on
	// the lock file fails), then an ordinary build
	c10LockLeftBehind(run, tierN(tier, 20, 120))
	// a build interrupted while it waits for the lock must leave the holder's lock alone
	c10InterruptedWaiter(run, tierN(tier, 9, 60))
	run.Assume("the controller serialises the steps: 'both in the critical section' is observed at a point of the schedule, not inferred from timestamps; waiting contenders sleep their real 1 s")
	run.Assume("a lock file naming a live unrelated PID (PID reuse) is not generated: the statement speaks about locks left by dead processes")
	return run.Finish()
}
