package e5

import (
	"fmt"
	"os"
	"os/exec"
	"path/filepath"
	"sort"
	"strings"
	"time"

	"vctl/internal/audit"
	"vctl/internal/e1"
	"vctl/internal/grog"
	"vctl/internal/report"
	"vctl/internal/rng"
	"vctl/internal/spec"
)

const s3Extra = "[cache]\nbackend = \"s3\"\n[cache.s3]\nbucket = \"bkt\"\nprefix = \"pfx\"\n"

// RunC08: the remote cache is a write-through / read-through mirror shared across machines.
func RunC08(tier string) int {
	run := report.New("C08", tier, "exploration",
		"the real binary with backend=s3 against an in-memory fake S3 server on 127.0.0.1 (every request logged, per-verb/per-key fault plan): machine A (its own GROG_ROOT) runs a seeded history - cold build, edits, and the two 'blob already local' histories (A built before the remote was configured; a remote PUT failed last time) - then the workspace outputs are wiped and machine B (same workspace path, empty GROG_ROOT, same bucket/prefix) builds; "+
			"oracles: at-rest audit of the bucket and of both local caches (every stored result references only stored blobs, every blob hashes to its name), B executes nothing and restores reference bytes and fills its local cache; under remote faults (GET/HEAD/PUT 5xx, 404 on existing objects, truncated bodies, PUTs acknowledged but dropped) a build must end (no hang), never leave wrong bytes after exit 0, and never publish a result whose blobs are not in the bucket; "+
			"non-trivial = scenario in which B restored >= 1 target from the remote store; distinct = scenario kind + fault + shape")
	st, err := e1.Prepare(run, false)
	if err != nil {
		run.Infra(err.Error())
		return run.Finish()
	}
	defer st.Cleanup()
	n := tierN(tier, 32, 320)
	kinds := []string{"mirror", "mirror", "local-first", "put-fault-then-retry", "b-get-5xx", "b-get-404", "b-get-truncated", "a-put-dropped", "b-head-5xx", "a-put-5xx-target",
		"a-head-403", "a-head-5xx", "blobs-expired-then-B-then-C", "blobs-expired-then-B-then-C",
		"b-restores-over-older-outputs", "b-restores-over-older-outputs", "a-record-replaced", "a-record-replaced", "records-expired-then-A-rebuilds-tainted", "records-expired-then-A-rebuilds-tainted"}
	e1.Parallel(n, func(i int) {
		r := rng.Derive(uint64(run.Seed), "C08", fmt.Sprint(i))
		kind := kinds[i%len(kinds)]
		pf := spec.DefaultProfile()
		pf.MinTargets, pf.MaxTargets = 3, 7
		s := spec.Gen(r, pf)
		fs3, err := NewFakeS3()
		if err != nil {
			run.Infra(err.Error())
			return
		}
		defer fs3.Close()
		remoteCfg := grog.Config{NumWorkers: r.Range(1, 4), Extra: s3Extra}
		localCfg := grog.Config{NumWorkers: remoteCfg.NumWorkers}
		cfgA := remoteCfg
		if kind == "local-first" {
			cfgA = localCfg
		}
		env, err := e1.NewEnv(st.Base, fmt.Sprintf("m%d", i), st.Grog, st.Vctl, s, cfgA)
		if err != nil {
			run.Infra(err.Error())
			return
		}
		keep := false
		defer func() {
			if !keep {
				env.Cleanup()
			}
		}()
		env.M.ExtraEnv = append(env.M.ExtraEnv, fs3.Env()...)
		rootA := env.M.Root
		rootB := filepath.Join(env.Dir, "rootB")
		_ = os.MkdirAll(rootB, 0755)
		bucketPrefix := "bkt/pfx/" + prefixOf(env.WS)
		cfg := e1.BuildCfg{EnableCache: true}
		replay := func(obs *e1.Obs) map[string]any {
			m := map[string]any{"scenario": kind, "history": env.Log, "requests_tail": tailReq(fs3)}
			if obs != nil && obs.Res != nil {
				m["stdout"] = tail(obs.Res.Stdout, 1500)
				m["stderr"] = tail(obs.Res.Stderr, 600)
			}
			return m
		}
		viol := func(sig, what string, obs *e1.Obs) {
			keep = !run.Violation(sig, what, replay(obs)) || keep
		}
		writerRoot := rootA             // the machine whose build wrote the results being audited
		var onlyResults map[string]bool // if set: audit only these target results (the ones a given build wrote)
		auditRemote := func(when string) bool {
			if kind == "a-put-dropped" {
				return true // the store acknowledged a PUT and dropped it: nothing grog can know
			}
			st := audit.Store(fs3.Store(bucketPrefix))
			if onlyResults != nil {
				for k := range st {
					if strings.HasPrefix(k, "target/") && !onlyResults[k] {
						delete(st, k)
					}
				}
			}
			rep := audit.Audit(st)
			run.Count("remote_objects_audited", rep.CasOK+rep.TargetOK+len(rep.CasBad)+len(rep.TargetBad))
			if !rep.Clean() {
				what := "dangling-remote-ref"
				detail := ""
				switch {
				case len(rep.CasBad) > 0:
					what, detail = "remote-blob-content-mismatch", rep.CasBad[0]
				case len(rep.TargetBad) > 0:
					what, detail = "remote-result-undecodable", rep.TargetBad[0]
				default:
					detail = rep.Dangling[0]
					// root cause: is the missing blob sitting in the writer's local cache?
					saved := env.M.Root
					env.M.Root = writerRoot
					localA, _ := audit.LoadDir(env.CacheDir())
					env.M.Root = saved
					onlyLocal, nowhere := 0, 0
					for _, d := range rep.Dangling {
						f := strings.Fields(d)
						if len(f) >= 3 {
							if _, ok := localA[f[2]]; ok {
								onlyLocal++
							} else {
								nowhere++
							}
						}
					}
					switch {
					case nowhere == 0:
						what += " cause=blob-present-in-the-writers-local-cache-but-never-uploaded"
					case onlyLocal == 0:
						what += " cause=blob-missing-everywhere"
					default:
						what += " cause=mixed"
					}
				}
				viol(what, fmt.Sprintf("%s (scenario %s): the bucket holds a target result whose blobs are not all in the bucket (%s): %s", when, kind, rep.Summary(), detail), nil)
				return false
			}
			return true
		}
		step := func(name string, bo e1.BuildOpts, judgeKinds map[string]bool, lenient bool) (*e1.Pred, *e1.Obs, bool) {
			if lenient {
				for k := range env.Memo {
					env.Memo[k] = "lost"
				}
			}
			bo.Timeout = 90 * time.Second
			p, obs, vs, err := env.Step(bo, cfg, name, false)
			if err != nil {
				run.Infra(err.Error())
				return nil, nil, false
			}
			run.Eval(1)
			run.Count("builds", 1)
			for _, v := range vs {
				if judgeKinds[v.Kind] {
					viol(fmt.Sprintf("%s scenario=%s step=%s", v.Sig, kind, name), v.What, obs)
					return p, obs, false
				}
				run.Count("divergence_other_property:"+v.Kind, 1)
				e1.Debugf("case %d %s: %s %s | %s", i, name, v.Kind, v.Sig, v.What)
			}
			return p, obs, true
		}
		strict := map[string]bool{"exec": true, "bytes": true, "restore": true, "exit": true, "crash": true, "hang": true}
		safety := map[string]bool{"bytes": true, "restore": true, "crash": true, "hang": true}

		// ---- machine A ----
		switch kind {
		case "a-put-dropped":
			fs3.Faults = []*S3Fault{{Verb: "PUT", KeyPart: "/cas/", Kind: "drop", Skip: r.Intn(3), Count: 1}}
		case "put-fault-then-retry":
			fs3.Faults = []*S3Fault{{Verb: "PUT", KeyPart: "/cas/", Kind: "500", Skip: r.Intn(3), Count: 2}}
		case "a-put-5xx-target":
			fs3.Faults = []*S3Fault{{Verb: "PUT", KeyPart: "/target/", Kind: "500", Skip: r.Intn(2), Count: 2}}
		case "a-head-403":
			// the existence probe is refused (credentials without the list permission) while
			// reads and writes work: "cannot tell" must never be taken for "already stored"
			fs3.Faults = []*S3Fault{{Verb: "HEAD", KeyPart: "/cas/", Kind: "403"}}
		case "a-head-5xx":
			fs3.Faults = []*S3Fault{{Verb: "HEAD", KeyPart: "/cas/", Kind: "500", Skip: r.Intn(3)}}
		}
		if kind == "a-record-replaced" {
			// A first builds with the cache disabled (grog records results without outputs under
			// the ordinary keys), then with the cache: every record of the first build is replaced.
			// The store must end up with the replacements - a record is not immutable.
			cfg.EnableCache = false
			if _, _, ok := step("A-cache-disabled", e1.BuildOpts{DisableCache: true}, safety, true); !ok {
				return
			}
			cfg.EnableCache = true
			run.Count("records_replaced_scenarios", 1)
		}
		faultyA := len(fs3.Faults) > 0
		jk := strict
		if kind == "a-record-replaced" {
			jk = safety
		}
		if faultyA {
			jk = safety
		}
		if _, _, ok := step("A-cold", e1.BuildOpts{}, jk, faultyA || kind == "a-record-replaced"); !ok {
			return
		}
		if kind == "a-put-dropped" {
			// the store lied: nothing grog can know. Only B's safety is judged below.
		} else if kind != "local-first" {
			if !auditRemote("after A's build") {
				return
			}
		}
		fs3.Faults = nil
		switch kind {
		case "local-first":
			// now configure the remote and rebuild after a quiet command change: results are
			// written again while all their blobs already exist locally
			env.Cfg = remoteCfg
			env.Apply(func() string { return e1.OpQuiet(r, env) })
			env.Apply(func() string { return e1.OpQuiet(r, env) })
			if _, _, ok := step("A-remote-enabled", e1.BuildOpts{}, strict, false); !ok {
				return
			}
			if !auditRemote("after A enabled the remote and rebuilt") {
				return
			}
		case "put-fault-then-retry", "a-put-5xx-target":
			if _, _, ok := step("A-retry-without-faults", e1.BuildOpts{}, safety, true); !ok {
				return
			}
			if !auditRemote("after A's retry") {
				return
			}
		default:
			if r.Chance(1, 2) {
				env.Apply(func() string { return e1.OpEditFile(r, env) })
				if _, _, ok := step("A-edit", e1.BuildOpts{}, strict, false); !ok {
					return
				}
				if !auditRemote("after A's second build") {
					return
				}
			}
		}
		if kind == "records-expired-then-A-rebuilds-tainted" {
			// the store loses A's target results (a lifecycle rule on that prefix; the blobs stay),
			// A taints everything and builds again: every target re-executes, reproduces its outputs
			// and writes its result - which must reach the store again although A's local cache
			// still holds an identical record
			gone := fs3.ExpireRecords("/target/")
			env.Logf("remote lifecycle rule expired %d target result(s)", len(gone))
			if res := env.RunTaint([]string{"//..."}); res.Exit != 0 {
				run.Count("record_expiry_cases_abandoned(grog taint refused)", 1)
				return
			}
			for _, t := range env.Spec.Targets {
				env.Taint[t.Label()] = true
			}
			_, obsT, ok := step("A-rebuilds-tainted", e1.BuildOpts{}, safety, true)
			if !ok {
				return
			}
			// every record in the store now was written by this build (all were expired before it):
			// one per target that executed and completed (records of older states are not rewritten)
			back := 0
			for k := range fs3.Store(bucketPrefix) {
				if strings.HasPrefix(k, "target/") {
					back++
				}
			}
			executed := 0
			for l, c := range obsT.Ended {
				if c > 0 && obsT.Failed[l] == 0 {
					executed++
				}
			}
			run.Count("expired_records_rewritten_by_the_rebuild", back)
			if obsT.Res.Exit == 0 && back < executed {
				viol("result-not-in-the-store-after-a-successful-build scenario="+kind, fmt.Sprintf("the store lost all %d target results; A re-executed %d targets (tainted) and exited 0, but only %d results are in the store afterwards", len(gone), executed, back), obsT)
				return
			}
			if !auditRemote("after A's tainted rebuild") {
				return
			}
		}
		memoA := map[string]string{}
		for k, v := range env.Memo {
			memoA[k] = v
		}

		// ---- machine B: same workspace path, empty cache root, outputs wiped ----
		env.WipeOutputs()
		env.M.Root = rootB
		env.Cfg = remoteCfg
		fs3.Reset()
		if kind == "blobs-expired-then-B-then-C" {
			gone := fs3.Expire(r.Range(1, 3), r.Intn)
			env.Logf("remote lifecycle rule expired %d blob(s): %v", len(gone), gone)
			run.Count("remote_blobs_expired", len(gone))
		}
		faultyB := true
		switch kind {
		case "b-get-5xx":
			fs3.Faults = []*S3Fault{{Verb: "GET", KeyPart: rng.Pick(r, []string{"/cas/", "/target/"}), Kind: "500", Skip: r.Intn(3), Count: 2 * r.Range(1, 3)}}
		case "b-get-404":
			fs3.Faults = []*S3Fault{{Verb: "GET", KeyPart: "/cas/", Kind: "404", Skip: r.Intn(3), Count: r.Range(1, 3)}}
		case "b-get-truncated":
			fs3.Faults = []*S3Fault{{Verb: "GET", KeyPart: "/cas/", Kind: "truncate", Skip: r.Intn(3), Count: r.Range(1, 2)}}
		case "b-head-5xx":
			fs3.Faults = []*S3Fault{{Verb: "HEAD", KeyPart: "/", Kind: "500", Skip: r.Intn(3), Count: 2}}
		case "blobs-expired-then-B-then-C":
			// B may have to re-execute what lost a blob (irretrievable outputs): lenient on the
			// executed set, strict on bytes and exit status
		default:
			faultyB = kind == "a-put-dropped" || faultyA
		}
		jk = strict
		if faultyB {
			jk = safety
		}
		// machine B may invoke grog from a package directory below the workspace root: the
		// remote namespace belongs to the workspace, not to the directory grog was started in
		optsB := e1.BuildOpts{}
		if r.Chance(1, 2) {
			var pkgs []string
			for _, t := range env.Spec.Targets {
				if t.Pkg != "" {
					pkgs = append(pkgs, t.Pkg)
				}
			}
			if len(pkgs) > 0 {
				optsB = e1.BuildOpts{Cwd: rng.Pick(r, pkgs), Patterns: []string{"//..."}}
				env.Logf("B runs `grog build //...` from %s", optsB.Cwd)
				run.Count("B_builds_started_from_a_package_directory", 1)
			}
		}
		if kind == "a-record-replaced" {
			n412 := 0
			for _, rq := range fs3.Log {
				if rq.Status == 412 {
					n412++
				}
			}
			e1.Debugf("case %d a-record-replaced: %d conditional writes refused so far; log: %v", i, n412, env.Log)
		}
		_, obsB, ok := step("B-build", optsB, jk, faultyB)
		if kind == "a-record-replaced" && obsB != nil {
			e1.Debugf("case %d a-record-replaced: B started %v exit %d", i, obsB.Started, obsB.Res.Exit)
		}
		if !ok {
			return
		}
		restored := 0
		for _, t := range env.Spec.Targets {
			if obsB.Started[t.Label()] == 0 && len(t.AllOuts()) > 0 {
				restored++
			}
		}
		run.Count("targets_restored_on_B_from_remote", restored)
		run.Count("remote_GETs_by_B", fs3.Count("GET", "/"))
		if !faultyB {
			// read-through must have filled B's local cache
			env.M.Root = rootB
			storeB, _ := audit.LoadDir(env.CacheDir())
			repB := audit.Audit(storeB)
			run.Count("local_B_objects_audited", repB.CasOK+repB.TargetOK)
			if !repB.Clean() {
				viol("local-cache-of-B-inconsistent scenario="+kind, "machine B's local cache after reading through: "+repB.Summary(), obsB)
				return
			}
			if restored > 0 && repB.TargetOK == 0 {
				viol("local-cache-of-B-not-filled scenario="+kind, "machine B restored targets from the remote store but its local cache holds no target result", obsB)
				return
			}
			// a second build on B must not need the remote for blobs any more
			fs3.Reset()
			env.WipeOutputs()
			if _, _, ok := step("B-again", e1.BuildOpts{}, strict, false); !ok {
				return
			}
			if g := fs3.Count("GET", "/cas/"); g > 0 {
				viol("local-cache-of-B-not-filled scenario="+kind, fmt.Sprintf("B's second build fetched %d blobs from the remote store again", g), nil)
				return
			}
		} else {
			// after the faults stop, B must converge: a clean follow-up leaves reference bytes
			fs3.Faults = nil
			env.WipeOutputs()
			if _, _, ok := step("B-after-faults", e1.BuildOpts{}, safety, true); !ok {
				return
			}
		}
		if kind == "blobs-expired-then-B-then-C" {
			// B's build succeeded and re-wrote the results of what it had to re-execute: the
			// store must be whole again (every result it holds references stored blobs) ...
			if obsB.Res.Exit != 0 {
				viol("build-failed-on-expired-remote-blob", "machine B's build failed although a missing remote object must degrade to a cache miss: "+tail(obsB.Res.Stdout+obsB.Res.Stderr, 400), obsB)
				return
			}
			// (results that only A wrote and that lost a blob to the lifecycle rule are not B's
			// business: B is judged on the results it wrote itself)
			writerRoot = rootB
			onlyResults = map[string]bool{}
			for _, k := range fs3.PutKeys("/target/") {
				onlyResults[strings.TrimPrefix(k, bucketPrefix+"/")] = true
			}
			run.Count("results_rewritten_by_B_after_blob_expiry", len(onlyResults))
			ok := auditRemote("after machine B rebuilt what had lost a blob in the remote store")
			onlyResults = nil
			if !ok {
				return
			}
			// ... so that a third machine restores everything without executing
			rootC := filepath.Join(env.Dir, "rootC")
			_ = os.MkdirAll(rootC, 0755)
			env.WipeOutputs()
			env.M.Root = rootC
			for k := range env.Memo {
				env.Memo[k] = "ok"
			}
			for k := range env.Unsure {
				delete(env.Unsure, k)
			}
			fs3.Reset()
			if _, _, ok := step("C-build", e1.BuildOpts{}, strict, false); !ok {
				return
			}
			run.Count("third_machine_builds_after_remote_healing", 1)
		}
		if kind == "b-restores-over-older-outputs" {
			// Orders of builds: B has restored revision 1 and keeps its outputs in its checkout;
			// A moves on to revision 2 (directory outputs change shape: sub-directories, files and
			// symlinks come and go) and publishes it; B updates its sources and builds: whatever it
			// restores lands on top of the revision-1 outputs and must equal A's, nothing left over.
			side := filepath.Join(env.Dir, "b-outputs-r1")
			_ = os.MkdirAll(side, 0755)
			type saved struct{ abs, copy string }
			var keepOuts []saved
			for ti, t := range env.Spec.Targets {
				for oi, o := range t.AllOuts() {
					abs := spec.OutAbs(env.WS, t.Pkg, o.Path)
					if _, err := os.Lstat(abs); err == nil {
						c := filepath.Join(side, fmt.Sprintf("%d_%d", ti, oi))
						if exec.Command("cp", "-a", abs, c).Run() == nil {
							keepOuts = append(keepOuts, saved{abs, c})
						}
					}
				}
			}
			env.M.Root = rootA
			env.WipeOutputs()
			edits := 0
			for _, t := range env.Spec.Targets {
				hasDir := false
				for _, o := range t.AllOuts() {
					if o.Kind == "dir" {
						hasDir = true
					}
				}
				if hasDir || r.Chance(1, 3) {
					tt := t
					env.Apply(func() string { tt.Salt = r.Word(4, 8); return "command-change" })
					edits++
				}
			}
			env.Logf("revision 2: commands of %d targets changed", edits)
			if _, _, ok := step("A-revision-2", e1.BuildOpts{}, safety, true); !ok {
				return
			}
			if !auditRemote("after A published revision 2") {
				return
			}
			env.M.Root = rootB
			env.WipeOutputs()
			for _, k := range keepOuts {
				_ = os.MkdirAll(filepath.Dir(k.abs), 0755)
				_ = exec.Command("cp", "-a", k.copy, k.abs).Run()
			}
			env.Logf("B's checkout still holds the revision-1 outputs (%d paths)", len(keepOuts))
			fs3.Reset()
			_, obsB2, ok := step("B-revision-2-over-revision-1-outputs", e1.BuildOpts{}, safety, true)
			if !ok {
				return
			}
			r2 := 0
			for _, t := range env.Spec.Targets {
				if obsB2.Started[t.Label()] == 0 && len(t.AllOuts()) > 0 {
					r2++
				}
			}
			run.Count("targets_restored_on_B_over_older_outputs", r2)
			run.Count("B_builds_over_older_outputs", 1)
		}
		if !auditRemoteQuiet(fs3, bucketPrefix) && kind != "a-put-dropped" && kind != "blobs-expired-then-B-then-C" {
			auditRemote("at the end of the scenario")
			return
		}
		if restored > 0 {
			run.Nontrivial(fmt.Sprintf("%s|%s|r%d", kind, s.Shape(), restored))
		}
		env.M.Root = rootA
		_ = memoA
		run.Sample(map[string]any{"scenario": kind, "history": env.Log, "requests": tailReq(fs3)})
	})
	run.Assume("machine B = same workspace path (the remote namespace is derived from it), separate GROG_ROOT; the fake store speaks path-style S3 over plain HTTP on loopback; GCS and real S3 consistency behaviour are not covered")
	return run.Finish()
}

func auditRemoteQuiet(f *FakeS3, prefix string) bool {
	return audit.Audit(audit.Store(f.Store(prefix))).Clean()
}

func tailReq(f *FakeS3) []string {
	f.mu.Lock()
	defer f.mu.Unlock()
	var out []string
	start := 0
	if len(f.Log) > 40 {
		start = len(f.Log) - 40
	}
	for _, r := range f.Log[start:] {
		k := r.Key
		if i := strings.Index(k, "/cache/"); i >= 0 {
			k = k[i:]
		}
		if len(k) > 60 {
			k = "..." + k[len(k)-50:]
		}
		out = append(out, fmt.Sprintf("%s %s -> %d %s", r.Verb, k, r.Status, r.Fault))
	}
	sort.SliceStable(out, func(a, b int) bool { return false })
	return out
}
