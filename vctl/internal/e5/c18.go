package e5

import (
	"fmt"
	"os"
	"path/filepath"
	"strings"
	"syscall"
	"time"
	"unsafe"
	"vctl/internal/audit"

	"vctl/internal/e1"
	"vctl/internal/grog"
	"vctl/internal/report"
	"vctl/internal/rng"
	"vctl/internal/spec"
)

var signalPoints = []string{"load.file", "lock.try", "lock.pidwritten", "build.locked", "walk.register", "walk.start", "cache.lookup", "exec.begin", "cmd.attempt",
	"exec.outputs.pre", "file.write.cas", "dir.write.files", "dir.write.tree", "fs.set.tmp", "fs.set.copy", "fs.set.copy", "fs.set.copied", "fs.set.rename", "fs.set.done", "exec.result.pre", "exec.result.post", "walk.complete", "pool.task.end", "walk.return", "file.load.cas", "dir.load.tree"}

// isZombie: dead but not yet reaped by its (new) parent.
func isZombie(pid int) bool {
	b, err := os.ReadFile(fmt.Sprintf("/proc/%d/stat", pid))
	if err != nil {
		return true
	}
	s := string(b)
	i := strings.LastIndex(s, ")")
	return i < 0 || i+2 >= len(s) || s[i+2] == 'Z' || s[i+2] == 'X'
}

func pidAlive(pid int) bool {
	if pid <= 1 {
		return false
	}
	return syscall.Kill(pid, 0) == nil
}

// RunC18: interrupts stop the build promptly and leave a recoverable state.
func RunC18(tier string) int {
	run := report.New("C18", tier, "fault_enumeration",
		"seeded graphs with slow targets (commands that log their start, sleep 8 s and only then write outputs and their end marker) built by the real binary; SIGINT or SIGTERM is raised inside the process at the N-th hit of a chosen hook point (loading, lock acquisition, walker registration/start, cache lookup, just before a command is spawned, output writing, blob/result store steps, completion, shutdown) or sent from outside after a seeded delay; slow commands whose shell ignores SIGTERM; wide builds with 2-6 x num_workers ready targets interrupted right after the K-th command spawn; a second build interrupted while it waits for the workspace lock held by the first; "+
			"verdicts: a command that started although its cmd.attempt event follows signal.cancelled; an interrupted command whose end marker appears before grog exits, or whose shell is still alive after grog exited; exit status 0 although selected targets were unfinished at the signal; grog still running 30 s after the signal while quiescent (hang); a follow-up build that fails, cannot take the lock, does not re-execute an interrupted target or leaves wrong bytes; "+
			"non-trivial = signal delivered while at least one command was running or pending; distinct = placement point + hit + signal + shape")
	st, err := e1.Prepare(run, false)
	if err != nil {
		run.Infra(err.Error())
		return run.Finish()
	}
	defer st.Cleanup()
	n := tierN(tier, 40, 500)
	// tty=true: the same scenario on a pseudo terminal, i.e. with the interactive Bubble Tea UI
	// running (how a user at a shell prompt runs grog): Ctrl-C arrives as a key press that the UI
	// turns into the cancellation, SIGINT/SIGTERM are seen by the UI's own handler as well
	interruptCase := func(i int, tty bool) {
		stream, pfx := "C18", "i"
		if tty {
			stream, pfx = "C18-tty", "y"
		}
		r := rng.Derive(uint64(run.Seed), stream, fmt.Sprint(i))
		pf := spec.DefaultProfile()
		pf.MinTargets, pf.MaxTargets, pf.EdgeProb = 4, 9, 30
		// a quarter of the cases interrupts `grog test` (test targets and their dependency closure)
		viaTest := r.Chance(1, 4)
		pf.Tests = viaTest
		s := spec.Gen(r, pf)
		sel := e1.SelectionFor(s, nil, viaTest)
		if viaTest && len(sel) < 2 {
			viaTest = false
			sel = e1.SelectionFor(s, nil, false)
		}
		grogCmd := "build"
		if viaTest {
			grogCmd = "test"
			run.Count("interrupted_grog_test_invocations", 1)
		}
		var selected []*spec.Target
		for _, t := range s.Targets {
			if sel[t.Label()] {
				selected = append(selected, t)
			}
		}
		// one or two slow targets; everything else fast
		nslow := 0
		for _, t := range s.Targets {
			if !sel[t.Label()] {
				continue
			}
			if (nslow < 2 && r.Chance(1, 3)) || (nslow == 0 && t == selected[len(selected)-1]) {
				t.SleepMs = 8000
				t.TrapTerm = r.Chance(1, 2) // a command with a cleanup handler: its shell ignores TERM
				nslow++
			} else {
				t.SleepMs = r.Intn(30)
				if r.Chance(1, 3) {
					// an output of a few MiB: the signal may arrive while it is being copied into the cache
					t.Outs = append(t.Outs, spec.Out{Kind: "file", Path: "big_" + t.Name + ".out"})
				}
			}
		}
		gcfg := grog.Config{NumWorkers: r.Range(2, 4), FailFast: r.Chance(1, 4)}
		env, err := e1.NewEnv(st.Base, fmt.Sprintf("%s%d", pfx, i), st.Grog, st.Vctl, s, gcfg)
		if err != nil {
			run.Infra(err.Error())
			return
		}
		keep := false
		defer func() {
			if !keep {
				env.Cleanup()
			}
		}()
		hookLog := env.EnableHookLog()
		sig := rng.Pick(r, []string{"INT", "TERM"})
		point := rng.Pick(r, signalPoints)
		hit := r.Range(1, 4)
		external := r.Chance(1, 5)
		key := tty && r.Chance(1, 2)
		var opts grog.RunOpts
		opts.Build = "b1"
		opts.Timeout = 60 * time.Second
		opts.Pty = tty
		placement := fmt.Sprintf("%s#%d", point, hit)
		if key {
			// Ctrl-C typed at the terminal once the K-th command has been spawned (or after a
			// delay), optionally after other key presses the UI must cope with
			external = true
			sig = "CTRL-C"
			after := r.Range(0, 3)
			delay := time.Duration(r.Range(0, 400)) * time.Millisecond
			noise := rng.Pick(r, []string{"", "s", "ss", "x\r", "\x1b[A\x1b[B", "s\x1b[Cq"})
			placement = fmt.Sprintf("key:after-%d-spawns+%dms noise=%q", after, delay.Milliseconds(), noise)
			opts.WithPty = func(pid int, master *os.File) {
				for w := 0; w < 400; w++ {
					k := 0
					for _, ev := range e1.ReadHookLog(hookLog) {
						if ev.Name == "cmd.attempt" {
							k++
						}
					}
					if k >= after && (k > 0 || w > 10) {
						break
					}
					time.Sleep(10 * time.Millisecond)
				}
				time.Sleep(delay)
				if noise != "" {
					_, _ = master.Write([]byte(noise))
					time.Sleep(30 * time.Millisecond)
				}
				_, _ = master.Write([]byte{3})
			}
		} else if external {
			delay := time.Duration(r.Range(20, 1500)) * time.Millisecond
			placement = fmt.Sprintf("external+%dms", delay.Milliseconds())
			opts.AfterStart = func(pid int) {
				time.Sleep(delay)
				sg := syscall.SIGINT
				if sig == "TERM" {
					sg = syscall.SIGTERM
				}
				_ = syscall.Kill(pid, sg)
			}
		} else {
			opts.Env = []string{fmt.Sprintf("GROG_VERIF_PLAN=%s=sig:%d:%s", point, hit, sig)}
		}
		pcl := pointClass(point, external)
		if key {
			pcl = "ctrl-c-key"
		}
		if tty {
			pcl = "tty:" + pcl
		}
		if err := env.Sync(); err != nil {
			run.Infra(err.Error())
			return
		}
		// which target shells are still alive at the moment grog is gone (before the harness
		// cleans up the session)
		var survivors []int
		opts.BeforeCleanup = func() {
			pids := env.ReadTrace("b1").ShellPids
			for wait := 0; wait < 10; wait++ {
				survivors = survivors[:0]
				for _, sp := range pids {
					if pidAlive(sp) && !isZombie(sp) {
						survivors = append(survivors, sp)
					}
				}
				if len(survivors) == 0 {
					return
				}
				time.Sleep(50 * time.Millisecond)
			}
		}
		start := time.Now()
		res := env.M.Run([]string{grogCmd}, opts)
		wall := time.Since(start)
		endMono := monoNow()
		run.Eval(1)
		run.Count("interrupted_builds", 1)
		if tty {
			run.Count("interrupted_builds_on_a_terminal(interactive UI)", 1)
			if key {
				run.Count("interrupted_by_ctrl-c_key_press", 1)
			}
		}
		evs := e1.ReadHookLog(hookLog)
		run.Count("hook_events", len(evs))
		var cancelSeq, cancelMono int64 = -1, 0
		pid := 0
		for _, ev := range evs {
			if ev.Name == "signal.cancelled" {
				cancelSeq, pid, cancelMono = ev.Seq, ev.Pid, ev.Mono
				break
			}
		}
		obs := env.ReadTrace("b1")
		replay := map[string]any{"placement": placement, "signal": sig, "history": env.Log, "stdout": tail(res.Stdout, 1500), "stderr": tail(res.Stderr, 800),
			"trace": obs.Order, "num_workers": gcfg.NumWorkers, "fail_fast": gcfg.FailFast, "tty": tty}
		viol := func(sig2, what string) {
			keep = !run.Violation(sig2, what, replay) || keep
		}
		if c := res.Crashed(); c != "" {
			viol("crash-on-interrupt", "grog crashed while being interrupted: "+c)
			return
		}
		if res.TimedOut {
			// promptness is counted from the moment the handler observed the signal (CLOCK_MONOTONIC
			// is system-wide): only a process that is still there 30 s later is reported
			since := time.Duration(endMono-cancelMono) * time.Nanosecond
			if cancelSeq >= 0 && since > 30*time.Second {
				kind := "slow"
				if res.Hang {
					kind = "hang"
				}
				viol("no-exit-after-signal "+kind+" at="+pcl, fmt.Sprintf("grog was still running %.0f s after it had observed %s (placement %s); quiescent=%v", since.Seconds(), sig, placement, res.Hang))
			} else {
				run.Inconclusive("build hit the wall-clock cap without (or shortly after) the signal: " + placement)
			}
			return
		}
		if cancelSeq < 0 {
			// the signal was never delivered (point not reached) or arrived before the handler existed
			run.Count("signal_not_observed(point not reached or build already over)", 1)
			if res.Exit == 0 {
				return
			}
		}
		run.Count("signal_observed", 1)
		run.Count("placement:"+pcl, 1)
		// unfinished work at the signal?
		completed := map[string]bool{}
		resultAfter := map[string]bool{}
		for _, ev := range evs {
			if ev.Pid != pid || len(ev.KV) == 0 {
				continue
			}
			switch {
			case ev.Name == "walk.complete" && ev.Seq < cancelSeq:
				completed[ev.KV[0]] = true
			case ev.Name == "result.write" && ev.Seq > cancelSeq:
				resultAfter[ev.KV[0]] = true
			}
		}
		unfinished := 0
		for _, t := range selected {
			if !completed[t.Label()] {
				unfinished++
			}
		}
		if cancelSeq >= 0 && unfinished > 0 {
			run.Nontrivial(fmt.Sprintf("%s|%s|%s|u%d", pcl, sig, s.Shape(), unfinished))
			if res.Exit == 0 {
				viol("exit-zero-after-interrupt at="+pcl, fmt.Sprintf("grog exited 0 although %d selected targets were unfinished when %s arrived at %s", unfinished, sig, placement))
				return
			}
		}
		if _, after := e1.StartedAfter(evs, "signal.cancelled", obs.Started); len(after) > 0 {
			viol("command-started-after-signal", fmt.Sprintf("%v started after the signal had cancelled the build (placement %s)", after, placement))
			return
		}
		// interrupted commands: started, not ended when grog exited
		for l, c := range obs.Started {
			if c > obs.Ended[l]+obs.Failed[l] {
				run.Count("commands_interrupted", 1)
				if resultAfter[l] {
					viol("result-written-for-interrupted-target", fmt.Sprintf("%s was interrupted but a target result was written for it", l))
					return
				}
			}
		}
		// whatever the interrupted build left in the cache must be whole: every blob has the content
		// its name says, every result references stored blobs
		if stor, err := audit.LoadDir(env.CacheDir()); err == nil {
			rep := audit.Audit(stor)
			run.Count("cache_entries_audited_after_the_interrupt", rep.CasOK+rep.TargetOK+len(rep.CasBad)+len(rep.TargetBad))
			if !rep.Clean() {
				kind := "dangling-reference"
				if len(rep.CasBad) > 0 {
					kind = "blob-content-mismatch"
				} else if len(rep.TargetBad) > 0 {
					kind = "target-result-undecodable"
				}
				viol("cache-inconsistent-after-interrupt "+kind+" at="+pcl, fmt.Sprintf("after %s at %s the cache at rest is inconsistent: %s", sig, placement, rep.Summary()))
				return
			}
		}
		run.Count("target_shells_checked_after_exit", len(obs.ShellPids))
		if len(survivors) > 0 {
			viol("target-shell-survives", fmt.Sprintf("shells %v of target commands were still alive 0.5 s after grog had exited", survivors))
			return
		}
		// slow commands must not have run to completion after the signal: their E marker would
		// need the full 8 s sleep, which promptness forbids
		if cancelSeq >= 0 && wall < 6*time.Second {
			run.Count("prompt_exits(<6s wall)", 1)
		}
		// follow-up build
		for k := range env.Memo {
			env.Memo[k] = "lost"
		}
		for _, t := range env.Spec.Targets {
			t.SleepMs = 0 // sleeps are part of the command text: remove them for the follow-up (this changes every key: everything must run)
		}
		p2, obs2, vs, err := env.Step(e1.BuildOpts{Cmd: grogCmd}, e1.BuildCfg{EnableCache: true}, "after-interrupt", viaTest)
		if err != nil {
			run.Infra(err.Error())
			return
		}
		_ = p2
		run.Count("followup_builds", 1)
		if obs2.Res.Exit != 0 && !hasKind(vs, "exit") {
			vs = append(vs, e1.Violation{Kind: "exit", Sig: "followup-failed", What: "follow-up build failed: " + tail(obs2.Res.Stdout+obs2.Res.Stderr, 400)})
		}
		for _, v := range vs {
			switch v.Kind {
			case "bytes", "restore", "exit", "crash", "hang", "exec":
				replay["followup_stdout"] = tail(obs2.Res.Stdout, 1200)
				viol("followup-after-interrupt "+v.Sig, "after the interrupted build: "+v.What)
				return
			}
		}
		run.Sample(map[string]any{"placement": placement, "signal": sig, "tty": tty, "exit": res.Exit, "wall_ms": wall.Milliseconds(), "trace": obs.Order})
	}
	e1.Parallel(n, func(i int) { interruptCase(i, false) })
	if grog.PtyAvailable() {
		e1.Parallel(tierN(tier, 24, 300), func(i int) { interruptCase(i, true) })
	} else {
		run.Count("pseudo_terminals_unavailable(interactive path not driven)", 1)
	}
	// wide builds (worker pool queue full at the signal): exit within the cap, non-zero
	e1.InterruptWidePart(run, st, tierN(tier, 16, 160))
	// same-command second scenario: the interrupted target must be re-executed by an identical follow-up build
	e1.Parallel(tierN(tier, 12, 120), func(i int) {
		r := rng.Derive(uint64(run.Seed), "C18-rerun", fmt.Sprint(i))
		pf := spec.DefaultProfile()
		pf.MinTargets, pf.MaxTargets = 3, 6
		s := spec.Gen(r, pf)
		slow := s.Targets[len(s.Targets)-1]
		slow.SleepIf = "markers/slow"
		env, err := e1.NewEnv(st.Base, fmt.Sprintf("j%d", i), st.Grog, st.Vctl, s, grog.Config{NumWorkers: 2})
		if err != nil {
			run.Infra(err.Error())
			return
		}
		defer env.Cleanup()
		hookLog := env.EnableHookLog()
		env.SetMarker("markers/slow", true)
		_ = env.Sync()
		point := rng.Pick(r, []string{"exec.outputs.pre", "exec.result.pre", "fs.set.rename", "cmd.attempt", "file.write.cas"})
		res := env.M.Run([]string{"build"}, grog.RunOpts{Build: "b1", Timeout: 40 * time.Second,
			AfterStart: func(pid int) {
				time.Sleep(time.Duration(r.Range(300, 1200)) * time.Millisecond)
				_ = syscall.Kill(pid, syscall.SIGINT)
			}})
		_ = point
		run.Eval(1)
		run.Count("interrupted_builds_with_identical_followup", 1)
		if res.TimedOut {
			run.Violation("no-exit-after-signal external", "grog still running 40 s after start with SIGINT sent from outside", map[string]any{"history": env.Log})
			return
		}
		evs := e1.ReadHookLog(hookLog)
		wrote := false
		for _, ev := range evs {
			if ev.Name == "result.write" && len(ev.KV) > 0 && ev.KV[0] == slow.Label() {
				wrote = true
			}
		}
		obs := env.ReadTrace("b1")
		if obs.Started[slow.Label()] > 0 && obs.Ended[slow.Label()] == 0 {
			run.Nontrivial(fmt.Sprintf("rerun|%s", s.Shape()))
			if wrote {
				run.Violation("result-written-for-interrupted-target", slow.Label()+" was interrupted but a target result was written", map[string]any{"history": env.Log})
				return
			}
			// identical follow-up (marker removed: the command text is unchanged)
			env.SetMarker("markers/slow", false)
			for k := range env.Memo {
				env.Memo[k] = "lost"
			}
			_, obs2, _, err := env.Step(e1.BuildOpts{}, e1.BuildCfg{EnableCache: true}, "after-interrupt", false)
			if err != nil {
				return
			}
			if obs2.Res.Exit != 0 {
				run.Violation("followup-after-interrupt failed", "identical follow-up build failed: "+tail(obs2.Res.Stdout+obs2.Res.Stderr, 400), map[string]any{"history": env.Log})
				return
			}
			if obs2.Started[slow.Label()] == 0 {
				run.Violation("interrupted-target-not-re-executed", slow.Label()+" was interrupted, yet the identical follow-up build did not execute it (a cache entry must have been recorded)", map[string]any{"history": env.Log})
			}
		}
	})
	// third scenario: the interrupted build is still waiting for the workspace lock held by another build
	e1.Parallel(tierN(tier, 8, 80), func(i int) {
		r := rng.Derive(uint64(run.Seed), "C18-lockwait", fmt.Sprint(i))
		pf := spec.DefaultProfile()
		pf.MinTargets, pf.MaxTargets = 2, 5
		s := spec.Gen(r, pf)
		for _, t := range s.Targets {
			t.SleepMs = 0
		}
		s.Targets[0].SleepMs = 4000 // the holder stays in its build for a while
		env, err := e1.NewEnv(st.Base, fmt.Sprintf("k%d", i), st.Grog, st.Vctl, s, grog.Config{NumWorkers: 2})
		if err != nil {
			run.Infra(err.Error())
			return
		}
		keep := false
		defer func() {
			if !keep {
				env.Cleanup()
			}
		}()
		holderLog := env.EnableHookLog()
		waiterLog := filepath.Join(env.Dir, "hooks-waiter.jsonl")
		if err := env.Sync(); err != nil {
			run.Infra(err.Error())
			return
		}
		sig := rng.Pick(r, []syscall.Signal{syscall.SIGINT, syscall.SIGTERM})
		sawEvent := func(log, name string) bool {
			for _, ev := range e1.ReadHookLog(log) {
				if ev.Name == name {
					return true
				}
			}
			return false
		}
		holderDone := make(chan *grog.Result, 1)
		go func() {
			holderDone <- env.M.Run([]string{"build"}, grog.RunOpts{Build: "b1", Timeout: 60 * time.Second})
		}()
		for w := 0; w < 200 && !sawEvent(holderLog, "build.locked"); w++ {
			time.Sleep(20 * time.Millisecond)
		}
		signalled := false
		wres := env.M.Run([]string{"build"}, grog.RunOpts{Build: "b2", Timeout: 40 * time.Second, Env: []string{"GROG_VERIF_LOG=" + waiterLog},
			AfterStart: func(pid int) {
				for w := 0; w < 150; w++ {
					if sawEvent(waiterLog, "lock.wait") {
						time.Sleep(time.Duration(r.Range(0, 150)) * time.Millisecond)
						signalled = true
						_ = syscall.Kill(pid, sig)
						return
					}
					time.Sleep(20 * time.Millisecond)
				}
			}})
		hres := <-holderDone
		run.Eval(1)
		run.Count("builds_interrupted_while_waiting_for_the_lock", 1)
		replay := map[string]any{"history": env.Log, "signal": sig.String(), "waiter_stdout": tail(wres.Stdout+wres.Stderr, 800), "holder_stdout": tail(hres.Stdout+hres.Stderr, 800)}
		viol := func(sg, what string) { keep = !run.Violation(sg, what, replay) || keep }
		if !signalled {
			run.Count("lock_wait_not_reached(holder finished first)", 1)
			return
		}
		waiterLocked := sawEvent(waiterLog, "build.locked")
		obsW := env.ReadTrace("b2")
		run.Nontrivial(fmt.Sprintf("lockwait|%s|%s|locked=%v", sig, s.Shape(), waiterLocked))
		switch {
		case wres.Crashed() != "":
			viol("crash-on-interrupt lock-wait", "grog crashed when interrupted while waiting for the workspace lock: "+wres.Crashed())
		case wres.TimedOut:
			viol("no-exit-after-signal at=lock-wait", "grog was still waiting for the workspace lock 40 s after start although it had been sent "+sig.String())
		case !waiterLocked && len(obsW.Started) > 0:
			viol("command-started-without-the-lock", fmt.Sprintf("the interrupted waiter never acquired the lock but started %v", obsW.Started))
		case !waiterLocked && wres.Exit == 0:
			viol("exit-zero-after-interrupt at=lock-wait", fmt.Sprintf("grog exited 0 after %s arrived while it was waiting for the workspace lock: none of its %d selected targets was built", sig, len(s.Targets)))
		}
		if hres.Exit != 0 || hres.TimedOut {
			viol("holder-disturbed-by-interrupted-waiter", fmt.Sprintf("the build holding the lock ended with exit=%d timed_out=%v", hres.Exit, hres.TimedOut))
		}
	})
	// fourth scenario: the signal arrives while a BUILD.star file is still being evaluated (a
	// package whose Starlark code computes for a long time - here a counting loop far too long
	// to finish inside the watch window): "at any moment" includes loading
	e1.Parallel(tierN(tier, 3, 12), func(i int) {
		r := rng.Derive(uint64(run.Seed), "C18-starlark", fmt.Sprint(i))
		pf := spec.DefaultProfile()
		pf.MinTargets, pf.MaxTargets = 2, 4
		s := spec.Gen(r, pf)
		env, err := e1.NewEnv(st.Base, fmt.Sprintf("s%d", i), st.Grog, st.Vctl, s, grog.Config{NumWorkers: r.Range(1, 4)})
		if err != nil {
			run.Infra(err.Error())
			return
		}
		keep := false
		defer func() {
			if !keep {
				env.Cleanup()
			}
		}()
		hookLog := env.EnableHookLog()
		inModule := r.Chance(1, 2)
		slowDir := filepath.Join(env.WS, "zzslow")
		_ = os.MkdirAll(slowDir, 0755)
		spin := "def spin(n):\n    x = 0\n    for i in range(n):\n        x += i % 7\n    return x\n"
		if inModule {
			// the long computation sits in a module pulled in with load()
			_ = os.WriteFile(filepath.Join(slowDir, "defs.star"), []byte(spin+"SPUN = spin(1000000000000)\n"), 0644)
			_ = os.WriteFile(filepath.Join(slowDir, "BUILD.star"), []byte("load(\"defs.star\", \"SPUN\")\ntarget(name = \"slowpkg\", command = \"true\")\n"), 0644)
		} else {
			_ = os.WriteFile(filepath.Join(slowDir, "BUILD.star"), []byte(spin+"spin(1000000000000)\ntarget(name = \"slowpkg\", command = \"true\")\n"), 0644)
		}
		sig := rng.Pick(r, []syscall.Signal{syscall.SIGINT, syscall.SIGTERM})
		delay := time.Duration(r.Range(300, 1500)) * time.Millisecond
		res := env.M.Run([]string{"build"}, grog.RunOpts{Build: "b1", Timeout: 45 * time.Second,
			AfterStart: func(pid int) {
				time.Sleep(delay)
				_ = syscall.Kill(pid, sig)
			}})
		endMono := monoNow()
		run.Eval(1)
		run.Count("builds_interrupted_during_starlark_evaluation", 1)
		var cancelMono int64
		for _, ev := range e1.ReadHookLog(hookLog) {
			if ev.Name == "signal.cancelled" {
				cancelMono = ev.Mono
				break
			}
		}
		where := "BUILD.star"
		if inModule {
			where = "loaded-module"
		}
		replay := map[string]any{"signal": sig.String(), "delay_ms": delay.Milliseconds(), "where": where, "stdout": tail(res.Stdout, 800), "stderr": tail(res.Stderr, 800)}
		if cancelMono == 0 {
			run.Inconclusive("signal not observed by grog during a long Starlark evaluation")
			return
		}
		run.Nontrivial(fmt.Sprintf("starlark|%s|%s", sig, where))
		obs := env.ReadTrace("b1")
		switch {
		case res.Crashed() != "":
			keep = !run.Violation("crash-on-interrupt starlark-evaluation", "grog crashed when interrupted while evaluating a BUILD.star file: "+res.Crashed(), replay) || keep
		case res.TimedOut:
			since := time.Duration(endMono-cancelMono) * time.Nanosecond
			if since > 30*time.Second {
				keep = !run.Violation("no-exit-after-signal at=starlark-evaluation", fmt.Sprintf("grog was still evaluating a BUILD.star file (%s) %.0f s after it had observed %s: the evaluation is not stopped by the cancellation", where, since.Seconds(), sig), replay) || keep
			} else {
				run.Inconclusive("cap reached shortly after the signal")
			}
		case res.Exit == 0:
			keep = !run.Violation("exit-zero-after-interrupt at=starlark-evaluation", "grog exited 0 after being interrupted while loading", replay) || keep
		case len(obs.Started) > 0:
			keep = !run.Violation("command-started-after-signal", fmt.Sprintf("commands %v ran although the build was interrupted while loading", obs.Started), replay) || keep
		default:
			run.Count("prompt_exits_during_starlark_evaluation", 1)
		}
		// recoverable: without the slow package the next build works and leaves reference bytes
		_ = os.RemoveAll(slowDir)
		_, obs2, vs, err := env.Step(e1.BuildOpts{}, e1.BuildCfg{EnableCache: true}, "after-interrupt", false)
		if err != nil {
			run.Infra(err.Error())
			return
		}
		if obs2.Res.Exit != 0 {
			keep = !run.Violation("followup-after-interrupt failed", "build after an interrupted load failed: "+tail(obs2.Res.Stdout+obs2.Res.Stderr, 400), replay) || keep
			return
		}
		for _, v := range vs {
			if v.Kind == "bytes" || v.Kind == "exec" {
				keep = !run.Violation("followup-after-interrupt "+v.Sig, "after the interrupted load: "+v.What, replay) || keep
				return
			}
		}
	})
	if report.Part("rerun") {
		c18InterruptedRerun(run, st, tierN(tier, 8, 60))
	}
	run.Assume("exec.CommandContext refuses to start a command once the context is cancelled; a command attempted before the cancellation may legitimately still start")
	run.Assume("the interactive path is driven on a pseudo terminal that answers the colour / cursor queries like a terminal emulator; real terminal emulators are not involved")
	return run.Finish()
}

func hasKind(vs []e1.Violation, k string) bool {
	for _, v := range vs {
		if v.Kind == k {
			return true
		}
	}
	return false
}

func pointClass(point string, external bool) string {
	if external {
		return "external"
	}
	return point
}

func tail(s string, n int) string {
	if len(s) > n {
		s = s[len(s)-n:]
	}
	return strings.ReplaceAll(s, "\n", " | ")
}

var _ = os.Remove
var _ = filepath.Join

func monoNow() int64 {
	var ts syscall.Timespec
	_, _, e := syscall.Syscall(syscall.SYS_CLOCK_GETTIME, 1, uintptr(unsafe.Pointer(&ts)), 0)
	if e != 0 {
		return 0
	}
	return ts.Sec*1e9 + ts.Nsec
}
