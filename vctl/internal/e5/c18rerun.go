package e5

import (
	"fmt"
	"os"
	"path/filepath"
	"syscall"
	"time"

	"vctl/internal/e1"
	"vctl/internal/grog"
	"vctl/internal/report"
	"vctl/internal/rng"
	"vctl/internal/spec"
)

// c18InterruptedRerun: under load_outputs=minimal a dependency that is a cache hit but whose
// blobs are gone is re-run from inside the task of the dependant that needs it - a command that no
// walker node started. The signal arrives while that command runs (or just before it would
// start). It is a target shell like any other: it is terminated, nothing finishes after grog is
// gone, grog exits non-zero.
func c18InterruptedRerun(run *report.Run, st *e1.Setup, n int) {
	e1.Parallel(n, func(i int) {
		r := rng.Derive(uint64(run.Seed), "C18-rerun", fmt.Sprint(i))
		s := &spec.Spec{Files: map[string]string{"p/l.txt": "l1\n", "p/a.txt": "a1\n"}}
		lib := &spec.Target{Pkg: "p", Name: "lib", Salt: r.Word(4, 8), Inputs: []string{"l.txt"}, Outs: []spec.Out{{Kind: "file", Path: "lib.out"}},
			SleepIf: "markers/slow_lib", SleepIfMs: 6000, TrapTerm: r.Chance(1, 2)}
		app := &spec.Target{Pkg: "p", Name: "app", Salt: r.Word(4, 8), Inputs: []string{"a.txt"}, Deps: []string{"//p:lib"}, Outs: []spec.Out{{Kind: "file", Path: "app.out"}}}
		s.Targets = []*spec.Target{lib, app}
		env, err := e1.NewEnv(st.Base, fmt.Sprintf("rr%d", i), st.Grog, st.Vctl, s, grog.Config{NumWorkers: r.Range(1, 3), LoadOutputs: "minimal"})
		if err != nil {
			run.Infra(err.Error())
			return
		}
		keep := false
		defer func() {
			if !keep {
				env.Cleanup()
			}
		}()
		cfg := e1.BuildCfg{EnableCache: true, Minimal: true}
		if _, obs, vs, err := env.Step(e1.BuildOpts{}, cfg, "cold", false); err != nil || len(vs) > 0 || obs.Res.Exit != 0 {
			run.Count("interrupted_rerun_cases_skipped(cold build diverged)", 1)
			return
		}
		env.Apply(func() string { s.Files["p/a.txt"] = "a2\n"; return "file-edit" })
		if err := env.Sync(); err != nil {
			run.Infra(err.Error())
			return
		}
		env.WipeOutputs()
		if ents, err := os.ReadDir(filepath.Join(env.CacheDir(), "cas")); err == nil {
			for _, en := range ents {
				_ = os.Remove(filepath.Join(env.CacheDir(), "cas", en.Name()))
			}
		}
		env.SetMarker("markers/slow_lib", true)
		sig := rng.Pick(r, []syscall.Signal{syscall.SIGINT, syscall.SIGTERM})
		signalled := false
		var survivors []int
		opts := grog.RunOpts{Build: "b2", Timeout: 40 * time.Second}
		opts.AfterStart = func(pid int) {
			for w := 0; w < 400; w++ {
				if env.ReadTrace("b2").Started["//p:lib"] > 0 {
					time.Sleep(time.Duration(r.Range(50, 400)) * time.Millisecond)
					signalled = true
					_ = syscall.Kill(pid, sig)
					return
				}
				time.Sleep(20 * time.Millisecond)
			}
		}
		opts.BeforeCleanup = func() {
			pids := env.ReadTrace("b2").ShellPids
			for wait := 0; wait < 10; wait++ {
				survivors = survivors[:0]
				for _, sp := range pids {
					if pidAlive(sp) && !isZombie(sp) {
						survivors = append(survivors, sp)
					}
				}
				if len(survivors) == 0 {
					return
				}
				time.Sleep(50 * time.Millisecond)
			}
		}
		res := env.M.Run([]string{"build"}, opts)
		run.Eval(1)
		run.Count("dependency_reruns_interrupted", 1)
		if !signalled {
			run.Count("interrupted_rerun_cases_not_judged(the re-run never started)", 1)
			return
		}
		obs := env.ReadTrace("b2")
		replay := map[string]any{"signal": sig.String(), "lib_shell_ignores_TERM": lib.TrapTerm, "exit": res.Exit, "started": obs.Started, "ended": obs.Ended, "stdout": tail(res.Stdout, 1200), "stderr": tail(res.Stderr, 600)}
		switch {
		case res.TimedOut:
			keep = !run.Violation("no-exit-after-signal scenario=dependency-re-run", "grog did not exit within the cap after the signal arrived during the re-run of a dependency", replay) || keep
		case len(survivors) > 0:
			keep = !run.Violation("target-shell-survives scenario=dependency-re-run", fmt.Sprintf("shells %v (the dependency re-run from inside its dependant's task under load_outputs=minimal) were still alive 0.5 s after grog had exited", survivors), replay) || keep
		case res.Exit == 0:
			keep = !run.Violation("exit-zero-after-interrupt scenario=dependency-re-run", "grog exited 0 although the signal arrived while the dependency was being re-run", replay) || keep
		default:
			run.Nontrivial(fmt.Sprintf("interrupted-rerun|%s|trap=%v", sig, lib.TrapTerm))
		}
	})
}
