// Package e5 drives real OS processes step by step (hook points announce themselves on a unix
// socket and block until released) to explore interleavings of the workspace locker, and
// injects signals into real builds.
package e5

import (
	"bufio"
	"fmt"
	"net"
	"os"
	"os/exec"
	"path/filepath"
	"sort"
	"strings"
	"sync"
	"syscall"
	"time"

	"vctl/internal/rng"
)

type procEvent struct {
	id    string
	point string
	kv    string
	exit  bool
	code  int
}

type Proc struct {
	ID              string
	cmd             *exec.Cmd
	conn            net.Conn
	State           string // running | paused | exited | killed
	Point           string // pending point when paused
	KV              string
	LastPt          string // last point passed
	InCS            bool
	Entered         int
	Tries           int
	Code            int
	stale           string // reason of the last stale-remove this process performed
	staleVictimAt   map[string]string
	readSinceTry    bool
	waitedSinceRead bool // passed lock.wait (slept) after its last read of the lock file
	lastRead        string
	Cancelled       bool // SIGTERM was sent while it was waiting for the lock
}

type Sched struct {
	dir      string
	ln       net.Listener
	events   chan procEvent
	procs    map[string]*Proc
	order    []string
	mu       sync.Mutex
	conns    map[string]net.Conn
	Trace    []string
	lockFile string
	Causes   map[string]bool
}

func NewSched(dir string) (*Sched, error) {
	sock := filepath.Join(dir, "ctl.sock")
	ln, err := net.Listen("unix", sock)
	if err != nil {
		return nil, err
	}
	s := &Sched{dir: dir, ln: ln, events: make(chan procEvent, 256), procs: map[string]*Proc{}, conns: map[string]net.Conn{}, Causes: map[string]bool{}}
	go func() {
		for {
			c, err := ln.Accept()
			if err != nil {
				return
			}
			go s.serve(c)
		}
	}()
	return s, nil
}

func (s *Sched) serve(c net.Conn) {
	rd := bufio.NewReader(c)
	for {
		line, err := rd.ReadString('\n')
		if err != nil {
			return
		}
		f := strings.Fields(strings.TrimSpace(line))
		if len(f) < 3 {
			continue
		}
		kv := ""
		if len(f) > 3 {
			kv = f[3]
		}
		s.mu.Lock()
		s.conns[f[0]] = c
		s.mu.Unlock()
		s.events <- procEvent{id: f[0], point: f[2], kv: kv}
	}
}

func (s *Sched) Close() {
	s.ln.Close()
	for _, p := range s.procs {
		if p.cmd.Process != nil {
			_ = p.cmd.Process.Kill()
		}
	}
}

// Start launches a probe process that pauses at every lock.* / cs.* / probe.* point.
func (s *Sched) Start(id, probe, grogRoot, ws string) error {
	cmd := exec.Command(probe, grogRoot, ws)
	cmd.Env = append(os.Environ(),
		"GROG_VERIF_PLAN=lock.*=pause;cs.*=pause;probe.*=pause",
		"GROG_VERIF_CTL="+filepath.Join(s.dir, "ctl.sock"),
		"GROG_VERIF_ID="+id)
	cmd.Stdout, cmd.Stderr = nil, nil
	if err := cmd.Start(); err != nil {
		return err
	}
	p := &Proc{ID: id, cmd: cmd, State: "running", staleVictimAt: map[string]string{}}
	s.procs[id] = p
	s.order = append(s.order, id)
	go func() {
		err := cmd.Wait()
		code := 0
		if err != nil {
			code = 1
			if ee, ok := err.(*exec.ExitError); ok {
				if ws, ok := ee.Sys().(syscall.WaitStatus); ok {
					if ws.Signaled() {
						code = 128 + int(ws.Signal())
					} else {
						code = ws.ExitStatus()
					}
				}
			}
		}
		s.events <- procEvent{id: id, exit: true, code: code}
	}()
	return nil
}

// settle waits until no process is running (all paused, exited or killed).
func (s *Sched) settle(timeout time.Duration) bool {
	deadline := time.After(timeout)
	for {
		running := false
		for _, p := range s.procs {
			if p.State == "running" {
				running = true
			}
		}
		if !running {
			return true
		}
		select {
		case ev := <-s.events:
			p := s.procs[ev.id]
			if p == nil {
				continue
			}
			if ev.exit {
				if p.State != "killed" {
					p.State = "exited"
				}
				p.Code = ev.code
				p.InCS = false
				s.Trace = append(s.Trace, fmt.Sprintf("%s:exit(%d)", p.ID, ev.code))
				continue
			}
			if p.State == "killed" {
				continue
			}
			p.State, p.Point, p.KV = "paused", ev.point, ev.kv
		case <-deadline:
			return false
		}
	}
}

func (s *Sched) release(p *Proc) {
	s.mu.Lock()
	c := s.conns[p.ID]
	s.mu.Unlock()
	s.Trace = append(s.Trace, p.ID+":"+p.Point+strings.TrimPrefix(","+p.KV, ","))
	p.LastPt = p.Point
	if p.Point == "cs.exit" {
		p.InCS = false
	}
	if p.Point == "lock.try" {
		p.Tries++
		p.readSinceTry = false
	}
	if p.Point == "lock.wait" {
		p.waitedSinceRead = true
	}
	if p.Point == "lock.read" {
		p.waitedSinceRead = false
	}
	if p.Point == "lock.read" {
		// exactly one process moves at a time: this is what the read will return
		b, _ := os.ReadFile(s.lockFile)
		p.lastRead = strings.TrimSpace(string(b))
		p.readSinceTry = true
	}
	if p.Point == "lock.read" {
		// the decision to remove a "stale" lock is based on what this read returns
		for _, q := range s.procs {
			if q != p {
				p.staleVictimAt[q.ID] = q.phase()
			}
		}
	}
	if p.Point == "lock.staleremove" {
		p.stale = strings.TrimPrefix(p.KV, "reason,")
		// root-cause event: this remove hits a lock file that belongs to a live contender
		b, err := os.ReadFile(s.lockFile)
		if err == nil {
			c := strings.TrimSpace(string(b))
			for _, q := range s.procs {
				if q == p || q.State == "exited" || q.State == "killed" || q.cmd.Process == nil {
					continue
				}
				ph := q.phase()
				if c == "" && ph == "created-not-written" {
					s.Causes["remove-of-lock-being-created"] = true
				}
				if c == fmt.Sprint(q.cmd.Process.Pid) && (ph == "pid-written-not-returned" || ph == "holding") {
					switch {
					case !p.readSinceTry || p.waitedSinceRead:
						// the decision rests on what the file said before the last try / the last
						// wait: the file was not read again in this attempt
						s.Causes["remove-without-reading-the-lock-file-in-this-attempt"] = true
					case p.lastRead == c:
						s.Causes["remove-of-a-lock-read-as-belonging-to-a-live-process"] = true
					default:
						s.Causes["remove-of-fresh-lock-after-stale-read"] = true
					}
				}
			}
		}
	}
	p.State = "running"
	if c != nil {
		_, _ = c.Write([]byte("go\n"))
	}
}

// phase says where a process is with respect to its own lock file.
func (p *Proc) phase() string {
	pos := p.posDesc()
	switch {
	case p.State == "exited" || p.State == "killed":
		return p.State
	case pos == "before-lock.created" || pos == "after-lock.try":
		return "created-not-written"
	case pos == "before-lock.pidwritten" || pos == "after-lock.created":
		return "pid-written-not-returned"
	case strings.Contains(pos, "cs.") || pos == "before-lock.release" || pos == "after-lock.pidwritten" || strings.HasSuffix(pos, "lock.acquired"):
		return "holding"
	}
	return "not-yet-created"
}

func (p *Proc) posDesc() string {
	switch p.State {
	case "paused":
		return "before-" + p.Point
	case "exited", "killed":
		return p.State
	}
	return "after-" + p.LastPt
}

func (s *Sched) kill(p *Proc) {
	s.Trace = append(s.Trace, p.ID+":KILLED-at-"+p.Point)
	p.State = "killed"
	p.InCS = false
	_ = p.cmd.Process.Kill()
}

type LockVerdict struct {
	Cancels        int
	Violation      string
	What           string
	Trace          []string
	Entered        int
	Kills          int
	FairnessForced int
	Steps          int
	Inconclusive   string
}

// RunLockSchedule runs one randomly scheduled contention scenario.
func RunLockSchedule(r *rng.R, dir, probe string, nprocs int, preExisting string, killProb, cancelProb int) LockVerdict {
	var v LockVerdict
	root := filepath.Join(dir, "root")
	ws := filepath.Join(dir, "ws")
	_ = os.MkdirAll(ws, 0755)
	s, err := NewSched(dir)
	if err != nil {
		v.Inconclusive = err.Error()
		return v
	}
	defer s.Close()
	// where the locker puts its file
	lockDir := filepath.Join(root, prefixOf(ws))
	_ = os.MkdirAll(lockDir, 0755)
	lockFile := filepath.Join(lockDir, "lockfile")
	s.lockFile = lockFile
	switch preExisting {
	case "dead-pid":
		c := exec.Command("true")
		_ = c.Run()
		_ = os.WriteFile(lockFile, []byte(fmt.Sprint(c.Process.Pid)), 0644)
	case "garbage":
		_ = os.WriteFile(lockFile, []byte("not-a-pid"), 0644)
	case "empty":
		_ = os.WriteFile(lockFile, nil, 0644)
	case "negative":
		_ = os.WriteFile(lockFile, []byte("-7"), 0644)
	}
	for i := 0; i < nprocs; i++ {
		if err := s.Start(fmt.Sprintf("P%d", i), probe, root, ws); err != nil {
			v.Inconclusive = err.Error()
			return v
		}
	}
	current := ""
	maxSteps := 400
	for step := 0; step < maxSteps; step++ {
		if !s.settle(6 * time.Second) {
			v.Inconclusive = "a released process neither reached its next point nor exited within 6 s"
			v.Trace = s.Trace
			return v
		}
		// mutual exclusion
		var holders []string
		var enabled []*Proc
		for _, id := range s.order {
			p := s.procs[id]
			if p.State == "paused" && p.Point == "cs.enter" && !p.InCS {
				p.InCS = true
				p.Entered++
				v.Entered++
			}
			if p.InCS {
				holders = append(holders, id)
			}
			if p.State == "paused" {
				enabled = append(enabled, p)
			}
		}
		if len(holders) > 1 {
			v.Violation = "two-holders cause=" + s.causes()
			v.What = fmt.Sprintf("%v are inside the critical section at the same time", holders)
			v.Trace = append(s.Trace, "=> "+v.What)
			return v
		}
		// while a live process is inside the critical section the lock file names it (unless one
		// of the hook-visible removals of a live contender's lock happened: those are judged by
		// their consequences, with their cause attached)
		if len(holders) == 1 && len(s.Causes) == 0 {
			h := s.procs[holders[0]]
			b, err := os.ReadFile(lockFile)
			if c := strings.TrimSpace(string(b)); err != nil || c != fmt.Sprint(h.cmd.Process.Pid) {
				v.Violation = "holder-lock-file-gone cause=removal-outside-the-stale-lock-path"
				v.What = fmt.Sprintf("%s is inside the critical section but the lock file is %s (content %q); no stale-lock removal of a live contender's file was observed", h.ID, map[bool]string{true: "missing", false: "someone else's"}[err != nil], c)
				v.Trace = append(s.Trace, "=> "+v.What)
				return v
			}
		}
		if len(enabled) == 0 {
			break
		}
		// choose: keep running the current process with probability 2/3 (few preemptions)
		var p *Proc
		if current != "" && r.Chance(2, 3) {
			for _, e := range enabled {
				if e.ID == current {
					p = e
				}
			}
		}
		if p == nil {
			p = enabled[r.Intn(len(enabled))]
		}
		current = p.ID
		if p.Tries > 14 {
			b, _ := os.ReadFile(lockFile)
			// Waiting is correct while the lock file names a live contender the scheduler itself
			// is holding back: that is an unfair schedule, not a stuck lock. Run the owner instead.
			var owner *Proc
			for _, e := range enabled {
				if e != p && e.cmd.Process != nil && fmt.Sprint(e.cmd.Process.Pid) == strings.TrimSpace(string(b)) {
					owner = e
				}
			}
			if owner != nil {
				current = owner.ID
				p.Tries = 0
				v.FairnessForced++
				s.release(owner)
				v.Steps++
				continue
			}
			v.Violation = "contender-never-acquires lock-file=" + classifyLock(string(b), s)
			v.What = fmt.Sprintf("%s tried 14 times without acquiring; lock file content %q; states %s", p.ID, string(b), s.states())
			v.Trace = s.Trace
			return v
		}
		if v.Cancels == 0 && cancelProb > 0 && len(holders) == 1 && !p.InCS && !p.Cancelled && r.Chance(cancelProb, 100) &&
			(p.Point == "lock.wait" || p.Point == "lock.read" || p.Point == "lock.probe" || p.Point == "lock.try") {
			// the user interrupts a build that is waiting for the lock
			s.Trace = append(s.Trace, p.ID+":SIGTERM-at-"+p.Point)
			p.Cancelled = true
			_ = p.cmd.Process.Signal(syscall.SIGTERM)
			time.Sleep(20 * time.Millisecond) // let the probe's signal goroutine cancel the context
			v.Cancels++
			continue
		}
		if v.Kills == 0 && killProb > 0 && r.Chance(killProb, 100) && p.Point != "probe.done" {
			s.kill(p)
			v.Kills++
			continue
		}
		s.release(p)
		v.Steps++
	}
	v.Trace = s.Trace
	// everyone that was not killed must have entered exactly once and exited 0
	for _, id := range s.order {
		p := s.procs[id]
		if p.State == "killed" {
			continue
		}
		if p.State != "exited" {
			v.Inconclusive = "schedule budget exhausted: " + s.states()
			return v
		}
		if p.Cancelled && p.Entered == 0 && p.Code == 3 {
			continue // gave up waiting, as asked
		}
		if p.Entered == 1 && p.Code == 4 {
			v.Violation = "unlock-failed cause=" + s.causes()
			v.What = fmt.Sprintf("%s held the lock but its Unlock failed: its lock file had been removed by another contender", id)
			return v
		}
		if p.Entered != 1 || p.Code != 0 {
			v.Violation = fmt.Sprintf("contender-failed code=%d entered=%d", p.Code, p.Entered)
			v.What = fmt.Sprintf("%s exited %d after entering the critical section %d times", id, p.Code, p.Entered)
			return v
		}
	}
	if b, err := os.ReadFile(lockFile); err == nil && v.Kills == 0 {
		v.Violation = "lock-file-left-behind"
		v.What = fmt.Sprintf("all contenders finished but the lock file still exists with content %q", string(b))
	}
	return v
}

func orNone(s string) string {
	if s == "" {
		return "none"
	}
	return s
}

func (s *Sched) states() string {
	var xs []string
	for _, id := range s.order {
		p := s.procs[id]
		xs = append(xs, fmt.Sprintf("%s=%s@%s", id, p.State, p.Point))
	}
	return strings.Join(xs, " ")
}

func classifyLock(content string, s *Sched) string {
	c := strings.TrimSpace(content)
	if c == "" {
		return "empty"
	}
	for _, p := range s.procs {
		if p.cmd.Process != nil && fmt.Sprint(p.cmd.Process.Pid) == c {
			return "pid-of-" + p.State + "-contender"
		}
	}
	return "other"
}

func (s *Sched) causes() string {
	var cs []string
	for c := range s.Causes {
		cs = append(cs, c)
	}
	if len(cs) == 0 {
		return "unknown"
	}
	sort.Strings(cs)
	return strings.Join(cs, "+")
}
