package e6

import (
	"fmt"
	"os"
	"path/filepath"
	"regexp"
	"sort"
	"strconv"
	"strings"
	"time"

	"vctl/internal/e1"
	"vctl/internal/grog"
	"vctl/internal/report"
	"vctl/internal/rng"
	"vctl/internal/spec"
)

// absPattern turns a pattern as typed in cwd into an absolute one for the reference matcher.
func absPattern(cwd, p string) string {
	if strings.HasPrefix(p, ":") {
		return "//" + cwd + p
	}
	return p
}

type selQuery struct {
	Cmd         string   `json:"cmd"`
	Cwd         string   `json:"cwd"`
	Patterns    []string `json:"patterns"`
	Tags        []string `json:"tags,omitempty"`
	ExcludeTags []string `json:"exclude_tags,omitempty"`
	Platform    string   `json:"platform,omitempty"`
	AllPlat     bool     `json:"all_platforms,omitempty"`
}

func (q selQuery) args() []string {
	a := []string{q.Cmd}
	for _, t := range q.Tags {
		a = append(a, "--tag="+t)
	}
	for _, t := range q.ExcludeTags {
		a = append(a, "--exclude-tag="+t)
	}
	if q.Platform != "" {
		a = append(a, "--platform="+q.Platform)
	}
	if q.AllPlat {
		a = append(a, "--all-platforms")
	}
	return append(a, q.Patterns...)
}

type selRef struct {
	Must      map[string]bool // must be executed
	May       map[string]bool // reached only through a pattern-matched alias: not fixed by the statement
	PlatError bool            // a selected target has a platform-incompatible dependency
	Empty     bool
}

func anyIn(xs, ys []string) bool {
	for _, x := range xs {
		for _, y := range ys {
			if x == y {
				return true
			}
		}
	}
	return false
}

// refSelection is the reference selection written from the statement of C12.
func refSelection(s *spec.Spec, q selQuery) selRef {
	host := "linux/amd64"
	if q.Platform != "" {
		host = q.Platform
	}
	platOK := func(t *spec.Target) bool {
		pl := s.EffectivePlatforms(t)
		return q.AllPlat || len(pl) == 0 || anyIn(pl, []string{host})
	}
	pats := q.Patterns
	if len(pats) == 0 {
		pats = []string{"//..."}
	}
	match := func(pkg, name string) bool {
		for _, p := range pats {
			if e1.MatchPattern(absPattern(q.Cwd, p), pkg, name) {
				return true
			}
		}
		return false
	}
	ref := selRef{Must: map[string]bool{}, May: map[string]bool{}}
	var roots, aliasRoots []string
	for _, t := range s.Targets {
		isTest := strings.HasSuffix(t.Name, "test")
		if (q.Cmd == "test") != isTest {
			continue
		}
		if !match(t.Pkg, t.Name) {
			continue
		}
		if len(q.Tags) > 0 && !anyIn(q.Tags, t.Tags) {
			continue
		}
		if anyIn(q.ExcludeTags, t.Tags) {
			continue
		}
		if !platOK(t) {
			continue // skipped, not an error
		}
		roots = append(roots, t.Label())
	}
	for _, a := range s.Aliases {
		if match(a.Pkg, a.Name) {
			aliasRoots = append(aliasRoots, a.Label())
		}
	}
	ref.Must = s.Closure(roots)
	for l := range s.Closure(aliasRoots) {
		if !ref.Must[l] {
			ref.May[l] = true
		}
	}
	for l := range ref.Must {
		if !platOK(s.Target(l)) {
			ref.PlatError = true
		}
	}
	for l := range ref.May {
		if t := s.Target(l); t != nil && !platOK(t) {
			// whether this is an error depends on whether the alias counts as selected: not judged
			ref.May["(platform)"] = true
		}
	}
	ref.Empty = len(roots) == 0 && len(aliasRoots) == 0
	return ref
}

var selectedRe = regexp.MustCompile(`Selected (\d+) targets?`)

func genQuery(r *rng.R, s *spec.Spec) selQuery {
	q := selQuery{Cmd: "build"}
	if r.Chance(1, 4) {
		q.Cmd = "test"
	}
	pkgs := s.Packages()
	if r.Chance(1, 3) {
		q.Cwd = rng.Pick(r, pkgs)
	}
	np := r.Range(0, 3)
	for i := 0; i < np; i++ {
		switch r.Intn(8) {
		case 0:
			q.Patterns = append(q.Patterns, "//...")
		case 1:
			q.Patterns = append(q.Patterns, "//"+rng.Pick(r, pkgs)+"/...")
		case 2:
			q.Patterns = append(q.Patterns, "//"+rng.Pick(r, pkgs)+":all")
		case 3:
			t := rng.Pick(r, s.Targets)
			q.Patterns = append(q.Patterns, t.Label())
		case 4:
			t := rng.Pick(r, s.Targets)
			q.Patterns = append(q.Patterns, "//"+rng.Pick(r, pkgs)+"/...:"+t.Name)
		case 5:
			if len(s.Aliases) > 0 {
				q.Patterns = append(q.Patterns, rng.Pick(r, s.Aliases).Label())
			} else {
				q.Patterns = append(q.Patterns, ":all")
			}
		case 6:
			var here []*spec.Target
			for _, t := range s.Targets {
				if t.Pkg == q.Cwd {
					here = append(here, t)
				}
			}
			if len(here) > 0 {
				q.Patterns = append(q.Patterns, ":"+rng.Pick(r, here).Name)
			} else {
				q.Patterns = append(q.Patterns, ":all")
			}
		default:
			p := rng.Pick(r, pkgs)
			if p != "" {
				q.Patterns = append(q.Patterns, "//"+p) // shorthand //a/b == //a/b:b
			} else {
				q.Patterns = append(q.Patterns, "//:all")
			}
		}
	}
	// several patterns at once where one is a recursive wildcard of a package and another one
	// names something in a package whose path merely starts with the same characters (p / p2)
	if r.Chance(1, 5) {
		has := map[string]bool{}
		for _, p := range pkgs {
			has[p] = true
		}
		for _, pr := range [][2]string{{"p", "p2"}, {"a", "a/b"}} {
			if !has[pr[0]] || !has[pr[1]] {
				continue
			}
			var there []*spec.Target
			for _, t := range s.Targets {
				if t.Pkg == pr[1] {
					there = append(there, t)
				}
			}
			if len(there) == 0 {
				continue
			}
			t := rng.Pick(r, there)
			other := rng.Pick(r, []string{t.Label(), "//" + pr[1] + ":all", ":" + t.Name})
			if strings.HasPrefix(other, ":") {
				q.Cwd = pr[1]
			}
			q.Patterns = []string{"//" + pr[0] + "/...", other}
			if r.Chance(1, 2) {
				q.Patterns = []string{other, "//" + pr[0] + "/..."}
			}
			if r.Chance(1, 3) {
				q.Patterns = append(q.Patterns, "//"+pr[0]+":all")
			}
			break
		}
	}
	for i, p := range q.Patterns { // "///..." is not a documented spelling of the root package
		q.Patterns[i] = strings.Replace(p, "///...", "//...", 1)
	}
	all := []string{"fast", "slow", "ci"}
	if r.Chance(1, 3) {
		rng.Shuffle(r, all)
		q.Tags = append([]string{}, all[:r.Range(1, 2)]...)
	}
	if r.Chance(1, 3) {
		rng.Shuffle(r, all)
		for _, ex := range all[:r.Range(1, 3)] {
			if !anyIn(q.Tags, []string{ex}) {
				q.ExcludeTags = append(q.ExcludeTags, ex)
			}
		}
	}
	switch r.Intn(8) {
	case 0:
		q.Platform = "darwin/arm64"
	case 1:
		q.AllPlat = true
	case 2:
		q.Platform = rng.Pick(r, []string{"darwin/amd64", "linux/arm64", "windows/arm64", "linux/amd64"})
	}
	return q
}

// RunC12: selection is the pattern matches plus their dependency closure, nothing else.
func RunC12(tier string) int {
	run := report.New("C12", tier, "exploration",
		"seeded multi-package workspaces (prefix-sibling packages p/p2, nested packages, tags, test targets, platform selectors, aliases and alias chains) x invocations of grog build / grog test with pattern sets (absolute, relative from a sub-package cwd, recursive, :all, name-restricted recursive, shorthand, alias labels, several patterns), --tag, --exclude-tag, --platform, --all-platforms, each on an empty cache so that every selected target executes; 60 directories whose package is defined by two to four files at once built with //... over and over with 3..32 workers (every defined target runs exactly once); "+
			"oracle: executed set (command trace) == reference selection (pattern matches passing the filters + dependency closure through aliases); targets reached only through a pattern-matched alias are may-run; a platform-incompatible dependency must be an error with nothing executed; 'Selected N targets' must equal the executed count; "+
			"non-trivial = selection that is a proper non-empty subset of all targets; distinct = query shape + selection size")
	st, err := e1.Prepare(run, false)
	if err != nil {
		run.Infra(err.Error())
		return run.Finish()
	}
	defer st.Cleanup()
	n := tierN(tier, 500, 6000)
	e1.Parallel(n, func(i int) {
		r := rng.Derive(uint64(run.Seed), "C12", fmt.Sprint(i))
		pf := spec.DefaultProfile()
		pf.Tests, pf.UserTags, pf.Platforms = true, true, true
		pf.MinTargets, pf.MaxTargets, pf.MaxPackages = 5, 12, 5
		s := spec.Gen(r, pf)
		// package-level default_platforms in some packages (targets with their own selectors
		// override them)
		for _, pkg := range s.Packages() {
			if r.Chance(1, 4) {
				if s.DefaultPlatforms == nil {
					s.DefaultPlatforms = map[string][]string{}
				}
				s.DefaultPlatforms[pkg] = rng.Pick(r, [][]string{{"linux/amd64"}, {"darwin/arm64"}, {"linux/amd64", "darwin/arm64"}, {"windows/amd64", "linux/arm64"}})
			}
		}
		if len(s.DefaultPlatforms) > 0 {
			run.Count("workspaces_with_default_platforms", 1)
		}
		// overlapping outputs of two targets that are ordered by dependency (legal): a target
		// with several dependencies declares a directory output, one of its transitive
		// dependencies in the same package a file inside that directory. The analysis that has to
		// establish the order must leave the dependency edges alone.
		if r.Chance(1, 3) {
			for ti, t := range s.Targets {
				if len(t.Deps) < 2 {
					continue
				}
				var g *spec.Target
				for l := range s.Closure([]string{t.Label()}) {
					if c := s.Target(l); c != nil && c != t && c.Pkg == t.Pkg && (g == nil || c.Label() < g.Label()) {
						g = c
					}
				}
				if g == nil {
					continue
				}
				t.Outs = append(t.Outs, spec.Out{Kind: "dir", Path: fmt.Sprintf("ovl%d.d", ti)})
				g.Outs = append(g.Outs, spec.Out{Kind: "file", Path: fmt.Sprintf("ovl%d.d/inner.txt", ti)})
				run.Count("workspaces_with_ordered_overlapping_outputs", 1)
				break
			}
		}
		// a platform-restricted dependency must not make the generated graph itself invalid: fine, it is a selection-time error
		q := genQuery(r, s)
		env, err := e1.NewEnv(st.Base, fmt.Sprintf("s%d", i), st.Grog, st.Vctl, s, grog.Config{NumWorkers: 4})
		if err != nil {
			run.Infra(err.Error())
			return
		}
		defer env.Cleanup()
		ref := refSelection(s, q)
		res := env.M.Run(q.args(), grog.RunOpts{Cwd: q.Cwd, Build: "b1", Timeout: 25 * time.Second})
		run.Eval(1)
		run.Count("invocations", 1)
		run.Count("cmd:"+q.Cmd, 1)
		executed := map[string]bool{}
		if b, err := os.ReadFile(filepath.Join(env.Dir, "trace")); err == nil {
			for _, line := range strings.Split(string(b), "\n") {
				f := strings.Fields(line)
				if len(f) >= 3 && f[0] == "S" {
					executed[f[2]] = true
				}
			}
		}
		replay := map[string]any{"query": q, "args": q.args(), "targets": s.Targets, "aliases": s.Aliases, "stdout": tailS(res.Stdout, 1200), "stderr": tailS(res.Stderr, 600)}
		if c := res.Crashed(); c != "" {
			run.Count("divergence_other_property:crash", 1)
			return
		}
		if res.TimedOut {
			// the build did not finish: still a selection violation if part of the closure never ran
			run.Count("divergence_other_property:hang", 1)
			if !ref.PlatError && !ref.Empty && !ref.May["(platform)"] {
				for l := range ref.Must {
					if !executed[l] {
						run.Violation("selected-target-not-executed "+missingKind(s, q, l)+" (build did not finish)", fmt.Sprintf("%v never executed %s although it is selected, and the build did not exit within the cap", q.args(), l), replay)
						return
					}
				}
			}
			return
		}
		var exl []string
		for l := range executed {
			exl = append(exl, l)
		}
		sort.Strings(exl)
		if ref.PlatError {
			run.Count("platform_incompatible_dependency_cases", 1)
			if res.Exit == 0 || len(executed) > 0 {
				run.Violation("platform-incompatible-dependency-not-an-error", fmt.Sprintf("%v: exit=%d executed=%v although a selected target depends on a platform-incompatible target", q.args(), res.Exit, exl), replay)
			}
			run.Nontrivial(fmt.Sprintf("platerr|%d", len(ref.Must)))
			return
		}
		if ref.May["(platform)"] {
			run.Count("cases_not_judged(alias to platform-incompatible target)", 1)
			return
		}
		if ref.Empty {
			if len(executed) > 0 {
				run.Violation("executed-with-empty-selection", fmt.Sprintf("%v executed %v although nothing matches", q.args(), exl), replay)
			}
			run.Count("empty_selections", 1)
			return
		}
		for l := range executed {
			if !ref.Must[l] && !ref.May[l] {
				run.Violation("executed-outside-selection "+outsideKind(s, q, l), fmt.Sprintf("%v executed %s which is neither matched nor in the dependency closure", q.args(), l), replay)
				return
			}
		}
		for l := range ref.Must {
			if !executed[l] {
				run.Violation("selected-target-not-executed "+missingKind(s, q, l), fmt.Sprintf("%v did not execute %s (exit=%d) although it is selected; executed=%v", q.args(), l, res.Exit, exl), replay)
				return
			}
		}
		if m := selectedRe.FindStringSubmatch(res.Stdout + res.Stderr); m != nil {
			cnt, _ := strconv.Atoi(m[1])
			lo, hi := len(ref.Must), len(ref.Must)+len(ref.May)
			if cnt < lo || cnt > hi || cnt != len(executed) {
				run.Violation("selected-count-mismatch", fmt.Sprintf("%v printed 'Selected %d' but executed %d, reference %d..%d", q.args(), cnt, len(executed), lo, hi), replay)
				return
			}
		}
		if len(ref.Must) > 0 && len(ref.Must) < len(s.Targets) {
			run.Nontrivial(fmt.Sprintf("%s|p%d|t%d|e%d|%s|sel%d", q.Cmd, len(q.Patterns), len(q.Tags), len(q.ExcludeTags), q.Platform, len(ref.Must)))
		}
		run.Count("targets_selected_and_executed", len(executed))
		run.Sample(map[string]any{"query": q.args(), "cwd": q.Cwd, "executed": exl, "targets": len(s.Targets)})
	})
	if report.Part("storm") {
		multiFilePackagesPart(run, st, tier, "build")
	}
	run.Assume("targets reached only through an alias that itself matches a pattern are may-run (the statement speaks about matching targets)")
	return run.Finish()
}

func outsideKind(s *spec.Spec, q selQuery, l string) string {
	t := s.Target(l)
	if t == nil {
		return "unknown"
	}
	for _, p := range q.Patterns {
		ap := absPattern(q.Cwd, p)
		body := strings.TrimPrefix(ap, "//")
		if i := strings.Index(body, ":"); i >= 0 {
			body = body[:i]
		}
		body = strings.TrimSuffix(strings.TrimSuffix(body, "..."), "/")
		if body != "" && t.Pkg != body && strings.HasPrefix(t.Pkg, body) && !strings.HasPrefix(t.Pkg, body+"/") {
			return "prefix-sibling-package"
		}
	}
	return "other"
}

func missingKind(s *spec.Spec, q selQuery, l string) string {
	// is it only reachable through an alias?
	for _, t := range s.Targets {
		for _, d := range t.Deps {
			if s.Target(d) == nil && s.Resolve(d) == l {
				return "dependency-through-alias"
			}
		}
	}
	return "other"
}
