package e6

import (
	"fmt"
	"os"
	"path/filepath"
	"sort"
	"strings"

	"vctl/internal/e1"
	"vctl/internal/grog"
	"vctl/internal/report"
	"vctl/internal/rng"
	"vctl/internal/spec"
)

// nodeGraph is the dependency relation with aliases as nodes.
type nodeGraph struct {
	deps   map[string][]string
	isTgt  map[string]bool
	labels []string
}

func buildNodeGraph(s *spec.Spec) *nodeGraph {
	g := &nodeGraph{deps: map[string][]string{}, isTgt: map[string]bool{}}
	for _, t := range s.Targets {
		g.isTgt[t.Label()] = true
		g.labels = append(g.labels, t.Label())
		seen := map[string]bool{}
		for _, d := range t.Deps {
			if !seen[d] {
				seen[d] = true
				g.deps[t.Label()] = append(g.deps[t.Label()], d)
			}
		}
	}
	for _, a := range s.Aliases {
		g.labels = append(g.labels, a.Label())
		g.deps[a.Label()] = []string{a.Actual}
	}
	sort.Strings(g.labels)
	return g
}

func (g *nodeGraph) closure(l string, rev bool) map[string]bool {
	out := map[string]bool{}
	var visit func(n string)
	visit = func(n string) {
		var next []string
		if !rev {
			next = g.deps[n]
		} else {
			for _, x := range g.labels {
				for _, d := range g.deps[x] {
					if d == n {
						next = append(next, x)
					}
				}
			}
		}
		for _, x := range next {
			if !out[x] {
				out[x] = true
				visit(x)
			}
		}
	}
	visit(l)
	return out
}

func (g *nodeGraph) direct(l string, rev bool) map[string]bool {
	out := map[string]bool{}
	if !rev {
		for _, d := range g.deps[l] {
			out[d] = true
		}
		return out
	}
	for _, x := range g.labels {
		for _, d := range g.deps[x] {
			if d == l {
				out[x] = true
			}
		}
	}
	return out
}

func linesOf(s string) []string {
	var out []string
	for _, l := range strings.Split(s, "\n") {
		l = strings.TrimSpace(l)
		if strings.HasPrefix(l, "//") {
			out = append(out, l)
		}
	}
	return out
}

func typeOK(t *spec.Target, tt string) bool {
	switch tt {
	case "test":
		return strings.HasSuffix(t.Name, "test")
	case "no_test":
		return !strings.HasSuffix(t.Name, "test")
	case "bin_output":
		return t.Bin != ""
	}
	return true
}

// RunC20: query commands agree with the graph and predict rebuilds.
func RunC20(tier string) int {
	run := report.New("C20", tier, "exploration",
		"seeded multi-package workspaces with aliases, alias chains, globs with excludes, test and bin targets: for every node `grog deps`/`rdeps` with and without -t and with every --target-type; `grog owners` for every source file spelled relative to different working directories; `grog list` with --tag/--exclude-tag filters (one to three tags) and pattern sets and type filters; then one edited file followed by a build; a parent package with inputs (literal and **-glob) inside the directories of nested packages (owners from three working directories, edit + rebuild); 400 directories whose package is defined by two to four files at once listed over and over with 3..32 loader workers (every defined label each time); "+
			"oracle: reference graph with aliases as nodes (exact sets, each label printed once, x in deps(y) <=> y in rdeps(x) on grog's own answers), owners = targets whose resolved inputs contain the file, executed set after the edit must be inside grog's own owners(f) + transitive rdeps; alias lines under a type filter are may-print; "+
			"non-trivial = query with a non-empty expected answer; distinct = query kind + answer size + shape")
	st, err := e1.Prepare(run, false)
	if err != nil {
		run.Infra(err.Error())
		return run.Finish()
	}
	defer st.Cleanup()
	n := tierN(tier, 14, 300)
	e1.Parallel(n, func(i int) {
		r := rng.Derive(uint64(run.Seed), "C20", fmt.Sprint(i))
		pf := spec.DefaultProfile()
		pf.Tests, pf.UserTags = true, true
		pf.MinTargets, pf.MaxTargets, pf.EdgeProb = 5, 11, 40
		s := spec.Gen(r, pf)
		env, err := e1.NewEnv(st.Base, fmt.Sprintf("q%d", i), st.Grog, st.Vctl, s, grog.Config{NumWorkers: 4})
		if err != nil {
			run.Infra(err.Error())
			return
		}
		defer env.Cleanup()
		g := buildNodeGraph(s)
		stop := false
		viol := func(sig, what string, extra map[string]any) {
			extra["targets"] = s.Targets
			extra["aliases"] = s.Aliases
			run.Violation(sig, what, extra)
			stop = true
		}
		// the same workspace entered through a symlinked directory
		linkWS := filepath.Join(env.Dir, "ws_via_symlink")
		_ = os.Symlink(env.WS, linkWS)
		viaLink := *env.M
		viaLink.Workspace = linkWS
		useLink := false
		query := func(cwd string, args ...string) ([]string, *grog.Result) {
			m := env.M
			if useLink {
				m = &viaLink
			}
			res := m.Run(args, grog.RunOpts{Cwd: cwd, Build: "q"})
			run.Eval(1)
			run.Count("queries:"+args[0], 1)
			return linesOf(res.Stdout), res
		}
		answers := map[string]map[string]bool{} // "deps|-t|label" -> grog's answer
		types := []string{"all", "test", "no_test", "bin_output"}
		for _, l := range g.labels {
			for _, cmd := range []string{"deps", "rdeps"} {
				for _, trans := range []bool{false, true} {
					tt := "all"
					if r.Chance(1, 3) {
						tt = rng.Pick(r, types)
					}
					args := []string{cmd}
					if trans {
						args = append(args, "-t")
					}
					if tt != "all" {
						args = append(args, "--target-type="+tt)
					}
					args = append(args, l)
					lines, res := query("", args...)
					if res.Exit != 0 || res.Crashed() != "" {
						viol("query-failed cmd="+cmd, fmt.Sprintf("grog %v exited %d: %s", args, res.Exit, tailS(res.Stdout+res.Stderr, 300)), map[string]any{"args": args})
						return
					}
					var want map[string]bool
					if trans {
						want = g.closure(l, cmd == "rdeps")
					} else {
						want = g.direct(l, cmd == "rdeps")
					}
					got := map[string]bool{}
					for _, x := range lines {
						if got[x] {
							viol(fmt.Sprintf("label-printed-twice cmd=%s transitive=%v", cmd, trans), fmt.Sprintf("grog %v printed %s more than once", args, x), map[string]any{"args": args, "output": lines})
							return
						}
						got[x] = true
					}
					for x := range want {
						isT := g.isTgt[x]
						if isT && !typeOK(s.Target(x), tt) {
							if got[x] {
								viol("filtered-target-printed cmd="+cmd, fmt.Sprintf("grog %v printed %s which does not pass --target-type=%s", args, x, tt), map[string]any{"args": args, "output": lines})
								return
							}
							continue
						}
						if !isT && tt != "all" {
							continue // alias line under a type filter: may
						}
						if !got[x] {
							viol(fmt.Sprintf("missing-label cmd=%s transitive=%v", cmd, trans), fmt.Sprintf("grog %v did not print %s", args, x), map[string]any{"args": args, "output": lines})
							return
						}
					}
					for x := range got {
						if !want[x] {
							viol(fmt.Sprintf("extra-label cmd=%s transitive=%v", cmd, trans), fmt.Sprintf("grog %v printed %s which is not in the reference set", args, x), map[string]any{"args": args, "output": lines})
							return
						}
					}
					if tt == "all" {
						answers[fmt.Sprintf("%s|%v|%s", cmd, trans, l)] = got
					}
					if len(want) > 0 {
						run.Nontrivial(fmt.Sprintf("%s|%v|%s|%d|%s", cmd, trans, tt, len(want), s.Shape()))
					}
				}
			}
		}
		// mutual inverse on grog's own answers
		for _, x := range g.labels {
			for _, trans := range []bool{false, true} {
				dx, ok1 := answers[fmt.Sprintf("deps|%v|%s", trans, x)]
				if !ok1 {
					continue
				}
				for y := range dx {
					ry, ok2 := answers[fmt.Sprintf("rdeps|%v|%s", trans, y)]
					if ok2 && !ry[x] {
						viol("deps-rdeps-not-inverse", fmt.Sprintf("%s is in deps(%s) but %s is not in rdeps(%s) (transitive=%v)", y, x, x, y, trans), map[string]any{})
						return
					}
				}
			}
		}
		// owners
		var files []string
		for f := range s.Files {
			files = append(files, f)
		}
		sort.Strings(files)
		ownersRef := func(f string) map[string]bool {
			out := map[string]bool{}
			for _, t := range s.Targets {
				pre := ""
				if t.Pkg != "" {
					pre = t.Pkg + "/"
				}
				for _, in := range s.ResolveInputsVirtual(t) {
					if !in.Missing && pre+in.Path == f {
						out[t.Label()] = true
					}
				}
			}
			return out
		}
		ownersGot := map[string]map[string]bool{}
		for _, f := range files {
			cwd := ""
			arg := f
			if r.Chance(1, 2) {
				// spell the path relative to the file's directory or its package
				cwd = filepath.ToSlash(filepath.Dir(f))
				if cwd == "." {
					cwd = ""
				}
				arg = filepath.Base(f)
				if r.Chance(1, 2) {
					arg = "./" + arg
				}
			}
			useLink = r.Chance(1, 3)
			lines, res := query(cwd, "owners", arg)
			useLink = false
			if res.Exit != 0 {
				viol("query-failed cmd=owners", fmt.Sprintf("grog owners %s (cwd %q) exited %d: %s", arg, cwd, res.Exit, tailS(res.Stdout+res.Stderr, 300)), map[string]any{"file": f})
				return
			}
			got := map[string]bool{}
			for _, x := range lines {
				got[x] = true
			}
			want := ownersRef(f)
			for x := range want {
				if !got[x] {
					viol("owners-missing-target", fmt.Sprintf("grog owners %s (cwd %q) did not print %s whose resolved inputs contain the file", arg, cwd, x), map[string]any{"file": f, "output": lines})
					return
				}
			}
			for x := range got {
				if !want[x] {
					viol("owners-extra-target", fmt.Sprintf("grog owners %s (cwd %q) printed %s whose resolved inputs do not contain the file", arg, cwd, x), map[string]any{"file": f, "output": lines})
					return
				}
			}
			ownersGot[f] = got
			if len(want) > 0 {
				run.Nontrivial(fmt.Sprintf("owners|%d|%s", len(want), s.Shape()))
			}
		}
		// list
		for k := 0; k < 10; k++ {
			q := genQuery(r, s)
			tt := rng.Pick(r, types)
			args := []string{"list"}
			if tt != "all" {
				args = append(args, "--target-type="+tt)
			}
			for _, tg := range q.Tags {
				args = append(args, "--tag="+tg)
			}
			for _, tg := range q.ExcludeTags {
				args = append(args, "--exclude-tag="+tg)
			}
			if len(q.Tags)+len(q.ExcludeTags) > 0 {
				run.Count("list_queries_with_tag_filters", 1)
			}
			pats := q.Patterns
			args = append(args, pats...)
			lines, res := query(q.Cwd, args...)
			if res.Exit != 0 {
				continue
			}
			if len(pats) == 0 {
				pats = []string{":all"}
			}
			got := map[string]bool{}
			for _, x := range lines {
				got[x] = true
			}
			for _, t := range s.Targets {
				m := false
				for _, p := range pats {
					if e1.MatchPattern(absPattern(q.Cwd, p), t.Pkg, t.Name) {
						m = true
					}
				}
				want := m && typeOK(t, tt) && (len(q.Tags) == 0 || anyIn(q.Tags, t.Tags)) && !anyIn(q.ExcludeTags, t.Tags)
				if want != got[t.Label()] {
					kind := "list-missing-target"
					if !want {
						kind = "list-extra-target"
					}
					viol(kind, fmt.Sprintf("grog %v (cwd %q): %s want=%v got=%v", args, q.Cwd, t.Label(), want, got[t.Label()]), map[string]any{"args": args, "output": lines})
					return
				}
				if want {
					run.Nontrivial(fmt.Sprintf("list|%s|%d", tt, len(lines)))
				}
			}
		}
		if stop {
			return
		}
		// rebuild prediction: edit one file, executed set must be inside owners(f) + rdeps*(owners(f))
		cfg := e1.BuildCfg{EnableCache: true}
		if _, obs, _, err := env.Step(e1.BuildOpts{}, cfg, "cold", false); err != nil || obs.Res.Exit != 0 {
			return
		}
		if len(files) == 0 {
			return
		}
		f := rng.Pick(r, files)
		env.Spec.Files[f] = env.Spec.Files[f] + "edit"
		env.Logf("edit %s", f)
		_, obs, _, err := env.Step(e1.BuildOpts{}, cfg, "edit", false)
		if err != nil {
			return
		}
		run.Eval(1)
		allowed := map[string]bool{}
		for o := range ownersGot[f] {
			allowed[o] = true
			lines, _ := query("", "rdeps", "-t", o)
			for _, x := range lines {
				allowed[x] = true
			}
		}
		for l := range obs.Started {
			if !allowed[l] {
				viol("rebuild-outside-owners-rdeps", fmt.Sprintf("after editing %s the build executed %s, which is neither in grog owners(f) nor in their transitive rdeps", f, l), map[string]any{"file": f, "owners": ownersGot[f]})
				return
			}
		}
		run.Count("edit_rebuilds_checked", 1)
		_ = os.Remove("")
		run.Sample(map[string]any{"case": i, "shape": s.Shape(), "nodes": g.labels})
	})
	if report.Part("storm") {
		multiFilePackagesPart(run, st, tier, "list")
	}
	if report.Part("nested") {
		nestedOwnersPart(run, st)
	}
	run.Assume("aliases are nodes of the dependency relation; whether an alias line passes a --target-type filter is not fixed by the statement (may-print)")
	return run.Finish()
}
