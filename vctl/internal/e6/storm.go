package e6

import (
	"fmt"
	"os"
	"path/filepath"
	"sort"
	"strings"
	"time"

	"vctl/internal/e1"
	"vctl/internal/grog"
	"vctl/internal/report"
)

// multiFilePackagesPart: many directories whose package is defined by several files at once
// (list: two or three *.grog.sh scripts, some with a BUILD.json and a BUILD.yaml next to them; build: BUILD.json + BUILD.yaml + BUILD.yml, some with a script), loaded
// with many workers, again and again. Every file is parsed by its own loader task and merged into
// the package of its directory, so this is where the loader's shared state is under pressure.
// mode "list": `grog list //...` must print every defined label each time (C20).
// mode "build": `grog build //...` on an empty cache must run every defined target's command (C12).
func multiFilePackagesPart(run *report.Run, st *e1.Setup, tier, mode string) {
	dirs, rounds := 400, tierN(tier, 10, 60)
	if mode == "build" {
		dirs, rounds = 60, tierN(tier, 5, 30)
	}
	base := filepath.Join(st.Base, "storm-"+mode)
	ws := filepath.Join(base, "ws")
	defer os.RemoveAll(base)
	trace := filepath.Join(base, "trace")
	var want []string
	for k := 0; k < dirs; k++ {
		pkg := fmt.Sprintf("d%03d", k)
		if k%5 == 0 {
			pkg = fmt.Sprintf("n%02d/d%03d", k%7, k)
		}
		pd := filepath.Join(ws, filepath.FromSlash(pkg))
		_ = os.MkdirAll(pd, 0755)
		ns := 2 + k%2
		if mode == "build" {
			ns = k % 2 // (a script target has no command: it is only listed, never executed)
		}
		for si := 0; si < ns; si++ {
			name := fmt.Sprintf("s%d", si)
			script := fmt.Sprintf("#!/bin/sh\n# @grog\n# name: %s\necho hi\n", name)
			_ = os.WriteFile(filepath.Join(pd, name+".grog.sh"), []byte(script), 0755)
			if mode != "build" {
				want = append(want, "//"+pkg+":"+name)
			}
		}
		if k%3 == 0 || mode == "build" {
			cmd := fmt.Sprintf("echo //%s:j >> '%s'", pkg, trace)
			_ = os.WriteFile(filepath.Join(pd, "BUILD.json"), []byte(fmt.Sprintf(`{"targets":[{"name":"j","command":%q}]}`, cmd)), 0644)
			want = append(want, "//"+pkg+":j")
		}
		if k%4 == 0 || mode == "build" {
			cmd := fmt.Sprintf("echo //%s:y >> '%s'", pkg, trace)
			_ = os.WriteFile(filepath.Join(pd, "BUILD.yaml"), []byte(fmt.Sprintf("targets:\n  - name: y\n    command: %q\n", cmd)), 0644)
			want = append(want, "//"+pkg+":y")
		}
		if mode == "build" {
			cmd := fmt.Sprintf("echo //%s:z >> '%s'", pkg, trace)
			_ = os.WriteFile(filepath.Join(pd, "BUILD.yml"), []byte(fmt.Sprintf("targets:\n  - name: z\n    command: %q\n", cmd)), 0644)
			want = append(want, "//"+pkg+":z")
		}
	}
	sort.Strings(want)
	for round := 0; round < rounds; round++ {
		w := []int{32, 16, 8, 3}[round%4]
		_ = os.WriteFile(filepath.Join(ws, "grog.toml"), []byte(fmt.Sprintf("num_workers = %d\n", w)), 0644)
		d := filepath.Join(base, fmt.Sprintf("r%d", round))
		m := &grog.Machine{Bin: st.Grog, Workspace: ws, Root: filepath.Join(d, "root"), Home: filepath.Join(d, "home"), Trace: filepath.Join(d, "vtrace"), VctlBin: st.Vctl}
		_ = os.MkdirAll(m.Home, 0755)
		_ = os.Remove(trace)
		args := []string{"list", "//..."}
		if mode == "build" {
			args = []string{"build", "//..."}
		}
		res := m.Run(args, grog.RunOpts{Build: "s", Timeout: 180 * time.Second})
		run.Eval(1)
		run.Count("multi_file_package_loads", 1)
		var got []string
		if mode == "build" {
			b, _ := os.ReadFile(trace)
			got = linesOf(string(b))
		} else {
			got = linesOf(res.Stdout)
		}
		sort.Strings(got)
		_ = os.RemoveAll(d)
		replay := map[string]any{"num_workers": w, "round": round, "directories": dirs, "defined": len(want), "seen": len(got), "output": tailS(res.Stdout+res.Stderr, 600)}
		if c := res.Crashed(); c != "" {
			run.Violation("crash-loading-multi-file-packages", "grog "+args[0]+" crashed on a workspace whose packages are defined by several files each: "+c, replay)
			return
		}
		if res.TimedOut {
			run.Inconclusive("multi-file package " + mode + " did not finish within the cap")
			return
		}
		if res.Exit != 0 && strings.Contains(res.Stdout+res.Stderr, "WaitDelay expired before I/O complete") {
			// grog's one-second (wall clock) grace for draining a finished command's output ran
			// out: machine load, not the loader
			run.Count("storm_rounds_not_judged(load: output drain exceeded grog's grace)", 1)
			continue
		}
		if res.Exit != 0 {
			run.Violation("multi-file-packages-rejected", fmt.Sprintf("grog %s //... exited %d on a well-formed workspace whose packages are defined by several files each: %s", args[0], res.Exit, tailS(res.Stdout+res.Stderr, 300)), replay)
			return
		}
		if strings.Join(got, "\n") != strings.Join(want, "\n") {
			gs := map[string]int{}
			for _, x := range got {
				gs[x]++
			}
			var missing, extra []string
			for _, x := range want {
				if gs[x] == 0 {
					missing = append(missing, x)
				}
				if gs[x] > 1 {
					extra = append(extra, x)
				}
			}
			replay["missing"], replay["more_than_once"] = missing, extra
			if mode == "build" {
				run.Violation("selected-target-not-executed_multi-file-package", fmt.Sprintf("grog build //... reported success but %d of the %d defined targets did not run exactly once (num_workers=%d); first: %v", len(missing)+len(extra), len(want), w, append(missing, extra...)[:1]), replay)
			} else {
				run.Violation("list-missing-target_multi-file-package", fmt.Sprintf("grog list //... printed %d of the %d labels defined in the workspace (num_workers=%d); first missing: %v", len(got), len(want), w, append(missing, extra...)[:1]), replay)
			}
			return
		}
		run.Nontrivial(fmt.Sprintf("storm|%s|w%d", mode, w))
	}
}

// nestedOwnersPart (C20): a parent package that lists an input living inside the directory of a
// nested package (legal: inputs are paths below the package directory), and a nested package that
// uses the same file. owners(f) must name both; after editing f the executed set must stay inside
// owners(f) + their transitive rdeps.
func nestedOwnersPart(run *report.Run, st *e1.Setup) {
	base := filepath.Join(st.Base, "nested-owners")
	ws := filepath.Join(base, "ws")
	defer os.RemoveAll(base)
	trace := filepath.Join(base, "trace")
	mk := func(rel, content string) {
		p := filepath.Join(ws, filepath.FromSlash(rel))
		_ = os.MkdirAll(filepath.Dir(p), 0755)
		_ = os.WriteFile(p, []byte(content), 0644)
	}
	tr := func(l string) string { return fmt.Sprintf("echo %s >> '%s'", l, trace) }
	mk("grog.toml", "num_workers = 2\n")
	mk("app/BUILD.json", fmt.Sprintf(`{"targets":[
 {"name":"bundle","inputs":["assets/logo.txt","assets/deep/more.txt","main.txt"],"command":"cat assets/logo.txt main.txt > bundle.out; %s","outputs":["bundle.out"]},
 {"name":"image","dependencies":[":bundle"],"command":"cp bundle.out image.out; %s","outputs":["image.out"]},
 {"name":"globber","inputs":["assets/**/*.txt"],"command":"%s"}]}`, tr("//app:bundle"), tr("//app:image"), tr("//app:globber")))
	mk("app/assets/BUILD.json", fmt.Sprintf(`{"targets":[{"name":"sprites","inputs":["logo.txt"],"command":"cp logo.txt sprites.out; %s","outputs":["sprites.out"]},{"name":"other","inputs":["unrelated.txt"],"command":"%s"}]}`, tr("//app/assets:sprites"), tr("//app/assets:other")))
	mk("app/assets/deep/BUILD.json", fmt.Sprintf(`{"targets":[{"name":"d","inputs":["*.txt"],"command":"%s"}]}`, tr("//app/assets/deep:d")))
	// a target whose name is as long as a file name may get (its log file still fits, the names
	// derived from "package:name" do not): bookkeeping that cannot stat such a name must not turn
	// into "rebuild it every time"
	long := "l" + strings.Repeat("x", 247)
	mk("longpkgname/BUILD.json", fmt.Sprintf(`{"targets":[{"name":%q,"inputs":["x.txt"],"command":"%s"}]}`, long, tr("//longpkgname:LONG")))
	mk("longpkgname/x.txt", "x\n")
	mk("app/assets/logo.txt", "logo v1\n")
	mk("app/assets/unrelated.txt", "u\n")
	mk("app/assets/deep/more.txt", "more v1\n")
	mk("app/main.txt", "main\n")
	m := &grog.Machine{Bin: st.Grog, Workspace: ws, Root: filepath.Join(base, "root"), Home: filepath.Join(base, "home"), Trace: filepath.Join(base, "vtrace"), VctlBin: st.Vctl}
	_ = os.MkdirAll(m.Home, 0755)
	wantOwners := map[string][]string{
		"app/assets/logo.txt":      {"//app/assets:sprites", "//app:bundle", "//app:globber"},
		"app/assets/deep/more.txt": {"//app/assets/deep:d", "//app:bundle", "//app:globber"},
		"app/assets/unrelated.txt": {"//app/assets:other", "//app:globber"},
		"app/main.txt":             {"//app:bundle"},
	}
	var files []string
	for f := range wantOwners {
		files = append(files, f)
	}
	sort.Strings(files)
	ownersGot := map[string][]string{}
	for _, f := range files {
		for _, cwd := range []string{"", filepath.ToSlash(filepath.Dir(f)), "app"} {
			arg := f
			if cwd != "" {
				arg, _ = filepath.Rel(cwd, f)
			}
			res := m.Run([]string{"owners", arg}, grog.RunOpts{Cwd: cwd, Build: "q", Timeout: 30 * time.Second})
			run.Eval(1)
			run.Count("queries:owners(nested)", 1)
			got := linesOf(res.Stdout)
			sort.Strings(got)
			want := append([]string{}, wantOwners[f]...)
			sort.Strings(want)
			replay := map[string]any{"file": f, "cwd": cwd, "argument": arg, "want": want, "got": got, "output": tailS(res.Stdout+res.Stderr, 300)}
			if res.Exit != 0 {
				run.Violation("query-failed cmd=owners", fmt.Sprintf("grog owners %s (cwd %q) exited %d", arg, cwd, res.Exit), replay)
				return
			}
			if strings.Join(got, " ") != strings.Join(want, " ") {
				kind := "owners-missing-target"
				if len(got) > len(want) {
					kind = "owners-extra-target"
				}
				run.Violation(kind+"_input-inside-a-nested-package", fmt.Sprintf("grog owners %s (cwd %q) printed %v; the targets whose resolved inputs contain the file are %v", arg, cwd, got, want), replay)
				return
			}
			ownersGot[f] = got
			run.Nontrivial("owners-nested|" + f + "|" + cwd)
		}
	}
	if res := m.Run([]string{"build", "//..."}, grog.RunOpts{Build: "b0", Timeout: 60 * time.Second}); res.Exit != 0 {
		run.Inconclusive("nested-owners workspace did not build: " + tailS(res.Stdout+res.Stderr, 200))
		return
	}
	// a taint placed and consumed before the edits (the cache's taint area exists from now on)
	if res := m.Run([]string{"taint", "//app:image"}, grog.RunOpts{Build: "t", Timeout: 30 * time.Second}); res.Exit == 0 {
		_ = m.Run([]string{"build", "//..."}, grog.RunOpts{Build: "b0t", Timeout: 60 * time.Second})
	}
	for _, f := range []string{"app/assets/logo.txt", "app/assets/deep/more.txt"} {
		_ = os.Remove(trace)
		mk(f, "edited "+f+"\n")
		res := m.Run([]string{"build", "//..."}, grog.RunOpts{Build: "b1", Timeout: 60 * time.Second})
		run.Eval(1)
		if res.Exit != 0 {
			run.Inconclusive("nested-owners rebuild failed: " + tailS(res.Stdout+res.Stderr, 200))
			return
		}
		allowed := map[string]bool{}
		for _, o := range ownersGot[f] {
			allowed[o] = true
			r2 := m.Run([]string{"rdeps", "-t", o}, grog.RunOpts{Build: "q", Timeout: 30 * time.Second})
			for _, x := range linesOf(r2.Stdout) {
				allowed[x] = true
			}
		}
		b, _ := os.ReadFile(trace)
		for _, l := range linesOf(string(b)) {
			if !allowed[l] {
				run.Violation("rebuild-outside-owners-rdeps", fmt.Sprintf("after editing %s the build executed %s, which is neither in grog owners(f) nor in their transitive rdeps", f, l), map[string]any{"file": f, "owners": ownersGot[f], "executed": linesOf(string(b))})
				return
			}
		}
		run.Count("edit_rebuilds_checked", 1)
	}
}
