package e6

import (
	"encoding/json"
	"fmt"
	"os"
	"path/filepath"
	"sort"
	"strings"
	"time"

	"vctl/internal/e1"
	"vctl/internal/e2"
	"vctl/internal/grog"
	"vctl/internal/report"
	"vctl/internal/rng"
)

func init() { e2.C17ProcessPart = c17ProcessPart }

// c17ProcessPart confirms the label / pattern algebra at the command line: the label parser and
// the pattern parser are two pieces of code, and labels reach the first one from several places
// (arguments of deps / rdeps, dependency entries of BUILD files, alias targets).
func c17ProcessPart(run *report.Run, tier string) {
	g, err := grog.Binary("v")
	if err != nil {
		run.Infra(err.Error())
		return
	}
	base, err := os.MkdirTemp(e1.Scratch(), "verif-C17-")
	if err != nil {
		run.Infra(err.Error())
		return
	}
	defer os.RemoveAll(base)
	if rp, err := filepath.EvalSymlinks(base); err == nil {
		base = rp
	}
	pkgs := []string{"", "a", "b", "ab", "a/b", "a/b/c", "a/b/c/d", "a.b", "a/bc", "p", "p2", "p/sub", "p2/sub", "p2/sub/deep", "x/a", "x/a/b"}
	nameFor := func(pkg string) []string {
		ns := []string{"t", "all_x"}
		if pkg != "" {
			parts := strings.Split(pkg, "/")
			ns = append(ns, parts[len(parts)-1]) // the shorthand target
			if len(parts) > 1 {
				ns = append(ns, parts[0]) // a name that equals another component
			}
		} else {
			ns = append(ns, "a", "p")
		}
		return ns
	}
	type tgt struct {
		Name    string   `json:"name"`
		Command string   `json:"command"`
		Deps    []string `json:"dependencies,omitempty"`
	}
	type nodeT struct{ pkg, name string }
	var universe []nodeT
	n := tierN(tier, 3, 12)
	e1.Parallel(n, func(ci int) {
		r := rng.Derive(uint64(run.Seed), "C17-proc", fmt.Sprint(ci))
		dir := filepath.Join(base, fmt.Sprintf("w%d", ci))
		ws := filepath.Join(dir, "ws")
		var nodes []nodeT
		perPkg := map[string][]tgt{}
		for _, p := range pkgs {
			seen := map[string]bool{}
			for _, nm := range nameFor(p) {
				if seen[nm] {
					continue
				}
				seen[nm] = true
				nodes = append(nodes, nodeT{p, nm})
				perPkg[p] = append(perPkg[p], tgt{Name: nm, Command: "true"})
			}
		}
		if ci == 0 {
			universe = nodes
		}
		lbl := func(n nodeT) string { return "//" + n.pkg + ":" + n.name }
		// dependencies written in every documented label form; the expected resolution is kept
		type edge struct{ from, spelled, want string }
		var edges []edge
		for k := 0; k < 24; k++ {
			from := nodes[r.Intn(len(nodes))]
			to := nodes[r.Intn(len(nodes))]
			if lbl(from) >= lbl(to) { // acyclic: edges point to larger labels only
				from, to = to, from
			}
			if lbl(from) == lbl(to) {
				continue
			}
			spelled := lbl(to)
			parts := strings.Split(to.pkg, "/")
			switch {
			case to.pkg != "" && to.name == parts[len(parts)-1] && r.Chance(2, 3):
				spelled = "//" + to.pkg // shorthand
			case to.pkg == from.pkg && r.Chance(2, 3):
				spelled = ":" + to.name // relative
			}
			dup := false
			for _, e := range edges {
				if e.from == lbl(from) && e.want == lbl(to) {
					dup = true
				}
			}
			if dup {
				continue
			}
			edges = append(edges, edge{lbl(from), spelled, lbl(to)})
			ts := perPkg[from.pkg]
			for i := range ts {
				if ts[i].Name == from.name {
					ts[i].Deps = append(ts[i].Deps, spelled)
				}
			}
		}
		for p, ts := range perPkg {
			d := filepath.Join(ws, filepath.FromSlash(p))
			_ = os.MkdirAll(d, 0755)
			b, _ := json.Marshal(map[string]any{"targets": ts})
			_ = os.WriteFile(filepath.Join(d, "BUILD.json"), b, 0644)
		}
		_ = os.WriteFile(filepath.Join(ws, "grog.toml"), []byte("num_workers = 2\n"), 0644)
		m := &grog.Machine{Bin: g, Workspace: ws, Root: filepath.Join(dir, "root"), Home: filepath.Join(dir, "home"), Trace: filepath.Join(dir, "trace")}
		_ = os.MkdirAll(m.Home, 0755)
		lines := func(s string) []string {
			var out []string
			for _, l := range strings.Split(s, "\n") {
				l = strings.TrimSpace(l)
				if strings.HasPrefix(l, "//") {
					out = append(out, l)
				}
			}
			sort.Strings(out)
			return out
		}
		// (a) patterns through `grog list`, typed in different packages
		var pats []string
		for _, p := range pkgs {
			pats = append(pats, "//"+p+":all", "//"+p+":...", "//"+p+":t")
			if p != "" {
				pats = append(pats, "//"+p+"/...", "//"+p+"/...:t", "//"+p)
				parts := strings.Split(p, "/")
				pats = append(pats, "//"+p+"/...:"+parts[len(parts)-1], "//"+p+":"+parts[0])
			}
		}
		pats = append(pats, "//...", "//...:t", "//...:a", "//...:all_x", ":all", ":t", ":...", ":a", ":sub", ":deep")
		rng.Shuffle(r, pats)
		np := tierN(tier, 40, len(pats))
		if np > len(pats) {
			np = len(pats)
		}
		for _, pat := range pats[:np] {
			cwd := ""
			if strings.HasPrefix(pat, ":") || r.Chance(1, 4) {
				cwd = pkgs[r.Intn(len(pkgs))]
			}
			abs := pat
			if strings.HasPrefix(pat, ":") {
				abs = "//" + cwd + pat
			}
			res := m.Run([]string{"list", pat}, grog.RunOpts{Cwd: cwd, Build: "q", Timeout: 30 * time.Second})
			run.Eval(1)
			run.Count("cli_pattern_queries", 1)
			var want []string
			for _, nd := range nodes {
				if e1.MatchPattern(abs, nd.pkg, nd.name) {
					want = append(want, lbl(nd))
				}
			}
			sort.Strings(want)
			got := lines(res.Stdout)
			replay := map[string]any{"pattern": pat, "cwd": cwd, "want": want, "got": got, "output": tailS(res.Stdout+res.Stderr, 400)}
			if c := res.Crashed(); c != "" {
				run.Violation("cli-crash cmd=list", "grog list crashed on pattern "+pat+": "+c, replay)
				continue
			}
			if res.Exit != 0 && len(want) > 0 {
				run.Violation("cli-pattern-rejected", fmt.Sprintf("grog list %q (typed in package %q) exited %d although the pattern is in a documented form and matches %d targets: %s", pat, cwd, res.Exit, len(want), tailS(res.Stdout+res.Stderr, 200)), replay)
				continue
			}
			if res.Exit == 0 && strings.Join(want, " ") != strings.Join(got, " ") {
				kind := "cli-pattern-match-missing"
				ws := map[string]bool{}
				for _, w := range want {
					ws[w] = true
				}
				for _, x := range got {
					if !ws[x] {
						kind = "cli-pattern-match-extra"
					}
				}
				run.Violation(kind, fmt.Sprintf("grog list %q (typed in package %q) printed %v, the documented semantics give %v", pat, cwd, got, want), replay)
				continue
			}
			if len(want) > 0 {
				run.Nontrivial("cli-pattern|" + pat + "|" + cwd)
			}
		}
		// (a2) several patterns on one command line select the union of what each selects alone
		// (recursive patterns with different name parts on disjoint sub-trees, nested ones, mixes)
		var recs []string
		for _, p := range pats {
			if strings.HasPrefix(p, "//") && strings.Contains(p, "...") {
				recs = append(recs, p)
			}
		}
		sort.Strings(recs)
		for k := 0; k < tierN(tier, 30, 120); k++ {
			var combo []string
			for len(combo) < 2+r.Intn(3) {
				if r.Chance(3, 4) {
					combo = append(combo, recs[r.Intn(len(recs))])
				} else if p := pats[r.Intn(len(pats))]; strings.HasPrefix(p, "//") {
					combo = append(combo, p)
				}
			}
			res := m.Run(append([]string{"list"}, combo...), grog.RunOpts{Build: "q", Timeout: 30 * time.Second})
			run.Eval(1)
			run.Count("cli_multi_pattern_queries", 1)
			var want []string
			for _, nd := range nodes {
				for _, p := range combo {
					if e1.MatchPattern(p, nd.pkg, nd.name) {
						want = append(want, lbl(nd))
						break
					}
				}
			}
			sort.Strings(want)
			got := lines(res.Stdout)
			replay := map[string]any{"patterns": combo, "want": want, "got": got, "output": tailS(res.Stdout+res.Stderr, 400)}
			switch {
			case res.Crashed() != "":
				run.Violation("cli-crash cmd=list", "grog list crashed on patterns "+strings.Join(combo, " ")+": "+res.Crashed(), replay)
			case res.Exit != 0 && len(want) > 0:
				run.Violation("cli-pattern-rejected", fmt.Sprintf("grog list %v exited %d although every pattern is in a documented form: %s", combo, res.Exit, tailS(res.Stdout+res.Stderr, 200)), replay)
			case res.Exit == 0 && strings.Join(want, " ") != strings.Join(got, " "):
				run.Violation("cli-multi-pattern-is-not-the-union", fmt.Sprintf("grog list %v printed %d labels, the union of what the patterns match one by one has %d", combo, len(got), len(want)), replay)
			case len(want) > 0:
				run.Nontrivial("cli-multi-pattern|" + strings.Join(combo, " "))
			}
		}
		// (a3) strings that are no pattern at all (empty name after the colon, text after the
		// recursive wildcard) are rejected - alone and when every argument is one of them; they never
		// select anything, let alone everything
		bad := []string{"//p:", "//p/...x", "//p/...:", "//a/b:", "//p2/sub/...:", "//...:", "//x/a/...b"}
		for k := 0; k < tierN(tier, 8, 40); k++ {
			var combo []string
			for len(combo) < 1+r.Intn(3) {
				combo = append(combo, bad[r.Intn(len(bad))])
			}
			res := m.Run(append([]string{"list"}, combo...), grog.RunOpts{Build: "q", Timeout: 30 * time.Second})
			run.Eval(1)
			run.Count("cli_ill_formed_pattern_queries", 1)
			got := lines(res.Stdout)
			replay := map[string]any{"arguments": combo, "exit": res.Exit, "printed": got, "output": tailS(res.Stdout+res.Stderr, 400)}
			switch {
			case res.Crashed() != "":
				run.Violation("cli-crash cmd=list", "grog list crashed on "+strings.Join(combo, " ")+": "+res.Crashed(), replay)
			case res.Exit == 0 || len(got) > 0:
				run.Violation("cli-ill-formed-pattern-accepted", fmt.Sprintf("grog list %v exited %d and printed %d labels; none of the arguments is a pattern", combo, res.Exit, len(got)), replay)
			default:
				run.Nontrivial("cli-ill-formed|" + strings.Join(combo, " "))
			}
		}
		// (b) labels written in BUILD files in every documented form resolve to the intended node:
		// `grog deps` of the dependant (given once canonically, once in shorthand / relative form)
		byFrom := map[string][]edge{}
		for _, e := range edges {
			byFrom[e.from] = append(byFrom[e.from], e)
		}
		var froms []string
		for f := range byFrom {
			froms = append(froms, f)
		}
		sort.Strings(froms)
		for _, f := range froms {
			var want []string
			for _, e := range byFrom[f] {
				want = append(want, e.want)
			}
			sort.Strings(want)
			pkg := strings.TrimPrefix(f[:strings.Index(f, ":")], "//")
			name := f[strings.Index(f, ":")+1:]
			forms := []struct{ arg, cwd string }{{f, ""}, {":" + name, pkg}}
			if parts := strings.Split(pkg, "/"); pkg != "" && parts[len(parts)-1] == name {
				forms = append(forms, struct{ arg, cwd string }{"//" + pkg, ""})
			}
			for _, fm := range forms {
				res := m.Run([]string{"deps", fm.arg}, grog.RunOpts{Cwd: fm.cwd, Build: "q", Timeout: 30 * time.Second})
				run.Eval(1)
				run.Count("cli_label_queries", 1)
				got := lines(res.Stdout)
				replay := map[string]any{"label_argument": fm.arg, "cwd": fm.cwd, "dependencies_as_written": byFrom[f], "want": want, "got": got, "output": tailS(res.Stdout+res.Stderr, 400)}
				switch {
				case res.Crashed() != "":
					run.Violation("cli-crash cmd=deps", "grog deps crashed on "+fm.arg+": "+res.Crashed(), replay)
				case res.Exit != 0:
					run.Violation("cli-label-rejected", fmt.Sprintf("grog deps %q (typed in package %q) exited %d although the label is in a documented form and names an existing target: %s", fm.arg, fm.cwd, res.Exit, tailS(res.Stdout+res.Stderr, 200)), replay)
				case strings.Join(want, " ") != strings.Join(got, " "):
					run.Violation("cli-label-denotes-another-target", fmt.Sprintf("grog deps %q (typed in package %q) printed %v; the dependencies as written in the BUILD file denote %v", fm.arg, fm.cwd, got, want), replay)
				default:
					run.Nontrivial("cli-label|" + fm.arg + "|" + fm.cwd)
				}
			}
		}
		_ = os.RemoveAll(dir)
	})
	_ = universe
	run.Count("cli_universe_packages", len(pkgs))
}
