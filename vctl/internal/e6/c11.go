// Package e6 holds the static-input differential checks that drive the real binary
// (grog check / build / list / deps / rdeps / owners / graph) and compare with reference
// validators and matchers written from the property statements and the docs.
package e6

import (
	"encoding/json"
	"fmt"
	"os"
	"path"
	"path/filepath"
	"sort"
	"strings"

	"vctl/internal/e1"
	"vctl/internal/grog"
	"vctl/internal/report"
	"vctl/internal/rng"
)

type rawTarget struct {
	Pkg, Name string
	Deps      []string
	Inputs    []string
	Outs      []string
	Tags      []string
	File      string // BUILD.json | BUILD.yaml
}
type rawAlias struct {
	Pkg, Name, Actual string
	File              string
}
type rawWS struct {
	Targets []rawTarget
	Aliases []rawAlias
	// configuration that must not change the verdict
	Workers     int      // num_workers (0 = 2)
	ExcludeTags []string // exclude_tag in grog.toml
}

func lbl(pkg, name string) string { return "//" + pkg + ":" + name }

func (t rawTarget) label() string { return lbl(t.Pkg, t.Name) }

// command creates every declared output (so that an accepted graph also builds) and leaves a
// trace line.
func (t rawTarget) command() string {
	var sb strings.Builder
	fmt.Fprintf(&sb, `echo "S b1 %s x 0" >> "$VTRACE"`, t.label())
	for _, o := range t.Outs {
		if strings.HasPrefix(o, "dir::") {
			d := strings.TrimPrefix(o, "dir::")
			fmt.Fprintf(&sb, ` && mkdir -p '%s' && echo %s > '%s/f_%s'`, d, t.Name, strings.TrimSuffix(d, "/"), t.Name)
		} else {
			fmt.Fprintf(&sb, ` && mkdir -p "$(dirname '%s')" && echo %s > '%s'`, o, t.Name, o)
		}
	}
	return sb.String()
}

func (w *rawWS) write(root string, reverse bool) error {
	type pkgFile struct{ pkg, file string }
	files := map[pkgFile]map[string][]any{}
	add := func(pkg, file, kind string, v any) {
		k := pkgFile{pkg, file}
		if files[k] == nil {
			files[k] = map[string][]any{}
		}
		files[k][kind] = append(files[k][kind], v)
	}
	for _, t := range w.Targets {
		m := map[string]any{"name": t.Name, "command": t.command()}
		if len(t.Deps) > 0 {
			m["dependencies"] = t.Deps
		}
		if len(t.Inputs) > 0 {
			m["inputs"] = t.Inputs
		}
		if len(t.Outs) > 0 {
			m["outputs"] = t.Outs
		}
		if len(t.Tags) > 0 {
			m["tags"] = t.Tags
		}
		add(t.Pkg, t.File, "targets", m)
	}
	for _, a := range w.Aliases {
		add(a.Pkg, a.File, "aliases", map[string]any{"name": a.Name, "actual": a.Actual})
	}
	for k, v := range files {
		if v["targets"] == nil {
			v["targets"] = []any{}
		}
		if reverse {
			for _, kind := range []string{"targets", "aliases"} {
				xs := v[kind]
				for i, j := 0, len(xs)-1; i < j; i, j = i+1, j-1 {
					xs[i], xs[j] = xs[j], xs[i]
				}
			}
		}
		b, _ := json.MarshalIndent(v, "", " ")
		dir := filepath.Join(root, filepath.FromSlash(k.pkg))
		if err := os.MkdirAll(dir, 0755); err != nil {
			return err
		}
		if err := os.WriteFile(filepath.Join(dir, k.file), b, 0644); err != nil {
			return err
		}
	}
	workers := w.Workers
	if workers == 0 {
		workers = 2
	}
	toml := fmt.Sprintf("num_workers = %d\n", workers)
	if len(w.ExcludeTags) > 0 {
		b, _ := json.Marshal(w.ExcludeTags)
		toml += "exclude_tag = " + string(b) + "\n"
	}
	return os.WriteFile(filepath.Join(root, "grog.toml"), []byte(toml), 0644)
}

func isTestName(n string) bool { return strings.HasSuffix(n, "test") }

func has(xs []string, x string) bool {
	for _, y := range xs {
		if y == x {
			return true
		}
	}
	return false
}

// validate is the reference validator written from the statement of C11. It returns the set
// of defect classes present (empty = valid graph).
func (w *rawWS) validate() []string {
	reasons := map[string]bool{}
	nodes := map[string]string{} // label -> "target" | "alias"
	for _, t := range w.Targets {
		if _, dup := nodes[t.label()]; dup {
			reasons["duplicate-label"] = true
		}
		nodes[t.label()] = "target"
	}
	for _, a := range w.Aliases {
		if _, dup := nodes[lbl(a.Pkg, a.Name)]; dup {
			reasons["duplicate-label"] = true
		}
		nodes[lbl(a.Pkg, a.Name)] = "alias"
	}
	edges := map[string][]string{} // node -> its dependencies
	tgt := map[string]rawTarget{}
	for _, t := range w.Targets {
		tgt[t.label()] = t
		for _, d := range t.Deps {
			if _, ok := nodes[d]; !ok {
				reasons["undefined-dependency"] = true
				continue
			}
			edges[t.label()] = append(edges[t.label()], d)
		}
	}
	aliasOf := map[string]string{}
	for _, a := range w.Aliases {
		l := lbl(a.Pkg, a.Name)
		aliasOf[l] = a.Actual
		if _, ok := nodes[a.Actual]; !ok {
			reasons["undefined-dependency"] = true
			continue
		}
		edges[l] = append(edges[l], a.Actual)
	}
	// cycles (self references included)
	state := map[string]int{}
	var visit func(n string) bool
	visit = func(n string) bool {
		state[n] = 1
		for _, d := range edges[n] {
			if state[d] == 1 {
				return true
			}
			if state[d] == 0 && visit(d) {
				return true
			}
		}
		state[n] = 2
		return false
	}
	var names []string
	for n := range nodes {
		names = append(names, n)
	}
	sort.Strings(names)
	for _, n := range names {
		if state[n] == 0 && visit(n) {
			reasons["dependency-cycle"] = true
		}
	}
	if reasons["dependency-cycle"] || reasons["duplicate-label"] || reasons["undefined-dependency"] {
		return keysOf(reasons)
	}
	// reachability (dependency closure through aliases)
	reach := map[string]map[string]bool{}
	var closure func(n string) map[string]bool
	closure = func(n string) map[string]bool {
		if r, ok := reach[n]; ok {
			return r
		}
		r := map[string]bool{}
		reach[n] = r
		for _, d := range edges[n] {
			r[d] = true
			for x := range closure(d) {
				r[x] = true
			}
		}
		return r
	}
	ordered := func(a, b string) bool { return closure(a)[b] || closure(b)[a] }
	// paths
	type outp struct {
		owner string
		dir   bool
		p     string
	}
	var outs []outp
	for _, t := range w.Targets {
		for _, in := range t.Inputs {
			c := path.Clean(in)
			if path.IsAbs(in) || c == ".." || strings.HasPrefix(c, "../") {
				reasons["input-escapes-package"] = true
			}
		}
		for _, o := range t.Outs {
			isDir := strings.HasPrefix(o, "dir::")
			id := strings.TrimPrefix(o, "dir::")
			if path.IsAbs(id) {
				reasons["output-escapes-workspace"] = true
				continue
			}
			c := path.Clean(path.Join(t.Pkg, id))
			if c == ".." || strings.HasPrefix(c, "../") {
				reasons["output-escapes-workspace"] = true
				continue
			}
			outs = append(outs, outp{t.label(), isDir, c})
		}
	}
	within := func(p, dir string) bool { return p == dir || strings.HasPrefix(p, dir+"/") }
	for i := 0; i < len(outs); i++ {
		for j := i + 1; j < len(outs); j++ {
			a, b := outs[i], outs[j]
			if a.owner == b.owner {
				// overlapping outputs of one and the same target: the statement speaks about two
				// targets; grog rejects some of these - not judged
				if (a.dir || b.dir) && (within(a.p, b.p) || within(b.p, a.p)) || a.p == b.p {
					reasons["(unjudged)self-overlap"] = true
				}
				continue
			}
			if ordered(a.owner, b.owner) {
				continue
			}
			switch {
			case !a.dir && !b.dir:
				if a.p == b.p {
					reasons["output-conflict"] = true
				}
			case a.dir && b.dir:
				if within(a.p, b.p) || within(b.p, a.p) {
					reasons["output-conflict"] = true
				}
			case a.dir && !b.dir:
				if within(b.p, a.p) {
					reasons["output-conflict"] = true
				}
			default:
				if within(a.p, b.p) {
					reasons["output-conflict"] = true
				}
			}
		}
	}
	// test / testonly rule, through aliases
	resolve := func(l string) (rawTarget, bool) {
		seen := map[string]bool{}
		for {
			if t, ok := tgt[l]; ok {
				return t, true
			}
			nx, ok := aliasOf[l]
			if !ok || seen[l] {
				return rawTarget{}, false
			}
			seen[l] = true
			l = nx
		}
	}
	for _, t := range w.Targets {
		for _, d := range t.Deps {
			dt, ok := resolve(d)
			if !ok {
				continue
			}
			if isTestName(dt.Name) && !isTestName(t.Name) {
				reasons["non-test-depends-on-test"] = true
			}
			if has(dt.Tags, "testonly") && !isTestName(t.Name) && !has(t.Tags, "testonly") {
				reasons["non-test-depends-on-testonly"] = true
			}
		}
	}
	return keysOf(reasons)
}

func keysOf(m map[string]bool) []string {
	var ks []string
	for k := range m {
		ks = append(ks, k)
	}
	sort.Strings(ks)
	return ks
}

var pkgs11 = []string{"", "p", "p/sub"}

// outputs spelled so that different spellings denote the same place
func outPool(pkg string) []string {
	switch pkg {
	case "":
		return []string{"p/x.out", "./p/x.out", "p/sub/x.out", "p/a/../x.out", "dir::p/d", "dir::p/d/", "p/d/f.out", "dir::p", "r.out", "dir::./p/d/inner", "../esc.out", "dir::../escd", "dir::p/sub/../d"}
	case "p":
		return []string{"x.out", "./x.out", "sub/x.out", "a/../x.out", "dir::d", "dir::d/", "d/f.out", "dir::.", "q.out", "dir::d/inner", "../../esc.out", "dir::../../escd", "dir::../p/d", "../r.out"}
	default:
		return []string{"x.out", "../x.out", "../d/f.out", "dir::../d", "s.out", "dir::../d/inner/", "../../../esc.out", "dir::../../../escd", "../../r.out"}
	}
}

// genConflictRich: larger acyclic graphs in one package whose only possible defect is an
// output conflict; outputs come from a tiny pool so that many pairs overlap, ordered or not.
func genConflictRich(r *rng.R) *rawWS {
	w := &rawWS{}
	n := r.Range(5, 10)
	pool := []string{"a.out", "b.out", "dir::d", "d/f.out", "dir::d/in", "d/in/g.out", "dir::e", "e/h.out", "c.out", "dir::e/"}
	if r.Chance(1, 2) {
		// directories whose names sort between a directory and what lies inside it ('-', '.',
		// '+', ' ' are smaller than '/'): siblings, not overlaps - next to real nestings
		pool = []string{"dir::d", "dir::d/in", "dir::d-tmp", "dir::d.bak", "dir::d+1", "d/in/g.out", "dir::d/in-2", "dir::d/in/deep", "c.out", "dir::d x", "d.out", "dir::d/in.old"}
	}
	for i := 0; i < n; i++ {
		t := rawTarget{Pkg: "p", Name: fmt.Sprintf("n%d", i), File: "BUILD.json"}
		for j := 0; j < i; j++ {
			if r.Chance(35, 100) {
				t.Deps = append(t.Deps, lbl("p", fmt.Sprintf("n%d", j)))
			}
		}
		if r.Chance(3, 5) {
			t.Outs = append(t.Outs, pool[r.Intn(len(pool))])
		}
		w.Targets = append(w.Targets, t)
	}
	// shuffle declaration order (graph iteration order inside grog is random anyway)
	rng.Shuffle(r, w.Targets)
	return w
}

// genTestonlyRich: acyclic output-less graphs whose only possible defect is a non-test target
// depending (directly or through a chain of aliases) on a test or testonly target. The restricted
// targets have several dependants, legitimate ones (test targets, testonly targets) and
// offending ones, in every alphabetical arrangement.
func genTestonlyRich(r *rng.R) *rawWS {
	w := &rawWS{}
	nRestricted := r.Range(1, 2)
	var restricted []string // labels users depend on: the restricted targets or aliases of them
	for i := 0; i < nRestricted; i++ {
		name := fmt.Sprintf("m%d", i)
		t := rawTarget{Pkg: "p", Name: name, File: "BUILD.json"}
		if r.Chance(1, 2) {
			t.Name = name + "_test"
		} else {
			t.Tags = []string{"testonly"}
		}
		w.Targets = append(w.Targets, t)
		l := lbl("p", t.Name)
		restricted = append(restricted, l)
		// alias chains of length 1-3 to it
		for k := 0; k < r.Intn(4); k++ {
			a := rawAlias{Pkg: rng.Pick(r, []string{"p", ""}), Name: fmt.Sprintf("%c_al%d_%d", 'a'+rune(r.Intn(26)), i, k), Actual: l, File: "BUILD.json"}
			w.Aliases = append(w.Aliases, a)
			l = lbl(a.Pkg, a.Name)
			restricted = append(restricted, l)
		}
	}
	users := r.Range(2, 5)
	sparse := r.Chance(1, 2)
	for i := 0; i < users; i++ {
		// names spread over the alphabet so that offenders sort before and after legitimate users
		t := rawTarget{Pkg: rng.Pick(r, []string{"p", "", "p/sub"}), Name: fmt.Sprintf("%c%d", 'a'+rune(r.Intn(26)), i), File: "BUILD.json"}
		switch r.Intn(3) {
		case 0:
			t.Name += "_test"
		case 1:
			t.Tags = []string{"testonly"}
		}
		if sparse {
			// exactly one route to a restricted target per user: an offender is then only
			// visible through that one label (a particular link of an alias chain)
			t.Deps = []string{rng.Pick(r, restricted)}
		} else {
			for _, l := range restricted {
				if r.Chance(1, 2) {
					t.Deps = append(t.Deps, l)
				}
			}
			if len(t.Deps) == 0 {
				t.Deps = []string{rng.Pick(r, restricted)}
			}
		}
		w.Targets = append(w.Targets, t)
	}
	rng.Shuffle(r, w.Targets)
	return w
}

// genDupKinds: one label defined twice in one package by two BUILD files, once as an alias and
// once as a target (either file may hold either), loaded by one or several workers.
func genDupKinds(r *rng.R) *rawWS {
	w := &rawWS{Workers: rng.Pick(r, []int{1, 1, 4})}
	files := []string{"BUILD.json", "BUILD.yaml"}
	if r.Chance(1, 2) {
		files[0], files[1] = files[1], files[0]
	}
	pkg := rng.Pick(r, []string{"p", "p/sub", ""})
	w.Targets = append(w.Targets, rawTarget{Pkg: pkg, Name: "y", File: files[r.Intn(2)]})
	w.Aliases = append(w.Aliases, rawAlias{Pkg: pkg, Name: "x", Actual: lbl(pkg, "y"), File: files[0]})
	w.Targets = append(w.Targets, rawTarget{Pkg: pkg, Name: "x", File: files[1], Deps: []string{lbl(pkg, "y")}})
	if r.Chance(1, 2) {
		w.Targets = append(w.Targets, rawTarget{Pkg: pkg, Name: "user", File: files[r.Intn(2)], Deps: []string{lbl(pkg, "x")}})
	}
	return w
}

func genRaw(r *rng.R) *rawWS {
	w := genRaw0(r)
	if w.Workers == 0 && r.Chance(1, 4) {
		w.Workers = rng.Pick(r, []int{1, 4, 8})
	}
	if r.Chance(1, 5) {
		// an exclude_tag configuration, with the tag on some targets: excluded targets are
		// not selected by patterns, the graph they are part of is validated all the same
		w.ExcludeTags = []string{"skipme"}
		if r.Chance(1, 3) {
			w.ExcludeTags = []string{"other", "skipme"}
		}
		for i := range w.Targets {
			if r.Chance(1, 2) {
				w.Targets[i].Tags = append(w.Targets[i].Tags, "skipme")
			}
		}
	}
	return w
}

func genRaw0(r *rng.R) *rawWS {
	if r.Chance(1, 14) {
		return genDupKinds(r)
	}
	if r.Chance(1, 3) {
		return genConflictRich(r)
	}
	if r.Chance(1, 4) {
		return genTestonlyRich(r)
	}
	w := &rawWS{}
	n := r.Range(2, 4)
	if r.Chance(1, 3) {
		n = r.Range(5, 9) // larger random graphs beyond the small-graph bound
	}
	type nd struct{ pkg, name string }
	var nodes []nd
	for i := 0; i < n; i++ {
		pkg := rng.Pick(r, pkgs11)
		name := fmt.Sprintf("n%d", i)
		switch r.Intn(8) {
		case 0:
			name = fmt.Sprintf("n%d_test", i)
		}
		if r.Chance(1, 10+3*n) && i > 0 {
			// duplicate label of an earlier node
			pkg, name = nodes[r.Intn(len(nodes))].pkg, nodes[r.Intn(len(nodes))].name
		}
		nodes = append(nodes, nd{pkg, name})
	}
	pick := func() string {
		if r.Chance(1, 12+3*n) {
			return "//p:undefined"
		}
		x := nodes[r.Intn(len(nodes))]
		return lbl(x.pkg, x.name)
	}
	for i, nd := range nodes {
		file := "BUILD.json"
		if r.Chance(1, 5) {
			file = "BUILD.yaml"
		}
		if r.Chance(1, 4) {
			w.Aliases = append(w.Aliases, rawAlias{Pkg: nd.pkg, Name: nd.name, Actual: pick(), File: file})
			continue
		}
		t := rawTarget{Pkg: nd.pkg, Name: nd.name, File: file}
		for j := range nodes {
			p := 24 / n // back edges (cycles) are the exception
			if j < i {
				p = 30
				if n > 4 {
					p = 40
				}
			}
			if j == i {
				p = 8 / n
			}
			if r.Chance(p, 100) {
				t.Deps = append(t.Deps, lbl(nodes[j].pkg, nodes[j].name))
			}
		}
		if r.Chance(1, 15+4*n) {
			t.Deps = append(t.Deps, "//p:undefined")
		}
		pool := outPool(nd.pkg)
		for k := 0; k < r.Intn(3); k++ {
			o := pool[r.Intn(len(pool))]
			if !has(t.Outs, o) {
				t.Outs = append(t.Outs, o)
			}
		}
		if r.Chance(1, 16) {
			// an escaping input behind an in-package input that names "the same" file once the
			// leading .. is clamped away: every entry counts, not the first spelling of a name
			t.Inputs = append(t.Inputs, rng.Pick(r, [][]string{{"x.txt", "../x.txt"}, {"*.txt", "../x.txt"}, {"./x.txt", "sub/../../x.txt"}, {"x.txt", "/x.txt"}, {"../x.txt", "x.txt"}, {"x.txt", "./x.txt"}})...)
		}
		if r.Chance(1, 8) {
			t.Inputs = append(t.Inputs, rng.Pick(r, []string{"../x.txt", "a/../../x.txt", "ok.txt", "a/../ok.txt", "./ok.txt", "/abs.txt", "..",
				// the same as patterns: a glob that reaches out of the package escapes it just as well
				"../*.txt", "../p/*.txt", "a/../../*.txt", "/tmp/*.txt", "../**/*.txt", "*.txt", "sub/**/*.txt", "a/../*.txt"}))
		}
		if r.Chance(1, 6) {
			t.Tags = append(t.Tags, "testonly")
		}
		w.Targets = append(w.Targets, t)
	}
	return w
}

func traceLines(p string) int {
	b, err := os.ReadFile(p)
	if err != nil {
		return 0
	}
	return strings.Count(string(b), "\n")
}

// RunC11: invalid build graphs are rejected before anything runs; valid ones accepted.
func RunC11(tier string) int {
	run := report.New("C11", tier, "exploration",
		"seeded small workspaces (2-4 nodes: targets, test targets, testonly targets, aliases; packages '', p, p/sub; arbitrary edge sets incl. self-loops, alias cycles, undefined and duplicate labels within and across BUILD.json/BUILD.yaml; outputs drawn from spellings of the same places - x, ./x, a/../x, trailing slashes, nested-package aliasing, file inside dir, nested dirs, ../ escapes for file and dir outputs; escaping inputs), plus two restricted families whose only possible defect is an output conflict resp. a test/testonly dependency reached directly or through alias chains with several legitimate and offending dependants; one label defined as alias and as target by two BUILD files; num_workers 1..8 and exclude_tag configurations with the tag on some targets; each written in two target orders, every third also as a lived-in copy (some declared outputs already on disk) entered through a symlinked working directory; "+
			"oracle: reference validator written from the statement; `grog check` must accept exactly the valid graphs in both orders, `grog build` must agree and leave an empty command trace on rejection; non-trivial = graph with at least one dependency edge and one output; distinct = defect-class set + shape")
	st, err := e1.Prepare(run, false)
	if err != nil {
		run.Infra(err.Error())
		return run.Finish()
	}
	defer st.Cleanup()
	n := tierN(tier, 1600, 40000)
	e1.Parallel(n, func(i int) {
		r := rng.Derive(uint64(run.Seed), "C11", fmt.Sprint(i))
		w := genRaw(r)
		reasons := w.validate()
		if has(reasons, "(unjudged)self-overlap") {
			run.Count("cases_not_judged(self-overlapping outputs)", 1)
			return
		}
		valid := len(reasons) == 0
		dir := filepath.Join(st.Base, fmt.Sprintf("g%d", i))
		defer os.RemoveAll(dir)
		var verdicts []string
		run.Eval(1)
		edges, outs := 0, 0
		for _, t := range w.Targets {
			edges += len(t.Deps)
			outs += len(t.Outs)
		}
		if edges > 0 && outs > 0 {
			run.Nontrivial(fmt.Sprintf("%v|t%d-a%d-e%d-o%d", reasons, len(w.Targets), len(w.Aliases), edges, outs))
		}
		for _, rs := range reasons {
			run.Count("defect_class:"+rs, 1)
		}
		if valid {
			run.Count("valid_graphs", 1)
		}
		orders := 2
		if i%3 == 0 {
			orders = 3 // a third copy: lived-in workspace entered through a symlinked path (below)
		}
		for order := 0; order < orders; order++ {
			ws := filepath.Join(dir, fmt.Sprintf("ws%d", order))
			if err := w.write(ws, order == 1); err != nil {
				run.Infra(err.Error())
				return
			}
			if order == 2 {
				// what sits in the workspace and how the workspace was reached must not change the
				// verdict: some declared outputs already exist (files / directories from an earlier
				// build of an earlier, valid graph), and the working directory is a symlinked path
				made := 0
				for _, t := range w.Targets {
					for _, o := range t.Outs {
						if !r.Chance(2, 3) {
							continue
						}
						isDir := strings.HasPrefix(o, "dir::")
						p := filepath.Join(ws, filepath.FromSlash(t.Pkg), filepath.FromSlash(strings.TrimPrefix(o, "dir::")))
						if !strings.HasPrefix(p, ws+string(filepath.Separator)) {
							continue
						}
						if isDir {
							if os.MkdirAll(p, 0755) == nil {
								made++
							}
						} else if os.MkdirAll(filepath.Dir(p), 0755) == nil {
							if fi, err := os.Stat(p); err != nil || !fi.IsDir() {
								if os.WriteFile(p, []byte("from an earlier build\n"), 0644) == nil {
									made++
								}
							}
						}
					}
				}
				link := filepath.Join(dir, "ws_via_symlink")
				if os.Symlink(ws, link) == nil {
					ws = link
				}
				run.Count("lived_in_workspaces_via_symlink", 1)
				run.Count("declared_outputs_already_on_disk", made)
			}
			m := &grog.Machine{Bin: st.Grog, Workspace: ws, Root: filepath.Join(dir, "root"), Home: filepath.Join(dir, "home"),
				Trace: filepath.Join(dir, fmt.Sprintf("trace%d", order)), VctlBin: st.Vctl}
			_ = os.MkdirAll(m.Home, 0755)
			res := m.Run([]string{"check"}, grog.RunOpts{Build: "b1"})
			run.Count("grog_check_runs", 1)
			if c := res.Crashed(); c != "" {
				run.Violation("check-crashed", "grog check crashed: "+c, map[string]any{"workspace": w, "stderr": tailS(res.Stderr, 800)})
				return
			}
			accepted := res.Exit == 0
			verdicts = append(verdicts, fmt.Sprint(accepted))
			if accepted != valid {
				kind := "accepted-invalid-graph cause=" + strings.Join(reasons, "+")
				if valid {
					kind = "rejected-valid-graph"
				}
				run.Violation(kind, fmt.Sprintf("grog check exit=%d but reference says %v (order %d); output: %s", res.Exit, reasons, order, tailS(res.Stdout+res.Stderr, 500)),
					map[string]any{"workspace": w, "order": order, "reference": reasons})
				return
			}
			hasNonTest := false
			for _, t := range w.Targets {
				if !isTestName(t.Name) {
					hasNonTest = true
				}
			}
			// grog build must agree (all rejected graphs; a sample of the accepted ones)
			if order == 0 && hasNonTest && (!valid || i%6 == 0) {
				bres := m.Run([]string{"build"}, grog.RunOpts{Build: "b1"})
				run.Count("grog_build_runs", 1)
				ran := traceLines(m.Trace)
				if !valid && (bres.Exit == 0 || ran > 0) {
					run.Violation("build-ran-commands-on-invalid-graph cause="+strings.Join(reasons, "+"), fmt.Sprintf("grog build exit=%d executed %d commands on a graph the reference rejects (%v)", bres.Exit, ran, reasons),
						map[string]any{"workspace": w, "reference": reasons, "output": tailS(bres.Stdout+bres.Stderr, 500)})
					return
				}
				if valid && ran == 0 && len(w.ExcludeTags) == 0 {
					run.Violation("build-rejected-valid-graph", fmt.Sprintf("grog build exit=%d ran nothing on a valid graph: %s", bres.Exit, tailS(bres.Stdout+bres.Stderr, 500)),
						map[string]any{"workspace": w})
					return
				}
			}
		}
		run.Sample(map[string]any{"workspace": w, "reference_defects": reasons})
	})
	run.Assume("a testonly target depending on a testonly target is allowed (documented behaviour); overlapping outputs of one and the same target are not judged")
	return run.Finish()
}

func tailS(s string, n int) string {
	if len(s) > n {
		s = s[len(s)-n:]
	}
	return strings.ReplaceAll(s, "\n", " | ")
}

func tierN(tier string, q, t int) int {
	if tier == "thorough" {
		return t
	}
	return q
}
