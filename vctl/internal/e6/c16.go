package e6

import (
	"encoding/json"
	"fmt"
	"os"
	"path/filepath"
	"sort"
	"strings"
	"time"

	"vctl/internal/e1"
	"vctl/internal/e2"
	"vctl/internal/grog"
	"vctl/internal/report"
	"vctl/internal/rng"
)

type dtoTarget struct {
	Name        string            `json:"name"`
	Command     string            `json:"command"`
	Deps        []string          `json:"dependencies,omitempty"`
	Inputs      []string          `json:"inputs,omitempty"`
	Excludes    []string          `json:"exclude_inputs,omitempty"`
	Outputs     []string          `json:"outputs,omitempty"`
	Bin         string            `json:"bin_output,omitempty"`
	Tags        []string          `json:"tags,omitempty"`
	Fingerprint map[string]string `json:"fingerprint,omitempty"`
	Platforms   []string          `json:"platforms,omitempty"`
	Timeout     string            `json:"timeout,omitempty"`
}
type dtoAlias struct {
	Name   string `json:"name"`
	Actual string `json:"actual"`
}
type dtoPkg struct {
	Targets []dtoTarget `json:"targets"`
	Aliases []dtoAlias  `json:"aliases,omitempty"`
	// defaults, when set, makes the JSON and YAML renderings express the very same effective
	// platforms through a package-level default_platforms: targets whose platforms equal the
	// default omit the key, targets without a restriction carry an explicit empty list
	defaults []string
}

func sameSet(a, b []string) bool {
	if len(a) != len(b) {
		return false
	}
	x, y := append([]string{}, a...), append([]string{}, b...)
	sort.Strings(x)
	sort.Strings(y)
	return strings.Join(x, "\x00") == strings.Join(y, "\x00")
}

// withDefaults returns the package rendered with default_platforms = d.
func (p dtoPkg) withDefaults(d []string) dtoPkg {
	q := p
	q.defaults = d
	return q
}

func jq(s string) string { b, _ := json.Marshal(s); return string(b) }
func jlist(xs []string) string {
	var ys []string
	for _, x := range xs {
		ys = append(ys, jq(x))
	}
	return "[" + strings.Join(ys, ", ") + "]"
}
func jmap(m map[string]string) string {
	var ks []string
	for k := range m {
		ks = append(ks, k)
	}
	sort.Strings(ks)
	var ys []string
	for _, k := range ks {
		ys = append(ys, jq(k)+": "+jq(m[k]))
	}
	return "{" + strings.Join(ys, ", ") + "}"
}

func (p dtoPkg) JSON() string {
	if p.defaults == nil {
		b, _ := json.MarshalIndent(p, "", "  ")
		return string(b) + "\n"
	}
	var ts []map[string]any
	for _, t := range p.Targets {
		b, _ := json.Marshal(t)
		m := map[string]any{}
		_ = json.Unmarshal(b, &m)
		delete(m, "platforms")
		switch {
		case sameSet(t.Platforms, p.defaults):
		case len(t.Platforms) == 0:
			m["platforms"] = []string{}
		default:
			m["platforms"] = t.Platforms
		}
		ts = append(ts, m)
	}
	top := map[string]any{"targets": ts, "default_platforms": p.defaults}
	if len(p.Aliases) > 0 {
		top["aliases"] = p.Aliases
	}
	b, _ := json.MarshalIndent(top, "", "  ")
	return string(b) + "\n"
}

func (p dtoPkg) YAML() string {
	var sb strings.Builder
	sb.WriteString("targets:\n")
	for _, t := range p.Targets {
		fmt.Fprintf(&sb, "  - name: %s\n    command: %s\n", jq(t.Name), jq(t.Command))
		lst := func(k string, xs []string) {
			if len(xs) == 0 {
				return
			}
			fmt.Fprintf(&sb, "    %s:\n", k)
			for _, x := range xs {
				fmt.Fprintf(&sb, "      - %s\n", jq(x))
			}
		}
		lst("dependencies", t.Deps)
		lst("inputs", t.Inputs)
		lst("exclude_inputs", t.Excludes)
		lst("outputs", t.Outputs)
		if t.Bin != "" {
			fmt.Fprintf(&sb, "    bin_output: %s\n", jq(t.Bin))
		}
		lst("tags", t.Tags)
		if len(t.Fingerprint) > 0 {
			sb.WriteString("    fingerprint:\n")
			var ks []string
			for k := range t.Fingerprint {
				ks = append(ks, k)
			}
			sort.Strings(ks)
			for _, k := range ks {
				fmt.Fprintf(&sb, "      %s: %s\n", jq(k), jq(t.Fingerprint[k]))
			}
		}
		switch {
		case p.defaults != nil && sameSet(t.Platforms, p.defaults):
			// inherits default_platforms
		case p.defaults != nil && len(t.Platforms) == 0:
			sb.WriteString("    platforms: []\n")
		default:
			lst("platforms", t.Platforms)
		}
		if t.Timeout != "" {
			fmt.Fprintf(&sb, "    timeout: %s\n", jq(t.Timeout))
		}
	}
	if p.defaults != nil {
		sb.WriteString("default_platforms:\n")
		for _, x := range p.defaults {
			fmt.Fprintf(&sb, "  - %s\n", jq(x))
		}
	}
	if len(p.Aliases) > 0 {
		sb.WriteString("aliases:\n")
		for _, a := range p.Aliases {
			fmt.Fprintf(&sb, "  - name: %s\n    actual: %s\n", jq(a.Name), jq(a.Actual))
		}
	}
	return sb.String()
}

func (p dtoPkg) Starlark() string {
	var sb strings.Builder
	for _, t := range p.Targets {
		sb.WriteString("target(\n")
		fmt.Fprintf(&sb, "    name = %s,\n    command = %s,\n", jq(t.Name), jq(t.Command))
		if len(t.Deps) > 0 {
			fmt.Fprintf(&sb, "    dependencies = %s,\n", jlist(t.Deps))
		}
		if len(t.Inputs) > 0 {
			fmt.Fprintf(&sb, "    inputs = %s,\n", jlist(t.Inputs))
		}
		if len(t.Excludes) > 0 {
			fmt.Fprintf(&sb, "    exclude_inputs = %s,\n", jlist(t.Excludes))
		}
		if len(t.Outputs) > 0 {
			fmt.Fprintf(&sb, "    outputs = %s,\n", jlist(t.Outputs))
		}
		if t.Bin != "" {
			fmt.Fprintf(&sb, "    bin_output = %s,\n", jq(t.Bin))
		}
		if len(t.Tags) > 0 {
			fmt.Fprintf(&sb, "    tags = %s,\n", jlist(t.Tags))
		}
		if len(t.Fingerprint) > 0 {
			fmt.Fprintf(&sb, "    fingerprint = %s,\n", jmap(t.Fingerprint))
		}
		if len(t.Platforms) > 0 {
			fmt.Fprintf(&sb, "    platforms = %s,\n", jlist(t.Platforms))
		}
		if t.Timeout != "" {
			fmt.Fprintf(&sb, "    timeout = %s,\n", jq(t.Timeout))
		}
		sb.WriteString(")\n\n")
	}
	for _, a := range p.Aliases {
		fmt.Fprintf(&sb, "alias(name = %s, actual = %s)\n", jq(a.Name), jq(a.Actual))
	}
	return sb.String()
}

// starTargetArgs renders the keyword arguments of one target except name and command.
func starTargetArgs(t dtoTarget) string {
	var sb strings.Builder
	if len(t.Deps) > 0 {
		fmt.Fprintf(&sb, "    dependencies = %s,\n", jlist(t.Deps))
	}
	if len(t.Inputs) > 0 {
		fmt.Fprintf(&sb, "    inputs = %s,\n", jlist(t.Inputs))
	}
	if len(t.Excludes) > 0 {
		fmt.Fprintf(&sb, "    exclude_inputs = %s,\n", jlist(t.Excludes))
	}
	if len(t.Outputs) > 0 {
		fmt.Fprintf(&sb, "    outputs = %s,\n", jlist(t.Outputs))
	}
	if t.Bin != "" {
		fmt.Fprintf(&sb, "    bin_output = %s,\n", jq(t.Bin))
	}
	if len(t.Tags) > 0 {
		fmt.Fprintf(&sb, "    tags = %s,\n", jlist(t.Tags))
	}
	if len(t.Fingerprint) > 0 {
		fmt.Fprintf(&sb, "    fingerprint = %s,\n", jmap(t.Fingerprint))
	}
	if len(t.Platforms) > 0 {
		fmt.Fprintf(&sb, "    platforms = %s,\n", jlist(t.Platforms))
	}
	if t.Timeout != "" {
		fmt.Fprintf(&sb, "    timeout = %s,\n", jq(t.Timeout))
	}
	return sb.String()
}

// StarlarkStructured renders the same package the way a hand-written Starlark package looks:
// commands live in tables in helper modules, half of the targets are declared through a macro
// of a module in a sub-directory, and that module and BUILD.star both load "defs.star" - the
// same relative module string, which denotes lib/defs.star for one and ./defs.star for the
// other. BUILD.star additionally reaches ./defs.star through its //-absolute spelling.
// Returns file name (relative to the package directory) -> content.
func (p dtoPkg) StarlarkStructured(macrosFirst bool) map[string]string {
	var defsA, defsB, build strings.Builder
	defsA.WriteString("CMDS = {\n")
	defsB.WriteString("CMDS = {\n")
	var body strings.Builder
	for i, t := range p.Targets {
		if i%2 == 0 {
			fmt.Fprintf(&defsA, "    %s: %s,\n", jq(t.Name), jq(t.Command))
			fmt.Fprintf(&body, "target(\n    name = %s,\n    command = %s[%s],\n%s)\n\n", jq(t.Name), []string{"CMDS", "ABS_CMDS"}[(i/2)%2], jq(t.Name), starTargetArgs(t))
		} else {
			fmt.Fprintf(&defsB, "    %s: %s,\n", jq(t.Name), jq(t.Command))
			fmt.Fprintf(&body, "mk(\n    name = %s,\n%s)\n\n", jq(t.Name), starTargetArgs(t))
		}
	}
	defsA.WriteString("}\n")
	defsB.WriteString("}\n")
	loads := []string{"load(\"defs.star\", \"CMDS\")\n", "load(\"lib/macros.star\", \"mk\")\n"}
	if macrosFirst {
		loads[0], loads[1] = loads[1], loads[0]
	}
	build.WriteString(loads[0] + loads[1] + "load(\"//pk/defs.star\", ABS_CMDS = \"CMDS\")\n\n")
	build.WriteString(body.String())
	for _, a := range p.Aliases {
		fmt.Fprintf(&build, "alias(name = %s, actual = %s)\n", jq(a.Name), jq(a.Actual))
	}
	macros := "load(\"defs.star\", \"CMDS\")\n\ndef mk(name, **kwargs):\n    target(name = name, command = CMDS[name], **kwargs)\n"
	return map[string]string{"BUILD.star": build.String(), "defs.star": defsA.String(), "lib/defs.star": defsB.String(), "lib/macros.star": macros}
}

// Makefile renders the targets as annotated make rules (aliases, exclude_inputs and bin_output
// have no Makefile spelling). The command of a Makefile target is always "make <goal>".
func (p dtoPkg) Makefile() string {
	var sb strings.Builder
	for ti, t := range p.Targets {
		// every other target writes its annotation in YAML block style (nested, indented lists
		// and maps) instead of flow style: both are what users write
		block := ti%2 == 1
		lst := func(k string, xs []string) {
			if len(xs) == 0 {
				return
			}
			if !block {
				fmt.Fprintf(&sb, "# %s: %s\n", k, jlist(xs))
				return
			}
			fmt.Fprintf(&sb, "# %s:\n", k)
			for _, x := range xs {
				fmt.Fprintf(&sb, "#   - %s\n", jq(x))
			}
		}
		sb.WriteString("# @grog\n")
		fmt.Fprintf(&sb, "# name: %s\n", jq(t.Name))
		lst("dependencies", t.Deps)
		lst("inputs", t.Inputs)
		lst("outputs", t.Outputs)
		lst("tags", t.Tags)
		if len(t.Fingerprint) > 0 {
			if block {
				sb.WriteString("# fingerprint:\n")
				var ks []string
				for k := range t.Fingerprint {
					ks = append(ks, k)
				}
				sort.Strings(ks)
				for _, k := range ks {
					fmt.Fprintf(&sb, "#   %s: %s\n", jq(k), jq(t.Fingerprint[k]))
				}
			} else {
				fmt.Fprintf(&sb, "# fingerprint: %s\n", jmap(t.Fingerprint))
			}
		}
		lst("platforms", t.Platforms)
		if t.Timeout != "" {
			fmt.Fprintf(&sb, "# timeout: %s\n", jq(t.Timeout))
		}
		prereq := ""
		if len(t.Deps) > 0 {
			// make-level prerequisites after the colon (they are not grog dependencies)
			prereq = " " + strings.TrimPrefix(strings.TrimPrefix(t.Deps[0], "//pk"), ":")
		}
		fmt.Fprintf(&sb, "%s:%s\n\t@true\n\n", t.Name, prereq)
	}
	return sb.String()
}

var cmdFrags = []string{"echo", " ", "hi", "\"quoted\"", "'single'", " \\ ", "$HOME", " # not a comment", ": colon", "{brace}", "[x]", "%", "&&", " | ", "\t", "a=b", ">", "out.txt", "`bt`", "*", "?"}

func genDTO(r *rng.R, makefileSafe bool) dtoPkg {
	var p dtoPkg
	n := r.Range(1, 5)
	for i := 0; i < n; i++ {
		t := dtoTarget{Name: fmt.Sprintf("t%d%s", i, rng.Pick(r, []string{"", "_x", "-y", ".z"}))}
		var sb strings.Builder
		for k := 0; k < r.Range(1, 6); k++ {
			sb.WriteString(rng.Pick(r, cmdFrags))
		}
		t.Command = sb.String()
		for j := 0; j < i; j++ {
			if r.Chance(1, 3) {
				if r.Chance(1, 2) {
					t.Deps = append(t.Deps, ":"+p.Targets[j].Name)
				} else {
					t.Deps = append(t.Deps, "//pk:"+p.Targets[j].Name)
				}
			}
		}
		for k := 0; k < r.Intn(3); k++ {
			t.Inputs = append(t.Inputs, rng.Pick(r, []string{"a.txt", "src/*.txt", "src/**/*.txt", "{a,b}*.txt", "missing.txt", "dir with space/f.txt"}))
		}
		if !makefileSafe && r.Chance(1, 3) {
			t.Excludes = append(t.Excludes, rng.Pick(r, []string{"src/skip*.txt", "a.txt"}))
		}
		for k := 0; k < r.Intn(3); k++ {
			t.Outputs = append(t.Outputs, fmt.Sprintf("%s%d_%d.out", rng.Pick(r, []string{"", "dir::", "gen/"}), i, k))
		}
		if !makefileSafe && r.Chance(1, 5) {
			t.Bin = fmt.Sprintf("bin%d", i)
		}
		for k := 0; k < r.Intn(3); k++ {
			t.Tags = append(t.Tags, rng.Pick(r, []string{"fast", "no-cache", "ci", "multiplatform-cache", "tag with space"}))
		}
		if r.Chance(1, 3) {
			t.Fingerprint = map[string]string{"v": r.Word(1, 4)}
			if r.Chance(1, 2) {
				t.Fingerprint["key: odd"] = "val=ue, x"
			}
		}
		if r.Chance(1, 4) {
			t.Platforms = rng.Pick(r, [][]string{{"linux/amd64"}, {"linux/amd64", "darwin/arm64"}})
		}
		if r.Chance(1, 4) {
			t.Timeout = rng.Pick(r, []string{"5s", "1m30s", "250ms", "2h"})
		}
		p.Targets = append(p.Targets, t)
	}
	if !makefileSafe && r.Chance(1, 2) {
		p.Aliases = append(p.Aliases, dtoAlias{Name: "al", Actual: ":" + p.Targets[0].Name})
	}
	return p
}

// normalise reduces `grog graph -o json` output to the fields the statement lists.
func normalise(out string, dropCommand bool) (map[string]string, error) {
	var g struct {
		Nodes []map[string]any `json:"nodes"`
	}
	if err := json.Unmarshal([]byte(out), &g); err != nil {
		return nil, err
	}
	res := map[string]string{}
	for _, n := range g.Nodes {
		lb, _ := json.Marshal(n["label"])
		keep := map[string]any{}
		for _, k := range []string{"command", "dependencies", "inputs", "outputs", "bin_output", "tags", "fingerprint", "platforms", "timeout", "actual"} {
			if dropCommand && k == "command" {
				continue
			}
			v, ok := n[k]
			if !ok || v == nil {
				continue
			}
			if arr, isArr := v.([]any); isArr {
				if len(arr) == 0 {
					continue
				}
				var ss []string
				for _, x := range arr {
					b, _ := json.Marshal(x)
					ss = append(ss, string(b))
				}
				sort.Strings(ss)
				keep[k] = ss
			} else {
				keep[k] = v
			}
		}
		b, _ := json.Marshal(keep)
		res[string(lb)] = string(b)
	}
	return res, nil
}

func writePkgWS(ws string, file, content string) error {
	dir := filepath.Join(ws, "pk")
	if err := os.MkdirAll(filepath.Join(dir, "src", "deep"), 0755); err != nil {
		return err
	}
	for _, f := range []string{"a.txt", "b1.txt", "src/x.txt", "src/skip1.txt", "src/deep/y.txt"} {
		_ = os.WriteFile(filepath.Join(dir, f), []byte("x"), 0644)
	}
	_ = os.WriteFile(filepath.Join(ws, "grog.toml"), []byte("num_workers = 2\n"), 0644)
	return os.WriteFile(filepath.Join(dir, file), []byte(content), 0644)
}

func corrupt(r *rng.R, text string, others []string) (string, string) {
	b := []byte(text)
	if len(b) == 0 {
		return "x", "insert"
	}
	switch r.Intn(11) {
	case 9, 10:
		// a structural character of the formats in place of a byte, with a preference for the
		// first non-blank byte of a line (where keys, rule names and markers start)
		i := r.Intn(len(b))
		if r.Chance(2, 3) {
			for i > 0 && b[i-1] != '\n' {
				i--
			}
			for i < len(b)-1 && (b[i] == ' ' || b[i] == '\t') {
				i++
			}
		}
		b[i] = rng.Pick(r, []byte{':', '#', '=', '\t', '-', '[', '{', '"', '\'', ',', '@', '%', '$', '(', '\n', '|', '>', '&', '*', '!'})
		return string(b), "structural-char"
	case 0:
		i := r.Intn(len(b))
		b[i] = byte(r.Intn(256))
		return string(b), "flip-byte"
	case 1:
		i := r.Intn(len(b))
		return string(append(b[:i:i], b[i+1:]...)), "delete-byte"
	case 2:
		i := r.Intn(len(b) + 1)
		ins := []byte{byte(r.Intn(256))}
		if r.Chance(1, 2) {
			ins = []byte(rng.Pick(r, []string{"\"", "'", "{", "[", "(", ":", "#", "\n", "\t", "\\", ",", "]", "}", ")", "- ", "&a", "*a", "!!binary ", "\x00"}))
		}
		return string(append(b[:i:i], append(ins, b[i:]...)...)), "insert"
	case 3:
		return string(b[:r.Intn(len(b))]), "truncate"
	case 4:
		i := r.Intn(len(b))
		j := i + r.Intn(len(b)-i)
		return string(b[:j]) + string(b[i:j]) + string(b[j:]), "duplicate-span"
	case 5:
		o := rng.Pick(r, others)
		if len(o) == 0 {
			return text, "splice"
		}
		return string(b[:r.Intn(len(b))]) + o[r.Intn(len(o)):], "splice-formats"
	case 6:
		i := r.Intn(len(b))
		j := i + r.Intn(min(40, len(b)-i))
		return string(b[:i]) + string(b[j:]), "delete-span"
	case 7:
		return text + strings.Repeat(rng.Pick(r, []string{"[", "{", "(", "- ", "{\"a\":"}), r.Range(50, 3000)), "deep-nesting-appended"
	default:
		lines := strings.Split(text, "\n")
		i := r.Intn(len(lines))
		lines = append(lines[:i], lines[i+1:]...)
		return strings.Join(lines, "\n"), "delete-line"
	}
}

var grammarAware = map[string][]string{
	"Makefile": {
		"# @grog\n",
		"# @grog\nall:\n\t@true\n",
		"# @grog\n\n\nall:\n",
		"# @grog\n# name: x\n",
		"# @grog\n# name: x\nno colon here\n",
		"# @grog\n# name: [unterminated\nall:\n",
		"all:\n# @grog\n",
		"# @grog\n#\n#\nall: dep1 dep2\n\t@true\n",
		"# @grog\n# name: x\n# @grog\n# name: y\ny:\n",
		"# @grog\n:\n", "# @grog\n: all\n\t@true\n", "# @grog\n# name: x\n:uild: dep\n", "# @grog\n   :\n", "# @grog\n::\n", "# @grog\n\t: x\n", "# @grog\n: inputs:\n#  - a\nb:\n",
	},
	"BUILD.json": {
		"", "{", "[]", "null", "{\"targets\":null}", "{\"targets\":[null]}", "{\"targets\":[{}]}", "{\"targets\":{}}", "{\"targets\":[{\"name\":1}]}",
		"{\"targets\":[{\"name\":\"a\",\"command\":\"true\",\"timeout\":\"bogus\"}]}", "{\"aliases\":[null]}", "{\"targets\":[{\"name\":\"a\",\"outputs\":[\"::\"]}]}",
		"{\"targets\":[{\"name\":\"a\",\"outputs\":[\"bogus::x\"]}]}", "{\"targets\":[{\"name\":\"a\",\"dependencies\":[\"\"]}]}", "{\"targets\":[{\"name\":\"\"}]}", "{\"targets\":[{\"name\":\"a\",\"inputs\":[\"[\"]}]}",
	},
	"BUILD.yaml": {
		"", ":", "- a\n- b\n", "targets: 1\n", "targets:\n  - null\n", "targets:\n  - name: [a\n", "targets: &a [*a]\n", "a: &a [*a, *a]\n", "targets:\n  - name: a\n    fingerprint: [1,2]\n", "aliases:\n  - null\n",
		"targets:\n  - name: a\n    timeout: 5\n",
	},
	"BUILD.star": {
		"", "target(", "target()", "target(name=1)", "target(name=\"a\", command=1)", "alias()", "def f():\n  f()\nf()\n", "target(name=\"a\", dependencies=\"notalist\")",
		"load(\"nonexistent.star\", \"x\")\n", "load(\":BUILD.star\", \"x\")\n", "target(name=\"a\", fingerprint={1:2})", "target(name=\"a\", output_checks=[1])", "target(name=\"a\", timeout=5)", "fail(\"boom\")", "target(name=\"a\", tags=[None])",
	},
}

// RunC16: BUILD loaders agree across formats, are deterministic, and never crash.
func RunC16(tier string) int {
	run := report.New("C16", tier, "exploration",
		"(1) seeded package definitions (names with - . _, commands with quotes/backslashes/#/:/$, relative and absolute dependencies, globs with excludes, file/dir outputs, bin outputs, tags, fingerprints with odd keys, platforms, timeouts, aliases) rendered into BUILD.json, BUILD.yaml, BUILD.star and annotated Makefiles; normalised `grog graph -o json` must agree across formats (Makefile: every field it can express except the command); "+
			"(2) workspaces of 60 packages loaded with the race-detector binary under num_workers 1/2/16 and repeatedly: identical output, no race report in loading; "+
			"(3) byte-level corruptions (flip, delete, insert, truncate, duplicate/delete span, splice between formats, deep nesting) and grammar-aware malformed files for every format: `grog check` must exit with a status and print no panic / fatal error / goroutine dump and must not hang; "+
			"non-trivial = agreement case with >= 2 targets, or corruption that makes grog reject the file; distinct = format + corruption kind + outcome")
	st, err := e1.Prepare(run, true)
	if err != nil {
		run.Infra(err.Error())
		return run.Finish()
	}
	defer st.Cleanup()
	mkMachine := func(dir, ws string, bin string) *grog.Machine {
		m := &grog.Machine{Bin: bin, Workspace: ws, Root: filepath.Join(dir, "root"), Home: filepath.Join(dir, "home"), Trace: filepath.Join(dir, "trace"), VctlBin: st.Vctl}
		_ = os.MkdirAll(m.Home, 0755)
		return m
	}
	files := map[string]string{"json": "BUILD.json", "yaml": "BUILD.yaml", "star": "BUILD.star", "star2": "BUILD.star", "make": "Makefile", "makelong": "Makefile", "jsond": "BUILD.json", "yamld": "BUILD.yaml"}

	// (1) cross-format agreement
	nAgree := tierN(tier, 60, 1200)
	e1.Parallel(nAgree, func(i int) {
		r := rng.Derive(uint64(run.Seed), "C16-agree", fmt.Sprint(i))
		mkSafe := r.Chance(1, 2)
		p := genDTO(r, mkSafe)
		dir := filepath.Join(st.Base, fmt.Sprintf("a%d", i))
		defer os.RemoveAll(dir)
		render := map[string]string{"json": p.JSON(), "yaml": p.YAML(), "star": p.Starlark()}
		if mkSafe {
			render["make"] = p.Makefile()
			if i%4 == 0 {
				// the same Makefile behind a generated header line longer than any line buffer: grog
				// may refuse it, but if it loads it, it loads all of it
				render["makelong"] = "# " + strings.Repeat("generated ", 7000) + "\n" + p.Makefile()
			}
		}
		loaded := map[string]map[string]string{}
		var fmts []string
		for f := range render {
			fmts = append(fmts, f)
		}
		sort.Strings(fmts)
		// the same effective platforms expressed through a package-level default
		dflt := rng.Pick(r, [][]string{{"linux/amd64"}, {"linux/amd64", "darwin/arm64"}, {"plan9/mips"}, {"darwin/arm64"}})
		pd := p.withDefaults(dflt)
		render["jsond"], render["yamld"] = pd.JSON(), pd.YAML()
		fmts = append(fmts, "jsond", "yamld")
		for _, t := range p.Targets {
			switch {
			case sameSet(t.Platforms, dflt):
				run.Count("targets_inheriting_default_platforms", 1)
			case len(t.Platforms) == 0:
				run.Count("targets_with_explicit_empty_platforms_under_a_default", 1)
			}
		}
		structured := p.StarlarkStructured(r.Chance(1, 2))
		render["star2"] = structured["BUILD.star"]
		fmts = append(fmts, "star2")
		for _, f := range fmts {
			ws := filepath.Join(dir, "ws-"+f)
			if err := writePkgWS(ws, files[f], render[f]); err != nil {
				run.Infra(err.Error())
				return
			}
			if f == "star2" {
				_ = os.MkdirAll(filepath.Join(ws, "pk", "lib"), 0755)
				for name, content := range structured {
					_ = os.WriteFile(filepath.Join(ws, "pk", filepath.FromSlash(name)), []byte(content), 0644)
				}
			}
			res := mkMachine(dir, ws, st.Grog).Run([]string{"graph", "-o", "json", "//..."}, grog.RunOpts{Build: "g"})
			run.Eval(1)
			run.Count("graph_loads:"+f, 1)
			if c := res.Crashed(); c != "" {
				run.Violation("loader-crash format="+f, "grog graph crashed on a generated "+files[f]+": "+c, map[string]any{"format": f, "file": render[f], "stderr": tailS(res.Stderr, 1500)})
				return
			}
			if res.Exit != 0 && f == "makelong" {
				run.Count("makefiles_with_an_overlong_line_refused", 1)
				continue
			}
			if res.Exit != 0 {
				run.Violation("valid-file-rejected format="+f, fmt.Sprintf("grog graph exited %d on a generated %s: %s", res.Exit, files[f], tailS(res.Stdout+res.Stderr, 400)), map[string]any{"format": f, "file": render[f]})
				return
			}
			n, err := normalise(res.Stdout, false)
			if err != nil {
				run.Inconclusive("graph output not JSON: " + tailS(res.Stdout, 200))
				return
			}
			loaded[f] = n
		}
		base := loaded["json"]
		for _, f := range fmts {
			if f == "json" || loaded[f] == nil {
				continue
			}
			for lb, want := range base {
				got, ok := loaded[f][lb]
				if f == "make" || f == "makelong" {
					// compare without the command
					var wm, gm map[string]any
					_ = json.Unmarshal([]byte(want), &wm)
					_ = json.Unmarshal([]byte(got), &gm)
					// the command of a Makefile target is "make <goal>"
					var lbm map[string]string
					_ = json.Unmarshal([]byte(lb), &lbm)
					wm["command"] = "make " + lbm["name"]
					wb, _ := json.Marshal(wm)
					gb, _ := json.Marshal(gm)
					want, got = string(wb), string(gb)
				}
				if !ok || want != got {
					field := diffField(want, got)
					run.Violation(fmt.Sprintf("formats-disagree format=%s field=%s", f, field), fmt.Sprintf("node %s loads differently from %s than from BUILD.json: json=%s %s=%s", lb, files[f], want, f, got),
						map[string]any{"json_file": render["json"], "other_file": render[f], "format": f})
					return
				}
			}
			if len(loaded[f]) != len(base) {
				run.Violation("formats-disagree format="+f+" field=node-set", fmt.Sprintf("%s defines %d nodes, BUILD.json %d", files[f], len(loaded[f]), len(base)), map[string]any{"json_file": render["json"], "other_file": render[f]})
				return
			}
		}
		if len(p.Targets) >= 2 {
			run.Nontrivial(fmt.Sprintf("agree|%d|%d|%v", len(p.Targets), len(p.Aliases), mkSafe))
		}
		run.Sample(map[string]any{"package": p, "formats": fmts})
	})

	// (2) determinism across worker counts, under the race detector
	nDet := tierN(tier, 2, 12)
	for d := 0; d < nDet; d++ {
		r := rng.Derive(uint64(run.Seed), "C16-det", fmt.Sprint(d))
		dir := filepath.Join(st.Base, fmt.Sprintf("d%d", d))
		ws := filepath.Join(dir, "ws")
		for k := 0; k < 60; k++ {
			p := genDTO(r, false)
			// make labels unique per package and dependencies package-local
			for ti := range p.Targets {
				for di, dep := range p.Targets[ti].Deps {
					p.Targets[ti].Deps[di] = ":" + strings.TrimPrefix(strings.TrimPrefix(dep, "//pk"), ":")
				}
			}
			pd := filepath.Join(ws, fmt.Sprintf("p%02d", k), "sub")
			_ = os.MkdirAll(pd, 0755)
			var file, content string
			switch k % 3 {
			case 0:
				file, content = "BUILD.json", p.JSON()
			case 1:
				file, content = "BUILD.yaml", p.YAML()
			default:
				file, content = "BUILD.star", p.Starlark()
			}
			_ = os.WriteFile(filepath.Join(pd, file), []byte(content), 0644)
			if k%4 == 0 {
				// one package defined by several BUILD files at once (distinct target names)
				for fi, extra := range []string{"BUILD.json", "BUILD.yaml", "BUILD.star", "Makefile"} {
					if extra == file {
						continue
					}
					q := genDTO(r, true)
					for ti := range q.Targets {
						q.Targets[ti].Name = fmt.Sprintf("m%d_%s", fi, q.Targets[ti].Name)
						q.Targets[ti].Deps = nil
						q.Targets[ti].Outputs = nil
					}
					var c string
					switch extra {
					case "BUILD.json":
						c = q.JSON()
					case "BUILD.yaml":
						c = q.YAML()
					case "BUILD.star":
						c = q.Starlark()
					default:
						c = q.Makefile()
					}
					_ = os.WriteFile(filepath.Join(pd, extra), []byte(c), 0644)
				}
				for si := 0; si < 3; si++ {
					script := fmt.Sprintf("#!/bin/sh\n# @grog\n# name: s%d_%d\n# tags: [\"x\"]\necho hi\n", k, si)
					_ = os.WriteFile(filepath.Join(pd, fmt.Sprintf("s%d.grog.sh", si)), []byte(script), 0755)
				}
			}
		}
		var first string
		for _, w := range []int{1, 2, 16, 16, 2} {
			_ = os.WriteFile(filepath.Join(ws, "grog.toml"), []byte(fmt.Sprintf("num_workers = %d\n", w)), 0644)
			m := mkMachine(dir, ws, st.GrogR)
			raceLog := filepath.Join(dir, "race")
			m.ExtraEnv = []string{"GORACE=halt_on_error=0 log_path=" + raceLog}
			res := m.Run([]string{"graph", "-o", "json", "//..."}, grog.RunOpts{Build: "g", Timeout: 120 * time.Second})
			run.Eval(1)
			run.Count("determinism_loads", 1)
			if c := res.Crashed(); c != "" {
				run.Violation("loader-crash multi-package", "grog graph crashed loading 60 packages: "+c, map[string]any{"stderr": tailS(res.Stderr, 1500), "num_workers": w})
				break
			}
			matches, _ := filepath.Glob(raceLog + ".*")
			if res.Exit != 0 && len(matches) == 0 { // (a race-instrumented binary exits 66 after reporting a race)
				run.Inconclusive("determinism workspace rejected: " + tailS(res.Stdout+res.Stderr, 300))
				break
			}
			for _, mf := range matches {
				b, _ := os.ReadFile(mf)
				for _, rc := range e2.ParseRaces(string(b)) {
					if strings.Contains(rc.Sig, "loading") {
						run.Violation("race-in-loading "+rc.Sig, "race report while loading BUILD files with num_workers="+fmt.Sprint(w)+": "+rc.Sig, map[string]any{"report": rc.Report})
					} else {
						run.Count("race_reports_elsewhere(lead)", 1)
					}
				}
				_ = os.Remove(mf)
			}
			if first == "" {
				first = res.Stdout
				run.Nontrivial(fmt.Sprintf("det|%d", d))
			} else if res.Stdout != first {
				run.Violation("loaded-graph-depends-on-worker-count", fmt.Sprintf("grog graph -o json differs between runs (num_workers=%d)", w), map[string]any{"num_workers": w})
				break
			}
		}
		_ = os.RemoveAll(dir)
	}

	// (2b) what a package's globs resolve to does not depend on which other packages are loaded
	// next to it: a parent package globbing into the directory of a nested package, the nested
	// package using the pattern without the prefix, siblings with equal patterns
	if report.Part("nestedglobs") {
		c16NestedGlobs(run, st)
	}
	// (2c) Starlark files that compute from the platform names see the selected platform (the one
	// JSON / YAML platform selectors are matched against), in the BUILD file and in loaded modules
	if report.Part("starplatform") {
		c16StarPlatform(run, st)
	}
	// (3) corruptions
	nCor := tierN(tier, 1600, 60000)
	e1.Parallel(nCor, func(i int) {
		r := rng.Derive(uint64(run.Seed), "C16-corrupt", fmt.Sprint(i))
		p := genDTO(r, true)
		render := map[string]string{"json": p.JSON(), "yaml": p.YAML(), "star": p.Starlark(), "make": p.Makefile()}
		f := rng.Pick(r, []string{"json", "yaml", "star", "make"})
		var text, kind string
		if ga := grammarAware[files[f]]; r.Chance(1, 6) && len(ga) > 0 {
			text, kind = ga[r.Intn(len(ga))], "grammar-aware"
		} else {
			text, kind = corrupt(r, render[f], []string{render["json"], render["yaml"], render["star"], render["make"]})
			if r.Chance(1, 4) {
				text, _ = corrupt(r, text, []string{render["json"]})
				kind += "+second"
			}
		}
		dir := filepath.Join(st.Base, fmt.Sprintf("x%d", i))
		defer os.RemoveAll(dir)
		ws := filepath.Join(dir, "ws")
		if err := writePkgWS(ws, files[f], text); err != nil {
			run.Infra(err.Error())
			return
		}
		res := mkMachine(dir, ws, st.Grog).Run([]string{"check"}, grog.RunOpts{Build: "g", Timeout: 30 * time.Second})
		run.Eval(1)
		run.Count("corrupt_files:"+f, 1)
		replay := map[string]any{"format": f, "file_name": files[f], "kind": kind, "content": text, "stderr": tailS(res.Stderr, 2000)}
		switch {
		case res.TimedOut:
			run.Violation("loader-hang format="+f, fmt.Sprintf("grog check did not exit within the cap on a malformed %s (%s)", files[f], kind), replay)
		case res.Crashed() != "" || res.Signaled:
			run.Violation("loader-crash format="+f+" "+crashFrame(res.Stderr), fmt.Sprintf("grog check crashed on a malformed %s (%s): %s", files[f], kind, res.Crashed()), replay)
		case res.Exit != 0:
			run.Count("rejected_with_error", 1)
			run.Nontrivial(f + "|" + kind + "|rejected")
		default:
			run.Count("accepted", 1)
			run.Nontrivial(f + "|" + kind + "|accepted")
		}
	})
	// (4) typed fuzzing, adversarial programs
	c16TypedPart(run, st, tier)
	run.Assume("memory bombs (a Starlark program that doubles a string 40 times) are not generated: they would take the sandbox down with them")
	run.Assume("pkl BUILD files are not covered (no pkl CLI offline); script targets (*.grog.sh) are covered only through corruptions of Makefile-style annotations")
	return run.Finish()
}

func crashFrame(stderr string) string {
	for _, line := range strings.Split(stderr, "\n") {
		line = strings.TrimSpace(line)
		if strings.HasPrefix(line, "grog/internal/") {
			if i := strings.LastIndex(line, "("); i > 0 {
				line = line[:i]
			}
			return "site=" + strings.TrimPrefix(line, "grog/internal/")
		}
	}
	return "site=unknown"
}

func diffField(a, b string) string {
	var am, bm map[string]any
	_ = json.Unmarshal([]byte(a), &am)
	_ = json.Unmarshal([]byte(b), &bm)
	var ks []string
	for k := range am {
		ab, _ := json.Marshal(am[k])
		bb, _ := json.Marshal(bm[k])
		if string(ab) != string(bb) {
			ks = append(ks, k)
		}
	}
	for k := range bm {
		if _, ok := am[k]; !ok {
			ks = append(ks, k)
		}
	}
	sort.Strings(ks)
	if len(ks) == 0 {
		return "missing-node"
	}
	return strings.Join(ks, "+")
}

func c16NestedGlobs(run *report.Run, st *e1.Setup) {
	dir := filepath.Join(st.Base, "nestedglobs")
	defer os.RemoveAll(dir)
	type layout struct {
		name  string
		files map[string]string
		want  map[string][]string // label -> resolved inputs
	}
	src := map[string]string{"lib/gen/a.txt": "a", "lib/gen/b.txt": "b", "lib/gen/deep/c.txt": "c", "lib/x.md": "x", "lib2/gen/a.txt": "a2", "lib2/y.md": "y"}
	nested := "targets:\n  - name: g\n    command: \"true\"\n    inputs: [\"*.txt\"]\n"
	nestedJSON := `{"targets":[{"name":"g","command":"true","inputs":["*.txt"]}]}`
	parent := `{"targets":[{"name":"t","command":"true","inputs":["gen/*.txt","*.md"]},{"name":"deep","command":"true","inputs":["gen/**/*.txt"]}]}`
	sibling := `{"targets":[{"name":"t","command":"true","inputs":["gen/*.txt","*.md"]}]}`
	layouts := []layout{
		{"nested-alone", map[string]string{"lib/gen/BUILD.yaml": nested}, map[string][]string{"//lib/gen:g": {"a.txt", "b.txt"}}},
		{"nested-next-to-its-parent", map[string]string{"lib/gen/BUILD.json": nestedJSON, "lib/BUILD.json": parent, "lib2/BUILD.json": sibling},
			map[string][]string{"//lib/gen:g": {"a.txt", "b.txt"}, "//lib:t": {"gen/a.txt", "gen/b.txt", "x.md"}, "//lib:deep": {"gen/a.txt", "gen/b.txt", "gen/deep/c.txt"}, "//lib2:t": {"gen/a.txt", "y.md"}}},
	}
	for li, lo := range layouts {
		ws := filepath.Join(dir, fmt.Sprintf("ws%d", li))
		for f, c := range src {
			_ = os.MkdirAll(filepath.Dir(filepath.Join(ws, f)), 0755)
			_ = os.WriteFile(filepath.Join(ws, f), []byte(c), 0644)
		}
		for f, c := range lo.files {
			_ = os.MkdirAll(filepath.Dir(filepath.Join(ws, f)), 0755)
			_ = os.WriteFile(filepath.Join(ws, f), []byte(c), 0644)
		}
		for _, w := range []int{1, 1, 2, 2, 8, 8, 8, 3} {
			_ = os.WriteFile(filepath.Join(ws, "grog.toml"), []byte(fmt.Sprintf("num_workers = %d\n", w)), 0644)
			m := &grog.Machine{Bin: st.Grog, Workspace: ws, Root: filepath.Join(dir, "root"), Home: filepath.Join(dir, "home"), Trace: filepath.Join(dir, "trace"), VctlBin: st.Vctl}
			_ = os.MkdirAll(m.Home, 0755)
			res := m.Run([]string{"graph", "-o", "json", "//..."}, grog.RunOpts{Build: "g", Timeout: 60 * time.Second})
			run.Eval(1)
			run.Count("nested_glob_loads", 1)
			if res.Exit != 0 || res.Crashed() != "" {
				run.Inconclusive("nested-glob workspace not loaded: " + tailS(res.Stdout+res.Stderr, 300))
				return
			}
			var g struct {
				Nodes []struct {
					Label struct {
						Package string `json:"package"`
						Name    string `json:"name"`
					} `json:"label"`
					Inputs []string `json:"inputs"`
				} `json:"nodes"`
			}
			if err := json.Unmarshal([]byte(res.Stdout), &g); err != nil {
				run.Inconclusive("graph -o json not parsed: " + err.Error())
				return
			}
			got := map[string][]string{}
			for _, n := range g.Nodes {
				in := append([]string{}, n.Inputs...)
				sort.Strings(in)
				got["//"+n.Label.Package+":"+n.Label.Name] = in
			}
			for l, want := range lo.want {
				if strings.Join(got[l], " ") != strings.Join(want, " ") {
					run.Violation("resolved-inputs-depend-on-the-other-packages-loaded", fmt.Sprintf("layout %s, num_workers=%d: %s resolves its inputs to %v; its patterns match %v", lo.name, w, l, got[l], want),
						map[string]any{"layout": lo.name, "build_files": lo.files, "num_workers": w, "got": got, "want": lo.want})
					return
				}
			}
			run.Nontrivial(fmt.Sprintf("nestedglobs|%s|w%d", lo.name, w))
		}
	}
}

func c16StarPlatform(run *report.Run, st *e1.Setup) {
	dir := filepath.Join(st.Base, "starplatform")
	defer os.RemoveAll(dir)
	ws := filepath.Join(dir, "ws")
	_ = os.MkdirAll(filepath.Join(ws, "st", "lib"), 0755)
	_ = os.MkdirAll(filepath.Join(ws, "js"), 0755)
	_ = os.WriteFile(filepath.Join(ws, "grog.toml"), []byte("num_workers = 2\n"), 0644)
	_ = os.WriteFile(filepath.Join(ws, "st", "lib", "defs.star"), []byte("def tool():\n    target(name = \"tool_\" + GROG_OS, command = \"echo \" + GROG_ARCH, tags = [GROG_PLATFORM])\n"), 0644)
	_ = os.WriteFile(filepath.Join(ws, "st", "BUILD.star"), []byte("load(\"lib/defs.star\", \"tool\")\ntool()\ntarget(name = \"pack_\" + GROG_OS + \"_\" + GROG_ARCH, command = \"echo \" + GROG_PLATFORM)\n"), 0644)
	_ = os.WriteFile(filepath.Join(ws, "js", "BUILD.json"), []byte(`{"targets":[{"name":"only_plan9","command":"true","platforms":["plan9/mips"]},{"name":"only_host","command":"true","platforms":["linux/amd64","linux/arm64","darwin/arm64","darwin/amd64"]}]}`), 0644)
	for _, pl := range []string{"", "plan9/mips"} {
		m := &grog.Machine{Bin: st.Grog, Workspace: ws, Root: filepath.Join(dir, "root"), Home: filepath.Join(dir, "home"), Trace: filepath.Join(dir, "trace"), VctlBin: st.Vctl}
		_ = os.MkdirAll(m.Home, 0755)
		args := []string{"list", "//..."}
		if pl != "" {
			args = []string{"list", "--platform", pl, "//..."}
		}
		res := m.Run(args, grog.RunOpts{Build: "g", Timeout: 60 * time.Second})
		run.Eval(1)
		run.Count("starlark_platform_loads", 1)
		got := linesOf(res.Stdout)
		sort.Strings(got)
		if res.Exit != 0 {
			run.Inconclusive("starlark platform workspace not listed: " + tailS(res.Stdout+res.Stderr, 300))
			return
		}
		// the JSON package says which platform the invocation selected
		sel := ""
		for _, l := range got {
			if l == "//js:only_plan9" {
				sel = "plan9/mips"
			}
		}
		if pl == "" && sel != "" || pl != "" && sel == "" {
			run.Inconclusive(fmt.Sprintf("--platform %q did not select what the JSON selectors say: %v", pl, got))
			return
		}
		if pl == "" {
			run.Nontrivial("starplatform|host")
			continue // (the host's names are not known to the checker; judged under --platform only)
		}
		want := []string{"//js:only_plan9", "//st:pack_plan9_mips", "//st:tool_plan9"}
		if strings.Join(got, " ") != strings.Join(want, " ") {
			run.Violation("formats-disagree format=star field=platform-constants", fmt.Sprintf("grog list --platform plan9/mips //... printed %v: the JSON selectors are matched against plan9/mips, the Starlark file computed its names from another platform (expected %v)", got, want),
				map[string]any{"got": got, "want": want, "output": tailS(res.Stdout+res.Stderr, 400)})
			return
		}
		run.Nontrivial("starplatform|" + pl)
	}
}
