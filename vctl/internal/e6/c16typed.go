package e6

import (
	"encoding/json"
	"fmt"
	"os"
	"path/filepath"
	"sort"
	"strings"
	"time"

	"vctl/internal/e1"
	"vctl/internal/grog"
	"vctl/internal/report"
	"vctl/internal/rng"
)

// Typed ("type confusion") fuzzing of the BUILD loaders: the files are syntactically valid JSON /
// YAML / Starlark, but fields carry values of the wrong type or semantically hostile strings
// (labels, output specifiers, durations, platform names). Byte-level corruption rarely gets past
// the parser; these inputs reach the typed decoding, the DTO -> model conversion and the graph
// construction behind it.

var evilStrings = []string{"", " ", "//", ":", "//:", "//a:", ":a:b", "a:b:c", "//...", "...", ":all", "//:all", "a/../b", "/abs", "..", "../x", "a b", "a\tb", "a\nb",
	"a\\u0000b", "dir::", "dir::/", "dir::..", "docker::", "docker::x y", "unknown::x", "::", "x::", "-5s", "5", "1e9h", "999999999999h", "s", "0s", "5m5", "linux/", "/amd64", "linux/amd64/x",
	"no-cache", "multiplatform-cache", "testonly", "*", "**", "[", "{a,b", "a//b", "//a//b:c", "@grog", "${HOME}", "$(id)", "`id`", "é", "名前", strings.Repeat("x", 5000), "a/" + strings.Repeat("d/", 300) + "f"}

// jval is a JSON-like value that can be rendered as JSON (= flow YAML) and as a Starlark literal.
type jval struct {
	kind string // null bool int float str list dict
	b    bool
	n    string
	s    string
	l    []jval
	keys []string
	vals []jval
}

func (v jval) JSON() string {
	switch v.kind {
	case "null":
		return "null"
	case "bool":
		return fmt.Sprint(v.b)
	case "int", "float":
		return v.n
	case "str":
		if v.s == "a\\u0000b" {
			return "\"a\\u0000b\""
		}
		b, _ := json.Marshal(v.s)
		return string(b)
	case "list":
		var xs []string
		for _, x := range v.l {
			xs = append(xs, x.JSON())
		}
		return "[" + strings.Join(xs, ",") + "]"
	default:
		var xs []string
		for i, k := range v.keys {
			kb, _ := json.Marshal(k)
			xs = append(xs, string(kb)+":"+v.vals[i].JSON())
		}
		return "{" + strings.Join(xs, ",") + "}"
	}
}

func (v jval) Star() string {
	switch v.kind {
	case "null":
		return "None"
	case "bool":
		if v.b {
			return "True"
		}
		return "False"
	case "int", "float":
		return v.n
	case "str":
		if v.s == "a\\u0000b" {
			return "\"a\\x00b\""
		}
		b, _ := json.Marshal(v.s)
		return string(b)
	case "list":
		var xs []string
		for _, x := range v.l {
			xs = append(xs, x.Star())
		}
		return "[" + strings.Join(xs, ", ") + "]"
	default:
		var xs []string
		for i, k := range v.keys {
			kb, _ := json.Marshal(k)
			xs = append(xs, string(kb)+": "+v.vals[i].Star())
		}
		return "{" + strings.Join(xs, ", ") + "}"
	}
}

func jstr(s string) jval { return jval{kind: "str", s: s} }

// hostility is the per-mille chance that a generated element is hostile (wrong type or evil
// string) rather than benign; cases draw it from {8, 30, 120} so that some files have exactly
// one hostile element in an otherwise valid package (reaching graph construction and the
// commands behind it) and others are hostile throughout.
type tgen struct {
	r *rng.R
	h int
}

func (g tgen) evil() bool { return g.r.Intn(1000) < g.h }

func anyVal(r *rng.R, depth int) jval {
	switch k := r.Intn(9); {
	case k == 0:
		return jval{kind: "null"}
	case k == 1:
		return jval{kind: "bool", b: r.Chance(1, 2)}
	case k == 2:
		return jval{kind: "int", n: rng.Pick(r, []string{"0", "-1", "1", "5", "2147483648", "9223372036854775807", "99999999999999999999999999"})}
	case k == 3:
		return jval{kind: "float", n: rng.Pick(r, []string{"0.5", "-1.5", "1e30", "1e-30"})}
	case k <= 5 || depth <= 0:
		return jstr(rng.Pick(r, evilStrings))
	case k <= 7:
		n := r.Intn(4)
		v := jval{kind: "list"}
		for i := 0; i < n; i++ {
			v.l = append(v.l, anyVal(r, depth-1))
		}
		return v
	default:
		n := r.Intn(3)
		v := jval{kind: "dict"}
		seen := map[string]bool{}
		for i := 0; i < n; i++ {
			k := rng.Pick(r, []string{"a", "command", "expected_output", "", "k=v", "x,y", "name"})
			if seen[k] {
				continue
			}
			seen[k] = true
			v.keys = append(v.keys, k)
			v.vals = append(v.vals, anyVal(r, depth-1))
		}
		return v
	}
}

// strList: elements from the benign pool, hostile ones (evil string or any type) by chance
func (g tgen) strList(benign []string) jval {
	r := g.r
	v := jval{kind: "list"}
	for i, n := 0, r.Intn(4); i < n; i++ {
		if len(benign) == 0 && !g.evil() {
			continue
		}
		switch {
		case len(benign) == 0 || (g.evil() && r.Chance(1, 3)):
			v.l = append(v.l, anyVal(r, 1))
		case g.evil():
			v.l = append(v.l, jstr(rng.Pick(r, evilStrings)))
		default:
			v.l = append(v.l, jstr(rng.Pick(r, benign)))
		}
	}
	return v
}

func (g tgen) strDict() jval {
	r := g.r
	v := jval{kind: "dict"}
	seen := map[string]bool{}
	for i, n := 0, r.Intn(3); i < n; i++ {
		k := rng.Pick(r, []string{"k", "arch", "ver", "a.b", "K_1"})
		if g.evil() {
			k = rng.Pick(r, evilStrings[:20])
		}
		if seen[k] {
			continue
		}
		seen[k] = true
		v.keys = append(v.keys, k)
		switch {
		case g.evil() && r.Chance(1, 3):
			v.vals = append(v.vals, anyVal(r, 1))
		case g.evil():
			v.vals = append(v.vals, jstr(rng.Pick(r, evilStrings)))
		default:
			v.vals = append(v.vals, jstr(rng.Pick(r, []string{"1", "x", "v2", ""})))
		}
	}
	return v
}

func (g tgen) str(benign []string, hostile []string) jval {
	if g.evil() {
		return jstr(rng.Pick(g.r, hostile))
	}
	return jstr(rng.Pick(g.r, benign))
}

// typedTarget returns the fields of one target entry.
func (g tgen) typedTarget(idx, ntargets int) ([]string, []jval) {
	r := g.r
	name := "t" + fmt.Sprint(idx)
	if idx == 0 {
		name = "a"
	}
	var labels []string
	for j := 0; j < idx; j++ { // only earlier targets: acyclic unless hostile
		n := "t" + fmt.Sprint(j)
		if j == 0 {
			n = "a"
		}
		labels = append(labels, ":"+n, "//pk:"+n)
	}
	if len(labels) == 0 {
		labels = []string{}
	}
	hostileLabels := append([]string{":missing", ":" + name, "//pk:" + name, ":t9", ":x_test", ":al0"}, evilStrings...)
	inPaths := []string{"a.txt", "*.txt", "src/**/*.txt", "b1.txt", "src/x.txt"}
	outPaths := []string{fmt.Sprintf("o%d.txt", idx), fmt.Sprintf("dir::od%d", idx), fmt.Sprintf("sub%d/o.txt", idx)}
	hostilePaths := append([]string{"out.txt", "dir::outd", "o0.txt", "dir::od0", "dir::.", "dir::sub0", "a.txt"}, evilStrings...)
	fields := map[string]func() jval{
		"name": func() jval {
			return g.str([]string{name}, append([]string{"a", "t0", "x_test", "sub", ""}, evilStrings...))
		},
		"command": func() jval {
			return g.str([]string{"true", "echo hi", "exit 0"}, []string{"", "exit 1", "\x00", "sleep 0.1"})
		},
		"dependencies": func() jval {
			if len(labels) == 0 {
				return g.strList([]string{":missing"}[:0])
			}
			return g.strList(labels)
		},
		"inputs":                func() jval { return g.strList(inPaths) },
		"exclude_inputs":        func() jval { return g.strList(inPaths) },
		"outputs":               func() jval { return g.strList(outPaths) },
		"bin_output":            func() jval { return g.str([]string{"bin" + fmt.Sprint(idx)}, hostilePaths) },
		"tags":                  func() jval { return g.strList([]string{"no-cache", "x", "y", "multiplatform-cache", "z"}) },
		"fingerprint":           func() jval { return g.strDict() },
		"platforms":             func() jval { return g.strList([]string{"linux/amd64", "darwin/arm64", "linux/arm64"}) },
		"environment_variables": func() jval { return g.strDict() },
		"timeout": func() jval {
			return g.str([]string{"5s", "1m", "90s"}, []string{"", "-5s", "5", "bogus", "1e9h", "0s", "99999999h", "1.5.5s"})
		},
		"output_checks": func() jval {
			v := jval{kind: "list"}
			for i, n := 0, r.Intn(3); i < n; i++ {
				if g.evil() {
					v.l = append(v.l, anyVal(r, 2))
					continue
				}
				d := jval{kind: "dict", keys: []string{"command"}, vals: []jval{g.str([]string{"true", "echo x"}, []string{"false", "", "\x00"})}}
				if r.Chance(1, 2) {
					d.keys = append(d.keys, "expected_output")
					if g.evil() {
						d.vals = append(d.vals, anyVal(r, 1))
					} else {
						d.vals = append(d.vals, jstr("x"))
					}
				}
				v.l = append(v.l, d)
			}
			return v
		},
	}
	_ = hostileLabels
	var ks []string
	for k := range fields {
		ks = append(ks, k)
	}
	sort.Strings(ks)
	var outK []string
	var outV []jval
	for _, k := range ks {
		if k != "name" && k != "command" && !r.Chance(1, 3) {
			continue
		}
		if k == "name" && g.evil() {
			continue // name missing
		}
		v := fields[k]()
		switch {
		case g.evil() && r.Chance(1, 2):
			v = anyVal(r, 2) // wrong type altogether
		case g.evil() && k == "dependencies":
			v.l = append(v.l, jstr(rng.Pick(r, hostileLabels)))
		case g.evil() && (k == "outputs" || k == "inputs" || k == "exclude_inputs"):
			v.l = append(v.l, jstr(rng.Pick(r, hostilePaths)))
		}
		outK = append(outK, k)
		outV = append(outV, v)
	}
	if g.evil() {
		outK = append(outK, rng.Pick(r, []string{"bogus", "Name", "deps", "output"}))
		outV = append(outV, anyVal(r, 1))
	}
	return outK, outV
}

type typedPkg struct {
	tk [][]string
	tv [][]jval
	ak [][]string
	av [][]jval
	// top-level oddities
	targetsVal *jval
	extraKey   string
	extraVal   jval
	defPlat    *jval
}

func genTyped(r *rng.R) (typedPkg, int) {
	var p typedPkg
	g := tgen{r: r, h: rng.Pick(r, []int{8, 30, 120})}
	nt := r.Range(1, 4)
	for i := 0; i < nt; i++ {
		k, v := g.typedTarget(i, nt)
		p.tk, p.tv = append(p.tk, k), append(p.tv, v)
	}
	for i, n := 0, r.Intn(3); i < n; i++ {
		k := []string{"name", "actual"}
		targets := []string{":a", "//pk:a"}
		if nt > 1 {
			targets = append(targets, ":t1")
		}
		if i > 0 {
			targets = append(targets, ":al0")
		}
		v := []jval{g.str([]string{"al" + fmt.Sprint(i)}, append([]string{"a", "t0", "al0"}, evilStrings...)),
			g.str(targets, append([]string{":missing", ":al0", ":al1", ":al" + fmt.Sprint(i)}, evilStrings...))}
		if g.evil() {
			v[r.Intn(2)] = anyVal(r, 1)
		}
		if g.evil() {
			k, v = k[:1], v[:1]
		}
		p.ak, p.av = append(p.ak, k), append(p.av, v)
	}
	if g.evil() {
		x := anyVal(r, 2)
		p.targetsVal = &x
	}
	if g.evil() {
		p.extraKey, p.extraVal = rng.Pick(r, []string{"environments", "default_platforms", "bogus", "Targets"}), anyVal(r, 2)
	}
	if r.Chance(1, 4) {
		x := g.strList([]string{"linux/amd64", "darwin/arm64"})
		p.defPlat = &x
	}
	return p, g.h
}

func entries(ks [][]string, vs [][]jval) string {
	var xs []string
	for i := range ks {
		d := jval{kind: "dict", keys: ks[i], vals: vs[i]}
		xs = append(xs, d.JSON())
	}
	return "[" + strings.Join(xs, ",") + "]"
}

func (p typedPkg) JSON() string {
	var parts []string
	if p.targetsVal != nil {
		parts = append(parts, "\"targets\":"+p.targetsVal.JSON())
	} else {
		parts = append(parts, "\"targets\":"+entries(p.tk, p.tv))
	}
	if len(p.ak) > 0 {
		parts = append(parts, "\"aliases\":"+entries(p.ak, p.av))
	}
	if p.defPlat != nil {
		parts = append(parts, "\"default_platforms\":"+p.defPlat.JSON())
	}
	if p.extraKey != "" && !(p.extraKey == "default_platforms" && p.defPlat != nil) {
		kb, _ := json.Marshal(p.extraKey)
		parts = append(parts, string(kb)+":"+p.extraVal.JSON())
	}
	return "{" + strings.Join(parts, ",") + "}\n"
}

func (p typedPkg) Star() string {
	var sb strings.Builder
	call := func(fn string, ks []string, vs []jval) {
		var args []string
		for i, k := range ks {
			if !isIdent(k) {
				continue
			}
			args = append(args, k+" = "+vs[i].Star())
		}
		sb.WriteString(fn + "(" + strings.Join(args, ", ") + ")\n")
	}
	for i := range p.tk {
		call("target", p.tk[i], p.tv[i])
	}
	for i := range p.ak {
		call("alias", p.ak[i], p.av[i])
	}
	return sb.String()
}

func isIdent(s string) bool {
	if s == "" {
		return false
	}
	for i, c := range s {
		if !(c == '_' || (c >= 'a' && c <= 'z') || (c >= 'A' && c <= 'Z') || (i > 0 && c >= '0' && c <= '9')) {
			return false
		}
	}
	return true
}

// adversarial Starlark programs (fixed list): must end in an error exit, never a crash
var adversarialStar = map[string]map[string]string{
	"recursion":          {"BUILD.star": "def f(n):\n    return f(n + 1)\nf(0)\n"},
	"mutual-recursion":   {"BUILD.star": "def f(n):\n    return g(n)\ndef g(n):\n    return f(n)\nf(0)\n"},
	"self-load":          {"BUILD.star": "load(\"BUILD.star\", \"x\")\n"},
	"load-cycle":         {"BUILD.star": "load(\"a.star\", \"x\")\n", "a.star": "load(\"b.star\", \"y\")\nx = 1\n", "b.star": "load(\"a.star\", \"x\")\ny = 2\n"},
	"load-escape":        {"BUILD.star": "load(\"../../../../../../etc/passwd\", \"x\")\n"},
	"load-dir":           {"BUILD.star": "load(\".\", \"x\")\n"},
	"load-missing-sym":   {"BUILD.star": "load(\"a.star\", \"nope\")\n", "a.star": "x = 1\n"},
	"huge-repeat":        {"BUILD.star": "x = \"a\" * 10000000000\n"},
	"huge-list-repeat":   {"BUILD.star": "x = [0] * 3000000000\n"},
	"huge-int":           {"BUILD.star": "x = 1 << 100000\ntarget(name = \"a\", command = str(x % 7))\n"},
	"fail-call":          {"BUILD.star": "fail(\"boom\")\n"},
	"division-by-zero":   {"BUILD.star": "x = 1 // 0\n"},
	"index-out-of-range": {"BUILD.star": "x = [1][5]\n"},
	"builtin-as-value":   {"BUILD.star": "target(name = target, command = alias)\n"},
	"positional-args":    {"BUILD.star": "target(\"a\", \"true\", [\":b\"], 1, 2, 3, 4, 5, 6, 7, 8, 9, 10, 11, 12)\n"},
	"many-targets":       {"BUILD.star": "def mk():\n    for i in range(20000):\n        target(name = \"t%d\" % i, command = \"true\")\nmk()\n"},
	"frozen-mutation":    {"BUILD.star": "load(\"a.star\", \"l\")\nl.append(1)\n", "a.star": "l = []\n"},
	"target-in-module":   {"BUILD.star": "load(\"a.star\", \"x\")\ntarget(name = \"a\", command = \"true\")\n", "a.star": "target(name = \"a\", command = \"true\")\nx = 1\n"},
	"nul-in-source":      {"BUILD.star": "target(name = \"a\", command = \"true\")\n\x00\n"},
	"deep-nesting":       {"BUILD.star": "x = " + strings.Repeat("[", 20000) + strings.Repeat("]", 20000) + "\n"},
	"deep-json":          {"BUILD.json": strings.Repeat("[", 200000) + strings.Repeat("]", 200000)},
	"deep-json-in-field": {"BUILD.json": "{\"targets\":[{\"name\":\"a\",\"fingerprint\":" + strings.Repeat("{\"a\":", 100000) + "1" + strings.Repeat("}", 100000) + "}]}"},
	"yaml-alias-bomb":    {"BUILD.yaml": "a: &a [x,x,x,x,x,x,x,x,x]\nb: &b [*a,*a,*a,*a,*a,*a,*a,*a,*a]\nc: &c [*b,*b,*b,*b,*b,*b,*b,*b,*b]\nd: &d [*c,*c,*c,*c,*c,*c,*c,*c,*c]\ne: &e [*d,*d,*d,*d,*d,*d,*d,*d,*d]\nf: &f [*e,*e,*e,*e,*e,*e,*e,*e,*e]\ng: &g [*f,*f,*f,*f,*f,*f,*f,*f,*f]\ntargets: *g\n"},
	"yaml-merge-self":    {"BUILD.yaml": "targets:\n  - &t\n    name: a\n    <<: *t\n"},
	"yaml-deep":          {"BUILD.yaml": strings.Repeat("[", 20000) + strings.Repeat("]", 20000) + "\n"},
	"yaml-tags":          {"BUILD.yaml": "targets:\n  - name: !!binary aGk=\n    command: !!int \"5\"\n    timeout: !!float 1\n"},
	"makefile-long-line": {"Makefile": "# @grog\n# name: a\n# tags: [" + strings.Repeat("\"x\",", 200000) + "\"y\"]\nall:\n\t@true\n"},
	"makefile-many":      {"Makefile": strings.Repeat("# @grog\n# name: a\nall:\n\t@true\n", 5000)},
}

// longLoops do not terminate in any reasonable time; what is judged is that grog neither
// crashes nor ends with exit 0, and - the finding - whether it ever gives up.
var longLoops = map[string]map[string]string{
	"long-counting-loop":     {"BUILD.star": "def spin(n):\n    x = 0\n    for i in range(n):\n        x += i % 7\n    return x\nspin(1000000000000000)\ntarget(name = \"a\", command = \"true\")\n"},
	"long-loop-in-a-module":  {"BUILD.star": "load(\"a.star\", \"X\")\ntarget(name = \"a\", command = \"true\")\n", "a.star": "def spin(n):\n    x = 0\n    for i in range(n):\n        x += 1\n    return x\nX = spin(1000000000000000)\n"},
	"nested-loops":           {"BUILD.star": "def spin():\n    x = 0\n    for a in range(100000):\n        for b in range(100000):\n            for c in range(100000):\n                x += 1\n    return x\nspin()\n"},
	"comprehension-no-alloc": {"BUILD.star": "def spin():\n    return len([1 for a in range(1000000000000) if a < 0])\nspin()\n"},
}

func c16TypedPart(run *report.Run, st *e1.Setup, tier string) {
	mkMachine := func(dir, ws string, bin string) *grog.Machine {
		m := &grog.Machine{Bin: bin, Workspace: ws, Root: filepath.Join(dir, "root"), Home: filepath.Join(dir, "home"), Trace: filepath.Join(dir, "trace"), VctlBin: st.Vctl}
		_ = os.MkdirAll(m.Home, 0755)
		return m
	}
	nT := tierN(tier, 600, 20000)
	e1.Parallel(nT, func(i int) {
		r := rng.Derive(uint64(run.Seed), "C16-typed", fmt.Sprint(i))
		p, hostility := genTyped(r)
		f := rng.Pick(r, []string{"json", "yaml", "star"})
		var file, text string
		switch f {
		case "json":
			file, text = "BUILD.json", p.JSON()
		case "yaml":
			file, text = "BUILD.yaml", p.JSON() // JSON is flow-style YAML
		default:
			file, text = "BUILD.star", p.Star()
		}
		dir := filepath.Join(st.Base, fmt.Sprintf("ty%d", i))
		defer os.RemoveAll(dir)
		ws := filepath.Join(dir, "ws")
		if err := writePkgWS(ws, file, text); err != nil {
			run.Infra(err.Error())
			return
		}
		_ = os.WriteFile(filepath.Join(ws, "pk", "in.txt"), []byte("x\n"), 0644)
		m := mkMachine(dir, ws, st.Grog)
		cmds := [][]string{{"check"}, {"graph", "-o", "json", "//..."}, {"list", "//..."}, {"build", "//..."}, {"deps", "-t", "//pk:a"}, {"owners", "pk/in.txt"}}
		cmd := cmds[0]
		if r.Chance(1, 2) {
			cmd = rng.Pick(r, cmds)
		}
		res := m.Run(cmd, grog.RunOpts{Build: "g", Timeout: 40 * time.Second})
		run.Eval(1)
		run.Count("typed_fuzz_files:"+f, 1)
		run.Count(fmt.Sprintf("typed_fuzz_hostility_per_mille:%d", hostility), 1)
		run.Count("typed_fuzz_cmd:"+cmd[0], 1)
		replay := map[string]any{"format": f, "file_name": file, "kind": "typed", "content": clip(text, 6000), "cmd": cmd, "stderr": tailS(res.Stderr, 2000)}
		switch {
		case res.TimedOut:
			run.Violation("loader-hang format="+f+" kind=typed", fmt.Sprintf("grog %s did not exit within the cap on a type-confused %s", cmd[0], file), replay)
		case res.Crashed() != "" || res.Signaled:
			run.Violation("loader-crash format="+f+" "+crashFrame(res.Stderr), fmt.Sprintf("grog %s crashed on a type-confused %s: %s", cmd[0], file, res.Crashed()), replay)
		case res.Exit != 0:
			run.Count("typed_rejected_with_error", 1)
			run.Count("typed_rejection:"+firstWords(res.Stdout+res.Stderr), 1)
			run.Nontrivial(f + "|typed|rejected|" + firstWords(res.Stdout+res.Stderr))
		default:
			run.Count("typed_accepted", 1)
			run.Nontrivial(f + "|typed|accepted")
		}
	})

	// fixed adversarial programs
	var names []string
	for k := range adversarialStar {
		names = append(names, k)
	}
	sort.Strings(names)
	e1.Parallel(len(names), func(i int) {
		name := names[i]
		dir := filepath.Join(st.Base, fmt.Sprintf("adv%d", i))
		defer os.RemoveAll(dir)
		ws := filepath.Join(dir, "ws")
		var main string
		for f, c := range adversarialStar[name] {
			if err := writePkgWS(ws, f, c); err != nil {
				run.Infra(err.Error())
				return
			}
			if strings.HasPrefix(f, "BUILD") || f == "Makefile" {
				main = f
			}
		}
		res := mkMachine(dir, ws, st.Grog).Run([]string{"check"}, grog.RunOpts{Build: "g", Timeout: 90 * time.Second})
		run.Eval(1)
		run.Count("adversarial_programs", 1)
		replay := map[string]any{"program": name, "files": clipMap(adversarialStar[name]), "stderr": tailS(res.Stderr, 2000), "stdout": tailS(res.Stdout, 600)}
		switch {
		case res.Crashed() != "" || res.Signaled:
			run.Violation("loader-crash adversarial="+name+" "+crashFrame(res.Stderr), fmt.Sprintf("grog check crashed on the adversarial %s program %q: %s", main, name, res.Crashed()), replay)
		case res.TimedOut:
			run.Violation("loader-hang adversarial="+name, fmt.Sprintf("grog check was still running after 90 s on the adversarial %s program %q (quiescent=%v)", main, name, res.Hang), replay)
		default:
			run.Nontrivial(fmt.Sprintf("adversarial|%s|exit=%v", name, res.Exit != 0))
			if res.Exit != 0 {
				run.Count("adversarial_rejected_with_error", 1)
			} else {
				run.Count("adversarial_accepted", 1)
			}
		}
	})

	// programs that cannot finish: watch window only (the loop bounds are far beyond anything a
	// machine can count to, so the window does not decide whether it would finish)
	names = names[:0]
	for k := range longLoops {
		names = append(names, k)
	}
	sort.Strings(names)
	if tier == "quick" {
		names = names[:1] // each burns a core for the whole watch window
	}
	e1.Parallel(len(names), func(i int) {
		name := names[i]
		dir := filepath.Join(st.Base, fmt.Sprintf("loop%d", i))
		defer os.RemoveAll(dir)
		ws := filepath.Join(dir, "ws")
		for f, c := range longLoops[name] {
			if err := writePkgWS(ws, f, c); err != nil {
				run.Infra(err.Error())
				return
			}
		}
		res := mkMachine(dir, ws, st.Grog).Run([]string{"check"}, grog.RunOpts{Build: "g", Timeout: 20 * time.Second})
		run.Eval(1)
		run.Count("non_terminating_programs", 1)
		replay := map[string]any{"program": name, "files": longLoops[name], "stderr": tailS(res.Stderr, 1200)}
		switch {
		case res.Crashed() != "" && !res.TimedOut:
			run.Violation("loader-crash adversarial="+name, "grog check crashed on "+name+": "+res.Crashed(), replay)
		case res.TimedOut && !res.Hang:
			run.Nontrivial("nonterminating|" + name)
			run.Violation("loader-does-not-terminate format=star kind=unbounded-loop", fmt.Sprintf("grog check was still evaluating the BUILD.star program %q (a loop of 10^12..10^15 iterations) after the 20 s watch window, busy on a CPU: nothing bounds the evaluation of a BUILD file", name), replay)
		case res.TimedOut:
			run.Violation("loader-hang adversarial="+name, "grog check blocked (quiescent) on "+name, replay)
		case res.Exit == 0:
			run.Violation("adversarial-program-accepted program="+name, "grog check exited 0 on a program that cannot have been evaluated", replay)
		default:
			run.Nontrivial("nonterminating-rejected|" + name)
			run.Count("unbounded_programs_rejected_with_error", 1)
		}
	})
}

func clip(s string, n int) string {
	if len(s) > n {
		return s[:n] + fmt.Sprintf("...(%d bytes)", len(s))
	}
	return s
}

func clipMap(m map[string]string) map[string]string {
	o := map[string]string{}
	for k, v := range m {
		o[k] = clip(v, 3000)
	}
	return o
}

func firstWords(s string) string {
	// a coarse class of the diagnostic (distinct-state counting only)
	for _, line := range strings.Split(s, "\n") {
		if i := strings.Index(line, "FATAL:"); i >= 0 {
			w := strings.Fields(line[i+6:])
			if len(w) > 5 {
				w = w[:5]
			}
			return strings.Join(w, " ")
		}
	}
	return "other"
}
