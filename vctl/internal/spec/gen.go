package spec

import (
	"fmt"
	"sort"
	"strings"

	"vctl/internal/rng"
)

// Profile selects the constructs a generated workspace may use.
type Profile struct {
	MinTargets, MaxTargets int
	MaxPackages            int
	Aliases                bool // aliases interposed on dependency edges
	NestedFileOuts         bool // file outputs below not-yet-existing directories
	DirOuts                bool
	BinOuts                bool
	CrossPkgOuts           bool // outputs spelled with ../
	Globs                  bool
	Outputless             bool
	NoCache                bool
	Fingerprints           bool
	Multiplatform          bool
	Tests                  bool // names ending in "test", testonly tags
	UserTags               bool
	Platforms              bool // platform selectors on some targets
	SleepMs                int  // max per-target latency
	EdgeProb               int  // percent
	SharedNames            bool // targets in different packages may carry the same name
	// ExtraPkgs: further package paths to draw from (e.g. "a_b" next to "a/b": names that
	// collide once path separators are flattened)
	ExtraPkgs []string
}

func DefaultProfile() Profile {
	return Profile{MinTargets: 3, MaxTargets: 9, MaxPackages: 4, Aliases: true, NestedFileOuts: true, DirOuts: true,
		BinOuts: true, Globs: true, Outputless: true, Fingerprints: true, EdgeProb: 35, SharedNames: true}
}

var pkgPool = []string{"", "a", "a/b", "p", "p2", "lib/x", "a/b/c"}

// Gen generates a workspace.
func Gen(r *rng.R, pf Profile) *Spec {
	s := &Spec{Files: map[string]string{}}
	np := r.Range(1, max(1, pf.MaxPackages))
	pool := append(append([]string{}, pkgPool...), pf.ExtraPkgs...)
	rng.Shuffle(r, pool)
	pkgs := pool[:np]
	sort.Strings(pkgs)
	n := r.Range(pf.MinTargets, pf.MaxTargets)
	aliasN := 0
	// in some workspaces the same target name is used in several packages (//a:build,
	// //p:build, ...): everything keyed on a label must keep them apart
	shared := pf.SharedNames && np > 1 && r.Chance(2, 5)
	usedNames := map[string]bool{}
	for i := 0; i < n; i++ {
		t := &Target{Pkg: rng.Pick(r, pkgs), Name: fmt.Sprintf("t%d", i), Salt: r.Word(4, 8)}
		if pf.Tests && r.Chance(1, 5) {
			t.Name = fmt.Sprintf("t%d_test", i)
		} else if shared && r.Chance(1, 2) {
			if cand := rng.Pick(r, []string{"build", "build", "lib"}); !usedNames[t.Pkg+":"+cand] {
				t.Name = cand
			}
		}
		usedNames[t.Pkg+":"+t.Name] = true
		if r.Chance(1, 4) {
			t.Shape = rng.Pick(r, []string{"and", "nosete"})
		}
		// dependencies on earlier targets
		depNames := map[string]bool{}
		for j := 0; j < i; j++ {
			// a second dependency with the name of one already chosen (in another package) is
			// taken more often than chance: //a:build and //p:build side by side
			if !r.Chance(pf.EdgeProb, 100) && !(shared && depNames[s.Targets[j].Name] && r.Chance(2, 3)) {
				continue
			}
			dep := s.Targets[j]
			depNames[dep.Name] = true
			if strings.HasSuffix(dep.Name, "test") && !strings.HasSuffix(t.Name, "test") {
				continue
			}
			ref := dep.Label()
			if pf.Aliases && r.Chance(1, 3) {
				// an existing alias of the same target is reused half of the time: several
				// dependants (and several paths) then meet in one alias node
				var al *Alias
				for _, old := range s.Aliases {
					if old.Actual == ref && r.Chance(1, 2) {
						al = old
						break
					}
				}
				if al == nil {
					al = &Alias{Pkg: rng.Pick(r, pkgs), Name: fmt.Sprintf("al%d", aliasN), Actual: ref}
					aliasN++
					s.Aliases = append(s.Aliases, al)
				}
				ref = al.Label()
				if r.Chance(1, 4) {
					al2 := &Alias{Pkg: rng.Pick(r, pkgs), Name: fmt.Sprintf("al%d", aliasN), Actual: ref}
					aliasN++
					s.Aliases = append(s.Aliases, al2)
					ref = al2.Label()
				}
			}
			t.Deps = append(t.Deps, ref)
		}
		// inputs
		pre := ""
		if t.Pkg != "" {
			pre = t.Pkg + "/"
		}
		nin := r.Range(0, 3)
		if len(t.Deps) == 0 && nin == 0 {
			nin = 1
		}
		for k := 0; k < nin; k++ {
			kind := r.Intn(4)
			if !pf.Globs {
				kind = 0
			}
			switch kind {
			case 0: // explicit files
				f := fmt.Sprintf("src%d_%d.txt", i, k)
				// a literal input may be spelled non-canonically: it still names the same file
				spelled := f
				switch r.Intn(8) {
				case 0:
					spelled = "./" + f
				case 1:
					spelled = "x/../" + f
				}
				t.Inputs = append(t.Inputs, spelled)
				s.Files[pre+f] = r.Word(3, 40) + "\n"
			case 1: // flat glob
				t.Inputs = append(t.Inputs, fmt.Sprintf("g%d_%d_*.txt", i, k))
				for q := 0; q < r.Range(1, 3); q++ {
					s.Files[pre+fmt.Sprintf("g%d_%d_%s.txt", i, k, r.Word(1, 3))] = r.Word(0, 30)
				}
			case 2: // recursive glob with exclude
				d := fmt.Sprintf("data%d_%d", i, k)
				t.Inputs = append(t.Inputs, d+"/**/*.txt")
				t.Excludes = append(t.Excludes, d+"/**/skip*.txt")
				s.Files[pre+d+"/x.txt"] = r.Word(1, 20)
				s.Files[pre+d+"/deep/er/y.txt"] = r.Word(1, 20)
				s.Files[pre+d+"/deep/skip1.txt"] = r.Word(1, 20)
				if r.Chance(1, 2) {
					// plain (non-glob) exclude entries: one names exactly one file that has a
					// sibling sharing its prefix, one is a path prefix that names no file at all
					t.Excludes = append(t.Excludes, d+"/x.txt", d+"/deep/e")
					s.Files[pre+d+"/x.txt.orig.txt"] = r.Word(1, 20)
				}
			case 3: // brace glob
				t.Inputs = append(t.Inputs, fmt.Sprintf("{m,n}%d_%d*.txt", i, k))
				s.Files[pre+fmt.Sprintf("m%d_%dq.txt", i, k)] = r.Word(1, 20)
				s.Files[pre+fmt.Sprintf("n%d_%d.txt", i, k)] = r.Word(1, 20)
			}
		}
		// outputs
		nout := r.Range(1, 3)
		if pf.Outputless && r.Chance(1, 6) {
			nout = 0
		}
		for k := 0; k < nout; k++ {
			kind := r.Intn(6)
			switch {
			case kind <= 1 || (kind == 2 && !pf.NestedFileOuts) || (kind >= 3 && kind <= 4 && !pf.DirOuts) || (kind == 5 && !pf.CrossPkgOuts):
				t.Outs = append(t.Outs, Out{Kind: "file", Path: fmt.Sprintf("t%d_%d.out", i, k)})
			case kind == 2:
				t.Outs = append(t.Outs, Out{Kind: "file", Path: fmt.Sprintf("gen/n%d/t%d_%d.out", i, i, k)})
			case kind == 3 || kind == 4:
				// shape family by name: mixed / files only / identical sub-directories
				t.Outs = append(t.Outs, Out{Kind: "dir", Path: fmt.Sprintf("%s%d_%d.d", rng.Pick(r, []string{"t", "t", "flt", "dup"}), i, k)})
			case kind == 5:
				if t.Pkg != "" {
					t.Outs = append(t.Outs, Out{Kind: "file", Path: fmt.Sprintf("../x%d_%d.out", i, k)})
				} else {
					t.Outs = append(t.Outs, Out{Kind: "file", Path: fmt.Sprintf("t%d_%d.out", i, k)})
				}
			}
		}
		if pf.BinOuts && r.Chance(1, 6) {
			t.Bin = fmt.Sprintf("t%d.bin", i)
		}
		if pf.NoCache && r.Chance(1, 5) {
			t.Tags = append(t.Tags, "no-cache")
		}
		if pf.Multiplatform && r.Chance(1, 6) {
			t.Tags = append(t.Tags, "multiplatform-cache")
		}
		if pf.UserTags && r.Chance(1, 3) {
			t.Tags = append(t.Tags, rng.Pick(r, []string{"fast", "slow", "ci"}))
		}
		if pf.Fingerprints && r.Chance(1, 4) {
			t.Fingerprint = map[string]string{"v": r.Word(1, 4)}
			if r.Chance(1, 2) {
				t.Fingerprint["w"] = r.Word(1, 4)
			}
		}
		if pf.Platforms && r.Chance(1, 4) {
			t.Platforms = rng.Pick(r, [][]string{{"linux/amd64"}, {"darwin/arm64"}, {"linux/amd64", "darwin/arm64"}, {"windows/amd64"},
				{"linux/arm64", "darwin/amd64"}, {"darwin/amd64", "linux/arm64", "windows/arm64"}, {"linux/arm64"}, {"darwin/amd64", "linux/amd64"}})
		}
		if pf.SleepMs > 0 {
			t.SleepMs = r.Intn(pf.SleepMs + 1)
		}
		s.Targets = append(s.Targets, t)
	}
	return s
}

// Shape is a coarse signature of a workspace used to count distinct cases.
func (s *Spec) Shape() string {
	edges, al, dirs, globs := 0, len(s.Aliases), 0, 0
	for _, t := range s.Targets {
		edges += len(t.Deps)
		for _, o := range t.Outs {
			if o.Kind == "dir" {
				dirs++
			}
		}
		for _, in := range t.Inputs {
			if isGlob(in) {
				globs++
			}
		}
	}
	return fmt.Sprintf("n%d-e%d-a%d-d%d-g%d-p%d", len(s.Targets), edges, al, dirs, globs, len(s.Packages()))
}
