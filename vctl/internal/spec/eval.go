package spec

import (
	"fmt"
	"sort"
	"strings"

	"vctl/internal/tree"
)

// TState is the reference model's view of one target in the current source state.
type TState struct {
	Label  string
	Inputs []InputState
	IN     string
	Views  []DepView
	DEP    string
	Outs   map[string]tree.Tree // declared out path -> expected tree
	ODig   string               // digest over all outputs ("" for output-less)
	// StrictKey identifies (definition, input contents, dependency output contents).
	// LooseKey additionally includes the keys of output-less dependencies (grog's documented
	// design: targets without outputs expose their own change behaviour as an output).
	StrictKey  string
	LooseKey   string
	DirectDeps []string // resolved target labels
	Written    string   // digest of the dependency list as written (labels, aliases unresolved)
}

// Order returns target labels in a topological order (dependencies first). ok=false on cycles
// or undefined dependencies.
func (s *Spec) Order() ([]string, bool) {
	state := map[string]int{}
	var order []string
	ok := true
	var visit func(l string)
	visit = func(l string) {
		if state[l] == 2 {
			return
		}
		if state[l] == 1 {
			ok = false
			return
		}
		state[l] = 1
		t := s.Target(l)
		if t == nil {
			ok = false
			return
		}
		for _, d := range t.Deps {
			r := s.Resolve(d)
			if r == "" {
				ok = false
				continue
			}
			visit(r)
		}
		state[l] = 2
		order = append(order, l)
	}
	var labels []string
	for _, t := range s.Targets {
		labels = append(labels, t.Label())
	}
	sort.Strings(labels)
	for _, l := range labels {
		visit(l)
	}
	return order, ok
}

// Platform is the platform string grog puts into keys of non multiplatform-cache targets.
var Platform = "linux/amd64"

// Eval computes the expected state of every target for the current sources.
func (s *Spec) Eval() (map[string]*TState, error) {
	order, ok := s.Order()
	if !ok {
		return nil, fmt.Errorf("spec has cycles or undefined dependencies")
	}
	res := map[string]*TState{}
	for _, l := range order {
		t := s.Target(l)
		st := &TState{Label: l}
		st.Inputs = s.ResolveInputsVirtual(t)
		st.IN = InDigest(st.Inputs)
		var strictDeps, looseDeps []string
		seen := map[string]bool{}
		for _, d := range t.Deps {
			r := s.Resolve(d)
			if seen[r] {
				continue
			}
			seen[r] = true
			st.DirectDeps = append(st.DirectDeps, r)
			ds := res[r]
			dt := s.Target(r)
			for _, o := range dt.AllOuts() {
				st.Views = append(st.Views, DepView{Label: r, Path: o.Path, Digest: ds.Outs[o.Path].Digest()})
			}
			if len(dt.AllOuts()) == 0 {
				looseDeps = append(looseDeps, r+"="+ds.LooseKey)
			} else {
				strictDeps = append(strictDeps, r+"="+ds.ODig)
				looseDeps = append(looseDeps, r+"="+ds.ODig)
			}
		}
		sort.Strings(st.DirectDeps)
		// how the dependency list is written, including what each entry resolves to: the same set
		// of dependency targets reached with other multiplicities (an alias retargeted to a
		// target that is also a direct dependency) is a rewritten list, not a new state
		written := []string{}
		for _, d := range t.Deps {
			written = append(written, d+"="+s.Resolve(d))
		}
		sort.Strings(written)
		st.Written = H(written...)
		st.DEP = DepDigest(st.Views)
		st.Outs = Produce(t, st.IN, st.DEP)
		var od []string
		for _, o := range t.AllOuts() {
			od = append(od, o.Def(), st.Outs[o.Path].Digest())
		}
		if len(od) > 0 {
			st.ODig = H(od...)
		}
		var defs []string
		for _, o := range t.AllOuts() {
			defs = append(defs, o.Def())
		}
		sort.Strings(defs)
		var fp []string
		for k, v := range t.Fingerprint {
			fp = append(fp, H(k, v))
		}
		sort.Strings(fp)
		plat := Platform
		if s.Platform != "" {
			plat = s.Platform
		}
		if t.HasTag("multiplatform-cache") {
			plat = "*"
		}
		sort.Strings(strictDeps)
		sort.Strings(looseDeps)
		base := []string{l, t.Command(), st.IN, strings.Join(defs, "\x00"), "bin=" + t.Bin, strings.Join(fp, ","), plat}
		st.StrictKey = H(append(append([]string{}, base...), strictDeps...)...)
		st.LooseKey = H(append(append([]string{}, base...), looseDeps...)...)
		res[l] = st
	}
	return res, nil
}

// Closure returns the set of target labels reachable from roots through dependencies
// (aliases resolved), including the roots.
func (s *Spec) Closure(roots []string) map[string]bool {
	out := map[string]bool{}
	var visit func(l string)
	visit = func(l string) {
		r := s.Resolve(l)
		if r == "" || out[r] {
			return
		}
		out[r] = true
		for _, d := range s.Target(r).Deps {
			visit(d)
		}
	}
	for _, r := range roots {
		visit(r)
	}
	return out
}

// Dependants returns the transitive dependants (targets) of a target label, aliases resolved.
func (s *Spec) Dependants(label string) map[string]bool {
	out := map[string]bool{}
	changed := true
	for changed {
		changed = false
		for _, t := range s.Targets {
			if out[t.Label()] {
				continue
			}
			for _, d := range t.Deps {
				r := s.Resolve(d)
				if r == label || out[r] {
					out[t.Label()] = true
					changed = true
					break
				}
			}
		}
	}
	return out
}
