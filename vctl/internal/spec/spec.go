// Package spec describes generated workspaces: targets, aliases, source files,
// how they are rendered into BUILD files and what their commands produce.
package spec

import (
	"crypto/sha256"
	"encoding/hex"
	"encoding/json"
	"fmt"
	"os"
	"path"
	"path/filepath"
	"sort"
	"strings"

	"github.com/bmatcuk/doublestar/v4"

	"vctl/internal/tree"
)

type Out struct {
	Kind string `json:"kind"` // "file" | "dir"
	Path string `json:"path"` // relative to the package directory, as declared
}

func (o Out) Def() string {
	if o.Kind == "dir" {
		return "dir::" + o.Path
	}
	return o.Path
}

// Check is an output check whose verdict depends on an external marker file
// (workspace-relative); it passes iff the marker exists.
type Check struct {
	Marker   string `json:"marker"`
	Expected string `json:"expected,omitempty"` // if set the check prints the marker content and grog compares
	Shape    string `json:"shape,omitempty"`    // how the check command is written (see Target.Shape)
}

type Target struct {
	Pkg         string            `json:"pkg"`
	Name        string            `json:"name"`
	Salt        string            `json:"salt"`
	Quiet       string            `json:"quiet,omitempty"`
	Inputs      []string          `json:"inputs,omitempty"`
	Excludes    []string          `json:"excludes,omitempty"`
	Deps        []string          `json:"deps,omitempty"`
	Outs        []Out             `json:"outs,omitempty"`
	Bin         string            `json:"bin,omitempty"`
	Tags        []string          `json:"tags,omitempty"`
	Fingerprint map[string]string `json:"fingerprint,omitempty"`
	Platforms   []string          `json:"platforms,omitempty"`
	Timeout     string            `json:"timeout,omitempty"`
	Checks      []Check           `json:"checks,omitempty"`
	// behaviour knobs (part of the command text)
	FailExit int    `json:"fail_exit,omitempty"`
	FailIf   string `json:"fail_if,omitempty"`
	SleepMs  int    `json:"sleep_ms,omitempty"`
	// SleepAfterMs: the command keeps running for this long after it has written its outputs
	SleepAfterMs int  `json:"sleep_after_ms,omitempty"`
	TrapTerm     bool `json:"trap_term,omitempty"` // the target's shell ignores SIGTERM
	// TrapExit0: the target's shell answers SIGTERM with a clean `exit 0` (a server that shuts
	// down gracefully): an overrun timeout must still be a failure
	TrapExit0 bool `json:"trap_exit0,omitempty"`
	// BgHold: when the SleepIf marker is present the command first puts a child into the
	// background that lives for this many seconds and inherits the command's stdout/stderr (a
	// server started with &), then sleeps
	BgHold  int    `json:"bg_hold,omitempty"`
	SleepIf string `json:"sleep_if,omitempty"` // marker: sleep 20 s when present
	// SleepIfMs: how long to sleep instead of 20 s (an overrun just beyond the timeout)
	SleepIfMs int    `json:"sleep_if_ms,omitempty"`
	Omit      string `json:"omit,omitempty"`
	OmitIf    string `json:"omit_if,omitempty"` // marker: do not write outputs when present
	// Dangle: an omitted output is not simply absent: a symlink that points nowhere sits at its
	// path (the declared output still does not exist)
	Dangle    bool   `json:"dangle,omitempty"`
	Touch     string `json:"touch,omitempty"`   // marker created by the command (establishes a checked condition)
	Untouch   string `json:"untouch,omitempty"` // marker removed by the command while UntouchIf is present (the command itself breaks a checked condition)
	UntouchIf string `json:"untouch_if,omitempty"`
	RawCmd    string `json:"raw_cmd,omitempty"` // if set, used verbatim as the command
	// Shape: how the command line is written. "" = the plain helper invocation; "and" = `helper
	// ... && true` (a failing helper is the non-final member of an AND list: `set -e` does not
	// fire, the script simply ends with the helper's status); "nosete" = `set +e; helper ...`
	// (status of the last command). A failure must be a failure in every spelling.
	Shape string `json:"shape,omitempty"`
}

type Alias struct {
	Pkg    string `json:"pkg"`
	Name   string `json:"name"`
	Actual string `json:"actual"`
}

type Spec struct {
	Targets []*Target         `json:"targets"`
	Aliases []*Alias          `json:"aliases,omitempty"`
	Files   map[string]string `json:"-"`
	// DefaultPlatforms: package -> default_platforms of its BUILD file (applies to the targets
	// of the package that declare no platforms of their own)
	DefaultPlatforms map[string][]string `json:"default_platforms,omitempty"`
	// Platform: the platform the builds are made for (grog --platform); "" = the host's
	Platform string `json:"platform,omitempty"`
}

// EffectivePlatforms: the target's own platform selectors, else its package's defaults.
func (s *Spec) EffectivePlatforms(t *Target) []string {
	if len(t.Platforms) > 0 {
		return t.Platforms
	}
	return s.DefaultPlatforms[t.Pkg]
}

func Label(pkg, name string) string { return "//" + pkg + ":" + name }
func (t *Target) Label() string     { return Label(t.Pkg, t.Name) }
func (a *Alias) Label() string      { return Label(a.Pkg, a.Name) }

func (t *Target) HasTag(tag string) bool {
	for _, x := range t.Tags {
		if x == tag {
			return true
		}
	}
	return false
}

// AllOuts returns outputs followed by the bin output (as grog does).
func (t *Target) AllOuts() []Out {
	o := append([]Out{}, t.Outs...)
	if t.Bin != "" {
		o = append(o, Out{Kind: "file", Path: t.Bin})
	}
	return o
}

func (s *Spec) Clone() *Spec {
	b, _ := json.Marshal(s)
	var c Spec
	_ = json.Unmarshal(b, &c)
	c.Files = map[string]string{}
	for k, v := range s.Files {
		c.Files[k] = v
	}
	return &c
}

func (s *Spec) Target(label string) *Target {
	for _, t := range s.Targets {
		if t.Label() == label {
			return t
		}
	}
	return nil
}

func (s *Spec) AliasMap() map[string]string {
	m := map[string]string{}
	for _, a := range s.Aliases {
		m[a.Label()] = a.Actual
	}
	return m
}

// Resolve follows aliases to a target label ("" if undefined or cyclic).
func (s *Spec) Resolve(label string) string {
	am := s.AliasMap()
	seen := map[string]bool{}
	for {
		if s.Target(label) != nil {
			return label
		}
		nxt, ok := am[label]
		if !ok || seen[label] {
			return ""
		}
		seen[label] = true
		label = nxt
	}
}

// Packages returns the sorted set of package paths that define something.
func (s *Spec) Packages() []string {
	set := map[string]bool{}
	for _, t := range s.Targets {
		set[t.Pkg] = true
	}
	for _, a := range s.Aliases {
		set[a.Pkg] = true
	}
	var ps []string
	for p := range set {
		ps = append(ps, p)
	}
	sort.Strings(ps)
	return ps
}

// MID is a file-name-safe identifier of the target that is unique in the workspace (target
// names alone are not: //a:build and //p:build may both exist).
func (t *Target) MID() string {
	return strings.NewReplacer("/", "-").Replace(t.Pkg) + "." + t.Name
}

func shq(s string) string { return "'" + strings.ReplaceAll(s, "'", `'\''`) + "'" }

// Command renders the command text of a target.
func (t *Target) Command() string {
	if t.RawCmd != "" {
		return t.RawCmd
	}
	var sb strings.Builder
	if t.TrapTerm {
		sb.WriteString("trap '' TERM; ")
	}
	if t.TrapExit0 {
		sb.WriteString("trap 'exit 0' TERM; ")
	}
	sb.WriteString(`"$VCTL" act ` + shq(t.Label()) + " --salt " + shq(t.Salt))
	if t.FailExit != 0 {
		fmt.Fprintf(&sb, " --fail %d", t.FailExit)
	}
	if t.FailIf != "" {
		sb.WriteString(" --failif " + shq(t.FailIf))
	}
	if t.SleepMs != 0 {
		fmt.Fprintf(&sb, " --sleep %d", t.SleepMs)
	}
	if t.SleepIf != "" {
		sb.WriteString(" --sleepif " + shq(t.SleepIf))
		if t.SleepIfMs > 0 {
			fmt.Fprintf(&sb, " --sleepifms %d", t.SleepIfMs)
		}
	}
	if t.SleepAfterMs != 0 {
		fmt.Fprintf(&sb, " --sleepafter %d", t.SleepAfterMs)
	}
	if t.BgHold > 0 {
		fmt.Fprintf(&sb, " --bghold %d", t.BgHold)
	}
	if t.Omit != "" {
		sb.WriteString(" --omit " + shq(t.Omit))
	}
	if t.OmitIf != "" {
		sb.WriteString(" --omitif " + shq(t.OmitIf))
	}
	if t.Dangle {
		sb.WriteString(" --dangle")
	}
	if t.Touch != "" {
		sb.WriteString(" --touch " + shq(t.Touch))
	}
	if t.Untouch != "" {
		sb.WriteString(" --rmif " + shq(t.UntouchIf) + " --rm " + shq(t.Untouch))
	}
	cmd := shaped(sb.String(), t.Shape)
	if t.Quiet != "" {
		cmd += " # " + t.Quiet
	}
	return cmd
}

func shaped(cmd, shape string) string {
	switch shape {
	case "and":
		return cmd + " && true"
	case "nosete":
		return "set +e; " + cmd
	}
	return cmd
}

type jsonCheck struct {
	Command        string `json:"command"`
	ExpectedOutput string `json:"expected_output,omitempty"`
}

// JSONTarget is the BUILD.json form of a target.
type JSONTarget struct {
	Name          string            `json:"name"`
	Command       string            `json:"command"`
	Dependencies  []string          `json:"dependencies,omitempty"`
	Inputs        []string          `json:"inputs,omitempty"`
	ExcludeInputs []string          `json:"exclude_inputs,omitempty"`
	Outputs       []string          `json:"outputs,omitempty"`
	BinOutput     string            `json:"bin_output,omitempty"`
	OutputChecks  []jsonCheck       `json:"output_checks,omitempty"`
	Tags          []string          `json:"tags,omitempty"`
	Fingerprint   map[string]string `json:"fingerprint,omitempty"`
	Platforms     []string          `json:"platforms,omitempty"`
	Timeout       string            `json:"timeout,omitempty"`
}
type JSONAlias struct {
	Name   string `json:"name"`
	Actual string `json:"actual"`
}
type JSONPackage struct {
	DefaultPlatforms []string     `json:"default_platforms,omitempty"`
	Targets          []JSONTarget `json:"targets"`
	Aliases          []JSONAlias  `json:"aliases,omitempty"`
}

func (c Check) Command() string {
	if c.Expected != "" {
		return `"$VCTL" chk --print ` + shq(c.Marker)
	}
	return shaped(`"$VCTL" chk `+shq(c.Marker), c.Shape)
}

// DepRef renders a dependency label the way a user would write it inside pkg.
func DepRef(pkg, label string) string { return label }

func (t *Target) JSON() JSONTarget {
	jt := JSONTarget{Name: t.Name, Command: t.Command(), Dependencies: t.Deps, Inputs: t.Inputs,
		ExcludeInputs: t.Excludes, BinOutput: t.Bin, Tags: t.Tags, Fingerprint: t.Fingerprint,
		Platforms: t.Platforms, Timeout: t.Timeout}
	for _, o := range t.Outs {
		jt.Outputs = append(jt.Outputs, o.Def())
	}
	for _, c := range t.Checks {
		jt.OutputChecks = append(jt.OutputChecks, jsonCheck{Command: c.Command(), ExpectedOutput: c.Expected})
	}
	return jt
}

// PackageJSON renders one package as BUILD.json bytes.
func (s *Spec) PackageJSON(pkg string) []byte {
	var p JSONPackage
	p.DefaultPlatforms = s.DefaultPlatforms[pkg]
	p.Targets = []JSONTarget{}
	for _, t := range s.Targets {
		if t.Pkg == pkg {
			p.Targets = append(p.Targets, t.JSON())
		}
	}
	for _, a := range s.Aliases {
		if a.Pkg == pkg {
			p.Aliases = append(p.Aliases, JSONAlias{Name: a.Name, Actual: a.Actual})
		}
	}
	b, _ := json.MarshalIndent(p, "", "  ")
	return append(b, '\n')
}

// WriteBuildFiles writes BUILD.json for every package, removing BUILD files of
// packages that no longer define anything (tracked in prev).
func (s *Spec) WriteBuildFiles(root string, prev []string) error {
	now := map[string]bool{}
	for _, p := range s.Packages() {
		now[p] = true
		dir := filepath.Join(root, filepath.FromSlash(p))
		if err := os.MkdirAll(dir, 0755); err != nil {
			return err
		}
		if err := os.WriteFile(filepath.Join(dir, "BUILD.json"), s.PackageJSON(p), 0644); err != nil {
			return err
		}
	}
	for _, p := range prev {
		if !now[p] {
			_ = os.Remove(filepath.Join(root, filepath.FromSlash(p), "BUILD.json"))
		}
	}
	return nil
}

// WriteFiles synchronises the source files on disk with s.Files (prev = previous map).
func (s *Spec) WriteFiles(root string, prev map[string]string) error {
	for p := range prev {
		if _, ok := s.Files[p]; !ok {
			_ = os.Remove(filepath.Join(root, filepath.FromSlash(p)))
		}
	}
	for p, c := range s.Files {
		if pc, ok := prev[p]; ok && pc == c {
			continue
		}
		abs := filepath.Join(root, filepath.FromSlash(p))
		if err := os.MkdirAll(filepath.Dir(abs), 0755); err != nil {
			return err
		}
		if err := os.WriteFile(abs, []byte(c), 0644); err != nil {
			return err
		}
	}
	return nil
}

// WriteSidecar writes the helper-readable description of the workspace.
func (s *Spec) WriteSidecar(path string) error {
	b, err := json.Marshal(s)
	if err != nil {
		return err
	}
	tmp := path + ".tmp"
	if err := os.WriteFile(tmp, b, 0644); err != nil {
		return err
	}
	return os.Rename(tmp, path)
}

func ReadSidecar(path string) (*Spec, error) {
	b, err := os.ReadFile(path)
	if err != nil {
		return nil, err
	}
	var s Spec
	if err := json.Unmarshal(b, &s); err != nil {
		return nil, err
	}
	return &s, nil
}

func H(parts ...string) string {
	h := sha256.New()
	for _, p := range parts {
		fmt.Fprintf(h, "%d:", len(p))
		h.Write([]byte(p))
	}
	return hex.EncodeToString(h.Sum(nil))[:32]
}

func isGlob(p string) bool { return strings.ContainsAny(p, "*?[{") }

// InputState is one resolved input of a target.
type InputState struct {
	Path    string // relative to the package dir
	Missing bool
	Sum     string
}

// ResolveInputsVirtual resolves a target's inputs against the virtual file map.
func (s *Spec) ResolveInputsVirtual(t *Target) []InputState {
	prefix := ""
	if t.Pkg != "" {
		prefix = t.Pkg + "/"
	}
	var rels []string
	for p := range s.Files {
		if strings.HasPrefix(p, prefix) {
			rels = append(rels, strings.TrimPrefix(p, prefix))
		}
	}
	sort.Strings(rels)
	set := map[string]bool{}
	for _, in := range t.Inputs {
		if !isGlob(in) {
			set[path.Clean(in)] = true
			continue
		}
		for _, r := range rels {
			if ok, _ := doublestar.Match(in, r); ok {
				set[r] = true
			}
		}
	}
	for _, ex := range t.Excludes {
		for _, r := range rels {
			if ok, _ := doublestar.Match(ex, r); ok {
				delete(set, r)
			}
		}
	}
	var out []InputState
	for p := range set {
		c, ok := s.Files[prefix+p]
		if !ok {
			out = append(out, InputState{Path: p, Missing: true})
		} else {
			out = append(out, InputState{Path: p, Sum: H(c)})
		}
	}
	sort.Slice(out, func(i, j int) bool { return out[i].Path < out[j].Path })
	return out
}

// ResolveInputsDisk resolves a target's inputs the way a real tool would: globbing the
// package directory on disk.
func ResolveInputsDisk(pkgDir string, t *Target) ([]InputState, error) {
	fsys := os.DirFS(pkgDir)
	set := map[string]bool{}
	for _, in := range t.Inputs {
		if !isGlob(in) {
			set[path.Clean(in)] = true
			continue
		}
		m, err := doublestar.Glob(fsys, in, doublestar.WithFilesOnly())
		if err != nil {
			return nil, err
		}
		for _, r := range m {
			set[r] = true
		}
	}
	for _, ex := range t.Excludes {
		m, err := doublestar.Glob(fsys, ex, doublestar.WithFilesOnly())
		if err != nil {
			return nil, err
		}
		for _, r := range m {
			delete(set, r)
		}
	}
	var out []InputState
	for p := range set {
		b, err := os.ReadFile(filepath.Join(pkgDir, filepath.FromSlash(p)))
		if err != nil {
			out = append(out, InputState{Path: p, Missing: true})
		} else {
			out = append(out, InputState{Path: p, Sum: H(string(b))})
		}
	}
	sort.Slice(out, func(i, j int) bool { return out[i].Path < out[j].Path })
	return out, nil
}

// InDigest is the digest of a resolved input set.
func InDigest(ins []InputState) string {
	var parts []string
	for _, i := range ins {
		st := "P" + i.Sum
		if i.Missing {
			st = "M"
		}
		parts = append(parts, i.Path, st)
	}
	return H(parts...)
}

// DepView is what a command saw of one dependency output.
type DepView struct {
	Label  string // resolved target label
	Path   string // declared output path
	Digest string
}

func DepDigest(views []DepView) string {
	sort.Slice(views, func(i, j int) bool {
		if views[i].Label != views[j].Label {
			return views[i].Label < views[j].Label
		}
		return views[i].Path < views[j].Path
	})
	var parts []string
	for _, v := range views {
		parts = append(parts, v.Label, v.Path, v.Digest)
	}
	return H(parts...)
}

// Produce is the pure function every generated command implements: the bytes of each
// declared output as a function of (label, salt, IN, DEP).
func Produce(t *Target, in, dep string) map[string]tree.Tree {
	res := map[string]tree.Tree{}
	label := t.Label()
	for _, o := range t.AllOuts() {
		h := H(label, t.Salt, o.Path, in, dep)
		prov := fmt.Sprintf("label=%s\nsalt=%s\nout=%s\nin=%s\ndep=%s\n", label, t.Salt, o.Path, in, dep)
		if o.Kind == "file" {
			if o.Path == t.Bin {
				body := "#!/bin/sh\ncat <<'VEOF'\n" + prov + "VEOF\n"
				res[o.Path] = tree.File([]byte(body), true)
				continue
			}
			n := int(h[0]) % 7
			filler := ""
			if n >= 4 {
				filler = strings.Repeat(h, (int(h[1])%40)+1)
			}
			if strings.HasPrefix(path.Base(o.Path), "big") {
				// "big*": a few MiB, so that copying it takes many chunks / system calls
				filler = strings.Repeat(h+"\n", 40*1024+int(h[1])%4096)
			}
			res[o.Path] = tree.File([]byte(prov+filler), false)
			continue
		}
		// directory output; the base name selects a shape family: "flt*" = files only (no
		// sub-directory at all), "dup*" = several byte-identical sub-directories, anything else
		// = a hash-determined mix
		var tr tree.Tree
		tr.AddDir("")
		base := path.Base(o.Path)
		if strings.HasPrefix(base, "dup") {
			for _, sub := range []string{"a/", "b/", "c/", "a/inner/"}[:int(h[2])%3+2] {
				tr.AddFile(sub+"x.dat", []byte(prov+"idx=x\n"), false)
				tr.AddFile(sub+"y.dat", []byte(prov+"idx=y\n"), int(h[3])%2 == 0)
			}
			tr.AddFile("top.dat", []byte(prov+"idx=top\n"), false)
		}
		nf := int(h[2])%5 + 1
		if strings.HasPrefix(base, "dup") {
			nf = 0
		}
		if strings.HasPrefix(base, "sub") {
			// "sub*": nothing but sub-directories at the top level (no regular file, no link);
			// the files sit one and two levels down
			nf = 0
			for i := 0; i < int(h[2])%3+2; i++ {
				tr.AddFile(fmt.Sprintf("bin/f%d.dat", i), []byte(fmt.Sprintf("%sidx=b%d\n", prov, i)), i == 0)
				tr.AddFile(fmt.Sprintf("lib/deep/g%d.dat", i), []byte(fmt.Sprintf("%sidx=l%d\n%s", prov, i, strings.Repeat(h, 40))), false)
			}
		}
		for i := 0; i < nf; i++ {
			sub := ""
			if strings.HasPrefix(base, "flt") {
				tr.AddFile(fmt.Sprintf("f%d.dat", i), []byte(fmt.Sprintf("%sidx=%d\n", prov, i)), (int(h[12+i])%3) == 0)
				continue
			}
			switch (int(h[3+i]) + i) % 4 {
			case 1:
				sub = "s1/"
			case 2:
				sub = "s1/s2/"
			case 3:
				sub = fmt.Sprintf("v%c/", h[10])
			}
			content := fmt.Sprintf("%sidx=%d\n", prov, i)
			if i == 3 {
				content = fmt.Sprintf("%sidx=%d\n", prov, 0) // duplicate content of file 0
			}
			if i == 4 {
				content = ""
			}
			tr.AddFile(fmt.Sprintf("%sf%d.dat", sub, i), []byte(content), (int(h[12+i])%3) == 0)
		}
		if int(h[20])%2 == 0 && !strings.HasPrefix(base, "flt") {
			tr.AddDir("empty")
		}
		if int(h[21])%2 == 0 && !strings.HasPrefix(base, "sub") {
			tr.AddLink("lnk", "f0.dat")
		}
		if int(h[22])%3 == 0 && !strings.HasPrefix(base, "sub") {
			tr.AddLink("dangling", "nowhere/x")
		}
		// parents
		seen := map[string]bool{"": true}
		for _, e := range append(tree.Tree{}, tr...) {
			d := path.Dir(e.Path)
			for d != "." && d != "" && !seen[d] {
				seen[d] = true
				tr.AddDir(d)
				d = path.Dir(d)
			}
		}
		// de-duplicate directory entries added explicitly
		uniq := map[string]bool{}
		var out tree.Tree
		for _, e := range tr {
			k := e.Type + "\x00" + e.Path
			if uniq[k] {
				continue
			}
			uniq[k] = true
			out = append(out, e)
		}
		out.Sort()
		res[o.Path] = out
	}
	return res
}

// OutAbs returns the absolute path of an output.
func OutAbs(root, pkg, p string) string {
	return filepath.Join(root, filepath.FromSlash(pkg), filepath.FromSlash(p))
}

// GlobMatch reports whether the package-relative path matches the (doublestar) pattern.
func GlobMatch(pattern, rel string) bool {
	ok, _ := doublestar.Match(pattern, rel)
	return ok
}
