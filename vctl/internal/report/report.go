// Package report keeps the per-run counters, decides known-finding vs violation and writes
// evidence and replay files.
package report

import (
	"bufio"
	"crypto/sha256"
	"encoding/hex"
	"encoding/json"
	"fmt"
	"os"
	"path/filepath"
	"sort"
	"strconv"
	"strings"
	"sync"
	"time"
)

func VerifDir() string {
	if r := os.Getenv("VERIF_DIR"); r != "" {
		return r
	}
	return "/verif"
}

type known struct {
	sig  string
	text string
}

type Run struct {
	Prop  string
	Tier  string
	Seed  int64
	Level string
	Rule  string

	mu           sync.Mutex
	start        time.Time
	evaluations  int
	distinct     map[string]bool
	samples      []any
	extra        map[string]any
	counters     map[string]int
	assumptions  []string
	violations   int
	violSigs     map[string]bool
	known        []known
	matchedKnown map[string]bool
	inconclusive int
	infra        []string
	MinDistinct  int // minimum distinct non-trivial cases required for a "held" verdict
}

// Part reports whether a named part of a check is enabled: always, unless VERIF_PARTS (a
// development aid, comma separated) is set and does not name it.
func Part(name string) bool {
	v := os.Getenv("VERIF_PARTS")
	if v == "" {
		return true
	}
	for _, x := range strings.Split(v, ",") {
		if x == name {
			return true
		}
	}
	return false
}

func Seed() int64 {
	if s := os.Getenv("VERIF_SEED"); s != "" {
		if v, err := strconv.ParseInt(s, 10, 64); err == nil {
			return v
		}
	}
	return 1
}

func New(prop, tier, level, rule string) *Run {
	r := &Run{Prop: prop, Tier: tier, Seed: Seed(), Level: level, Rule: rule, start: time.Now(),
		distinct: map[string]bool{}, extra: map[string]any{}, counters: map[string]int{},
		violSigs: map[string]bool{}, matchedKnown: map[string]bool{}, MinDistinct: 2}
	r.loadKnown()
	return r
}

func (r *Run) loadKnown() {
	f, err := os.Open(filepath.Join(VerifDir(), "KNOWN_FINDINGS.txt"))
	if err != nil {
		return
	}
	defer f.Close()
	sc := bufio.NewScanner(f)
	for sc.Scan() {
		line := strings.TrimSpace(sc.Text())
		if !strings.HasPrefix(line, "known:") {
			continue // "fixed:" lines and comments suppress nothing
		}
		rest := strings.TrimSpace(strings.TrimPrefix(line, "known:"))
		fields := strings.Fields(rest)
		if len(fields) < 2 || fields[0] != "property="+r.Prop || !strings.HasPrefix(fields[1], "sig=") {
			continue
		}
		sig := strings.TrimPrefix(fields[1], "sig=")
		text := strings.TrimSpace(strings.Join(fields[2:], " "))
		r.known = append(r.known, known{sig: sig, text: text})
	}
}

func (r *Run) Eval(n int) { r.mu.Lock(); r.evaluations += n; r.mu.Unlock() }

// Nontrivial records a case signature that met the non-triviality rule.
func (r *Run) Nontrivial(sig string) { r.mu.Lock(); r.distinct[sig] = true; r.mu.Unlock() }

func (r *Run) Count(name string, n int) { r.mu.Lock(); r.counters[name] += n; r.mu.Unlock() }

func (r *Run) Counter(name string) int { r.mu.Lock(); defer r.mu.Unlock(); return r.counters[name] }

func (r *Run) Set(key string, v any) { r.mu.Lock(); r.extra[key] = v; r.mu.Unlock() }

func (r *Run) Sample(v any) {
	r.mu.Lock()
	if len(r.samples) < 6 {
		r.samples = append(r.samples, v)
	}
	r.mu.Unlock()
}

func (r *Run) Assume(s string) { r.mu.Lock(); r.assumptions = append(r.assumptions, s); r.mu.Unlock() }

func (r *Run) Inconclusive(what string) {
	r.mu.Lock()
	r.inconclusive++
	if len(r.infra) < 20 {
		r.infra = append(r.infra, what)
	}
	r.mu.Unlock()
}

// Infra records an infrastructure failure (the run cannot claim anything): exit 2.
func (r *Run) Infra(what string) {
	r.mu.Lock()
	r.infra = append(r.infra, "INFRA: "+what)
	r.extra["infra_failure"] = true
	r.mu.Unlock()
	fmt.Fprintln(os.Stderr, "INFRA:", what)
}

// Sig sanitises a signature so that it is one token.
func Sig(parts ...string) string {
	s := strings.Join(parts, " ")
	s = strings.Join(strings.Fields(s), "_")
	return s
}

// Violation reports a violation with an oracle-computed signature. Returns true if it is a
// listed known finding.
func (r *Run) Violation(sig, what string, replay any) bool {
	sig = Sig(sig)
	r.mu.Lock()
	defer r.mu.Unlock()
	for _, k := range r.known {
		if k.sig == sig {
			if !r.matchedKnown[sig] {
				r.matchedKnown[sig] = true
				fmt.Printf("KNOWN-FINDING: property=%s %s\n", r.Prop, k.text)
			}
			r.counters["known_finding_hits"]++
			return true
		}
	}
	r.violations++
	if r.violSigs[sig] {
		return false
	}
	r.violSigs[sig] = true
	h := sha256.Sum256([]byte(sig))
	dir := filepath.Join(VerifDir(), "replays")
	if d := os.Getenv("VERIF_EVIDENCE_DIR"); d != "" {
		dir = filepath.Join(d, "replays")
	}
	_ = os.MkdirAll(dir, 0755)
	path := filepath.Join(dir, fmt.Sprintf("%s-%s.json", r.Prop, hex.EncodeToString(h[:])[:10]))
	doc := map[string]any{"property": r.Prop, "signature": sig, "what": what, "seed": r.Seed, "tier": r.Tier, "replay": replay}
	b, _ := json.MarshalIndent(doc, "", " ")
	_ = os.WriteFile(path, b, 0644)
	fmt.Printf("VIOLATION property=%s replay=%s\n", r.Prop, path)
	fmt.Printf("  signature: %s\n  what: %s\n", sig, what)
	return false
}

// Finish writes the evidence file and returns the process exit code.
func (r *Run) Finish() int {
	r.mu.Lock()
	defer r.mu.Unlock()
	cov := map[string]any{}
	for k, v := range r.extra {
		cov[k] = v
	}
	cov["evaluations"] = r.evaluations
	cov["distinct_nontrivial"] = len(r.distinct)
	cov["rule"] = r.Rule
	samples := r.samples
	if samples == nil {
		samples = []any{}
	}
	cov["samples"] = samples
	ck := make([]string, 0, len(r.counters))
	for k := range r.counters {
		ck = append(ck, k)
	}
	sort.Strings(ck)
	obs := map[string]int{}
	for _, k := range ck {
		obs[k] = r.counters[k]
	}
	cov["observed"] = obs
	cov["inconclusive"] = r.inconclusive
	if len(r.infra) > 0 {
		cov["inconclusive_notes"] = r.infra
	}
	var mk []string
	for k := range r.matchedKnown {
		mk = append(mk, k)
	}
	sort.Strings(mk)
	cov["known_findings_matched"] = mk
	var vs []string
	for k := range r.violSigs {
		vs = append(vs, k)
	}
	sort.Strings(vs)
	cov["violation_signatures"] = vs
	ev := map[string]any{
		"property_id": r.Prop,
		"tier":        r.Tier,
		"seed":        r.Seed,
		"level":       r.Level,
		"coverage":    cov,
		"assumptions": r.assumptions,
		"wall_s":      time.Since(r.start).Seconds(),
		"violations":  len(r.violSigs),
	}
	if ev["assumptions"] == nil {
		ev["assumptions"] = []string{}
	}
	dir := filepath.Join(VerifDir(), "evidence")
	if d := os.Getenv("VERIF_EVIDENCE_DIR"); d != "" {
		dir = d // used when running the checks against seeded changes: never overwrite real evidence
	}
	_ = os.MkdirAll(dir, 0755)
	b, _ := json.MarshalIndent(ev, "", " ")
	_ = os.WriteFile(filepath.Join(dir, r.Prop+".json"), append(b, '\n'), 0644)

	fmt.Printf("%s %s seed=%d: evaluations=%d distinct_nontrivial=%d violations=%d known=%d inconclusive=%d wall=%.1fs\n",
		r.Prop, r.Tier, r.Seed, r.evaluations, len(r.distinct), len(r.violSigs), len(r.matchedKnown), r.inconclusive, time.Since(r.start).Seconds())
	for _, k := range ck {
		fmt.Printf("  observed %s=%d\n", k, r.counters[k])
	}
	if len(r.violSigs) > 0 {
		return 1
	}
	if r.extra["infra_failure"] == true {
		return 2
	}
	if len(r.samples) == 0 {
		fmt.Fprintln(os.Stderr, "INCONCLUSIVE: no case was sampled")
		return 2
	}
	if len(r.distinct) < r.MinDistinct || r.evaluations == 0 {
		fmt.Fprintf(os.Stderr, "INCONCLUSIVE: only %d distinct non-trivial cases (need %d)\n", len(r.distinct), r.MinDistinct)
		return 2
	}
	return 0
}
