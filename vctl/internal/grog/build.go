// Package grog builds the grog binaries from /repo's current working tree and runs them.
package grog

import (
	"crypto/sha256"
	"encoding/hex"
	"fmt"
	"io/fs"
	"os"
	"os/exec"
	"path/filepath"
	"sort"
	"strings"
	"syscall"
)

func Repo() string {
	if r := os.Getenv("VERIF_REPO"); r != "" {
		return r
	}
	return "/repo"
}

func VerifDir() string {
	if r := os.Getenv("VERIF_DIR"); r != "" {
		return r
	}
	return "/verif"
}

func CacheRoot() string { return filepath.Join(VerifDir(), ".cache") }

// SourceHash hashes every build-relevant file of the repo working tree.
func SourceHash() (string, error) {
	repo := Repo()
	var files []string
	err := filepath.WalkDir(repo, func(p string, d fs.DirEntry, err error) error {
		if err != nil {
			return err
		}
		if d.IsDir() {
			n := d.Name()
			if n == ".git" || n == "node_modules" || n == "docs" || n == "examples" {
				return filepath.SkipDir
			}
			return nil
		}
		n := d.Name()
		if strings.HasSuffix(n, ".go") || strings.HasSuffix(n, ".tmpl") || n == "go.mod" || n == "go.sum" {
			files = append(files, p)
		}
		return nil
	})
	if err != nil {
		return "", err
	}
	sort.Strings(files)
	h := sha256.New()
	for _, f := range files {
		b, err := os.ReadFile(f)
		if err != nil {
			return "", err
		}
		rel, _ := filepath.Rel(repo, f)
		fmt.Fprintf(h, "%s\x00%d\x00", rel, len(b))
		h.Write(b)
	}
	// harness sources are part of the identity of driver binaries
	hd := filepath.Join(VerifDir(), "harness")
	_ = filepath.WalkDir(hd, func(p string, d fs.DirEntry, err error) error {
		if err != nil || d.IsDir() {
			return nil
		}
		b, _ := os.ReadFile(p)
		rel, _ := filepath.Rel(hd, p)
		fmt.Fprintf(h, "H:%s\x00%d\x00", rel, len(b))
		h.Write(b)
		return nil
	})
	return hex.EncodeToString(h.Sum(nil))[:20], nil
}

func goEnv() []string {
	var env []string
	for _, e := range os.Environ() {
		k := strings.SplitN(e, "=", 2)[0]
		switch k {
		case "GOFLAGS", "GOPROXY", "GOSUMDB", "GOTOOLCHAIN", "GOWORK":
			continue
		}
		env = append(env, e)
	}
	return append(env, "GOPROXY=off", "GOFLAGS=", "GOWORK=off")
}

func lock() (*os.File, error) {
	if err := os.MkdirAll(CacheRoot(), 0755); err != nil {
		return nil, err
	}
	f, err := os.OpenFile(filepath.Join(CacheRoot(), "lock"), os.O_CREATE|os.O_RDWR, 0644)
	if err != nil {
		return nil, err
	}
	if err := syscall.Flock(int(f.Fd()), syscall.LOCK_EX); err != nil {
		f.Close()
		return nil, err
	}
	return f, nil
}

func gc(keep string) {
	ents, err := os.ReadDir(CacheRoot())
	if err != nil {
		return
	}
	type de struct {
		name string
		mod  int64
	}
	var ds []de
	for _, e := range ents {
		if !e.IsDir() || e.Name() == keep {
			continue
		}
		fi, err := e.Info()
		if err != nil {
			continue
		}
		ds = append(ds, de{e.Name(), fi.ModTime().UnixNano()})
	}
	sort.Slice(ds, func(i, j int) bool { return ds[i].mod > ds[j].mod })
	keepN := 3
	if v := os.Getenv("VERIF_CACHE_KEEP"); v != "" {
		fmt.Sscan(v, &keepN)
	}
	for i, d := range ds {
		if i >= keepN {
			_ = os.RemoveAll(filepath.Join(CacheRoot(), d.name))
		}
	}
}

// BuildError marks a failure to build (exit code 2: nothing is claimed).
type BuildError struct{ Msg string }

func (e *BuildError) Error() string { return e.Msg }

// Binary returns the path of a grog binary built from the current tree.
// kind: "v" (hooks on) or "vr" (hooks on, race detector).
func Binary(kind string) (string, error) {
	h, err := SourceHash()
	if err != nil {
		return "", err
	}
	dir := filepath.Join(CacheRoot(), h)
	out := filepath.Join(dir, "grog-"+kind)
	if _, err := os.Stat(out); err == nil {
		return out, nil
	}
	lf, err := lock()
	if err != nil {
		return "", err
	}
	defer lf.Close()
	if _, err := os.Stat(out); err == nil {
		return out, nil
	}
	if err := os.MkdirAll(dir, 0755); err != nil {
		return "", err
	}
	gc(h)
	args := []string{"build", "-tags", "verif", "-o", out + ".tmp"}
	if kind == "vr" {
		args = append(args, "-race")
	}
	args = append(args, ".")
	cmd := exec.Command("go", args...)
	cmd.Dir = Repo()
	cmd.Env = goEnv()
	b, err := cmd.CombinedOutput()
	if err != nil {
		return "", &BuildError{fmt.Sprintf("go %s failed: %v\n%s", strings.Join(args, " "), err, b)}
	}
	if err := os.Rename(out+".tmp", out); err != nil {
		return "", err
	}
	return out, nil
}

// Driver builds an in-process driver: harness/<name>/*.go overlaid into the grog module as
// package grog/internal/zzverif/<name>, compiled as a test binary.
func Driver(name string, race bool) (string, error) {
	h, err := SourceHash()
	if err != nil {
		return "", err
	}
	dir := filepath.Join(CacheRoot(), h)
	suffix := ""
	if race {
		suffix = "-race"
	}
	out := filepath.Join(dir, "drv-"+name+suffix)
	if _, err := os.Stat(out); err == nil {
		return out, nil
	}
	lf, err := lock()
	if err != nil {
		return "", err
	}
	defer lf.Close()
	if _, err := os.Stat(out); err == nil {
		return out, nil
	}
	if err := os.MkdirAll(dir, 0755); err != nil {
		return "", err
	}
	gc(h)
	src := filepath.Join(VerifDir(), "harness", name)
	ents, err := os.ReadDir(src)
	if err != nil {
		return "", err
	}
	var sb strings.Builder
	sb.WriteString("{\"Replace\":{")
	first := true
	for _, e := range ents {
		if e.IsDir() || !strings.HasSuffix(e.Name(), ".go") {
			continue
		}
		if !first {
			sb.WriteString(",")
		}
		first = false
		dst := filepath.Join(Repo(), "internal", "zzverif", name, e.Name())
		fmt.Fprintf(&sb, "%q:%q", dst, filepath.Join(src, e.Name()))
	}
	sb.WriteString("}}")
	ov := filepath.Join(dir, "overlay-"+name+".json")
	if err := os.WriteFile(ov, []byte(sb.String()), 0644); err != nil {
		return "", err
	}
	args := []string{"test", "-c", "-vet=off", "-tags", "verif", "-overlay", ov, "-o", out + ".tmp"}
	if race {
		args = append(args, "-race")
	}
	args = append(args, "grog/internal/zzverif/"+name)
	cmd := exec.Command("go", args...)
	cmd.Dir = Repo()
	cmd.Env = goEnv()
	b, err := cmd.CombinedOutput()
	if err != nil {
		return "", &BuildError{fmt.Sprintf("go %s failed: %v\n%s", strings.Join(args, " "), err, b)}
	}
	if err := os.Rename(out+".tmp", out); err != nil {
		return "", err
	}
	return out, nil
}

// Tool builds a command overlaid into the grog module: harness/<name>/*.go as package main at
// grog/internal/zzverif/<name>.
func Tool(name string) (string, error) {
	h, err := SourceHash()
	if err != nil {
		return "", err
	}
	dir := filepath.Join(CacheRoot(), h)
	out := filepath.Join(dir, "tool-"+name)
	if _, err := os.Stat(out); err == nil {
		return out, nil
	}
	lf, err := lock()
	if err != nil {
		return "", err
	}
	defer lf.Close()
	if _, err := os.Stat(out); err == nil {
		return out, nil
	}
	if err := os.MkdirAll(dir, 0755); err != nil {
		return "", err
	}
	gc(h)
	src := filepath.Join(VerifDir(), "harness", name)
	ents, err := os.ReadDir(src)
	if err != nil {
		return "", err
	}
	var sb strings.Builder
	sb.WriteString("{\"Replace\":{")
	first := true
	for _, e := range ents {
		if e.IsDir() || !strings.HasSuffix(e.Name(), ".go") {
			continue
		}
		if !first {
			sb.WriteString(",")
		}
		first = false
		fmt.Fprintf(&sb, "%q:%q", filepath.Join(Repo(), "internal", "zzverif", name, e.Name()), filepath.Join(src, e.Name()))
	}
	sb.WriteString("}}")
	ov := filepath.Join(dir, "overlay-"+name+".json")
	if err := os.WriteFile(ov, []byte(sb.String()), 0644); err != nil {
		return "", err
	}
	args := []string{"build", "-tags", "verif", "-overlay", ov, "-o", out + ".tmp", "grog/internal/zzverif/" + name}
	cmd := exec.Command("go", args...)
	cmd.Dir = Repo()
	cmd.Env = goEnv()
	b, err := cmd.CombinedOutput()
	if err != nil {
		return "", &BuildError{fmt.Sprintf("go %s failed: %v\n%s", strings.Join(args, " "), err, b)}
	}
	if err := os.Rename(out+".tmp", out); err != nil {
		return "", err
	}
	return out, nil
}
