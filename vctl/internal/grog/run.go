package grog

import (
	"bytes"
	"context"
	"fmt"
	"os"
	"os/exec"
	"path/filepath"
	"strings"
	"syscall"
	"time"
)

// Machine is one cache root ("machine identity") plus the workspace it builds.
type Machine struct {
	Bin       string // grog binary
	Workspace string // absolute workspace root
	Root      string // GROG_ROOT
	Home      string
	Trace     string // VTRACE
	Sidecar   string // VSPEC
	VctlBin   string
	ExtraEnv  []string
}

type Config struct {
	NumWorkers    int
	HashAlgorithm string
	LoadOutputs   string
	FailFast      bool
	Extra         string // extra toml lines
}

func (c Config) TOML() string {
	var sb strings.Builder
	if c.NumWorkers > 0 {
		fmt.Fprintf(&sb, "num_workers = %d\n", c.NumWorkers)
	}
	if c.HashAlgorithm != "" {
		fmt.Fprintf(&sb, "hash_algorithm = %q\n", c.HashAlgorithm)
	}
	if c.LoadOutputs != "" {
		fmt.Fprintf(&sb, "load_outputs = %q\n", c.LoadOutputs)
	}
	if c.FailFast {
		sb.WriteString("fail_fast = true\n")
	}
	sb.WriteString(c.Extra)
	return sb.String()
}

func (m *Machine) WriteConfig(c Config) error {
	return os.WriteFile(filepath.Join(m.Workspace, "grog.toml"), []byte(c.TOML()), 0644)
}

type Result struct {
	Args     []string
	Exit     int
	Signaled bool
	Stdout   string
	Stderr   string
	TimedOut bool
	Hang     bool   // watchdog: quiescent (no CPU progress, no children) when the cap fired
	Dump     string // goroutine dump taken by the watchdog
	Wall     time.Duration
	UserCPU  time.Duration
	SysCPU   time.Duration
}

// Crashed reports a Go runtime fatal error / panic / death by an unexpected signal.
func (r *Result) Crashed() string {
	for _, s := range []string{r.Stderr, r.Stdout} {
		for _, pat := range []string{"fatal error: ", "panic: ", "unexpected signal", "SIGSEGV", "goroutine 1 ["} {
			if i := strings.Index(s, pat); i >= 0 {
				end := i + 200
				if end > len(s) {
					end = len(s)
				}
				return strings.SplitN(s[i:end], "\n", 2)[0]
			}
		}
	}
	return ""
}

type RunOpts struct {
	Cwd        string // relative to workspace ("" = root)
	Env        []string
	Build      string        // VBUILD id
	Timeout    time.Duration // wall-clock cap (default 120s)
	Stdin      string
	AfterStart func(pid int) // called in a goroutine once the process runs
	// BeforeCleanup is called after the process has exited (or was given up on) and before
	// whatever is left of its session is killed
	BeforeCleanup func()
	// Pty runs grog on a pseudo terminal (stdin/stdout/stderr = the slave side, controlling
	// terminal of its own session): the interactive Bubble Tea UI path. Everything grog prints
	// ends up in Result.Stdout. WithPty (optional) gets the master side once the process runs:
	// writing "\x03" to it is what pressing Ctrl-C does.
	Pty     bool
	WithPty func(pid int, master *os.File)
	// Wrapper is a command line that grog is started through (e.g. strace with its options):
	// Wrapper[0] Wrapper[1:]... <grog> <args>. The wrapper must exit with grog's status.
	Wrapper []string
}

func cpuOf(pid int) (int64, bool) {
	b, err := os.ReadFile(fmt.Sprintf("/proc/%d/stat", pid))
	if err != nil {
		return 0, false
	}
	s := string(b)
	i := strings.LastIndex(s, ")")
	if i < 0 {
		return 0, false
	}
	f := strings.Fields(s[i+1:])
	if len(f) < 15 {
		return 0, false
	}
	var ut, st int64
	fmt.Sscan(f[11], &ut)
	fmt.Sscan(f[12], &st)
	return ut + st, true
}

// childrenOf lists the processes whose parent is pid.
func childrenOf(pid int) []int {
	ents, _ := os.ReadDir("/proc")
	var out []int
	for _, e := range ents {
		var p int
		if _, err := fmt.Sscan(e.Name(), &p); err != nil {
			continue
		}
		b, err := os.ReadFile(fmt.Sprintf("/proc/%d/stat", p))
		if err != nil {
			continue
		}
		s := string(b)
		i := strings.LastIndex(s, ")")
		if i < 0 {
			continue
		}
		f := strings.Fields(s[i+1:])
		var pp int
		if len(f) > 1 {
			fmt.Sscan(f[1], &pp)
		}
		if pp == pid {
			out = append(out, p)
		}
	}
	return out
}

func groupCPU(pgid int) (int64, int) {
	ents, _ := os.ReadDir("/proc")
	var total int64
	n := 0
	for _, e := range ents {
		var pid int
		if _, err := fmt.Sscan(e.Name(), &pid); err != nil {
			continue
		}
		g, err := syscall.Getpgid(pid)
		if err != nil || g != pgid {
			continue
		}
		if c, ok := cpuOf(pid); ok {
			total += c
			n++
		}
	}
	return total, n
}

// Run executes grog with the given arguments.
func (m *Machine) Run(args []string, o RunOpts) *Result {
	if o.Timeout == 0 {
		o.Timeout = 60 * time.Second
	}
	ctx := context.Background()
	cmd := exec.CommandContext(ctx, m.Bin, args...)
	if len(o.Wrapper) > 0 {
		wa := append(append(append([]string{}, o.Wrapper[1:]...), m.Bin), args...)
		cmd = exec.CommandContext(ctx, o.Wrapper[0], wa...)
	}
	cmd.Dir = filepath.Join(m.Workspace, filepath.FromSlash(o.Cwd))
	env := []string{
		"PWD=" + cmd.Dir, // what a shell would export: keeps a symlinked path symlinked for os.Getwd
		"PATH=" + os.Getenv("PATH"),
		"HOME=" + m.Home,
		"GROG_ROOT=" + m.Root,
		"VCTL=" + m.VctlBin,
		"VTRACE=" + m.Trace,
		"VSPEC=" + m.Sidecar,
		"VBUILD=" + o.Build,
		"TERM=dumb",
		"NO_COLOR=1",
		"GROG_DISABLE_TEA=true",
	}
	if o.Pty {
		env = env[:len(env)-3]
		env = append(env, "TERM=xterm-256color")
	}
	env = append(env, m.ExtraEnv...)
	env = append(env, o.Env...)
	cmd.Env = env
	var so, se bytes.Buffer
	var master, slave *os.File
	ptyDone := make(chan struct{})
	if o.Pty {
		var err error
		master, slave, err = openPty()
		if err != nil {
			return &Result{Args: args, Exit: -1, Stderr: "pty: " + err.Error()}
		}
		cmd.Stdin, cmd.Stdout, cmd.Stderr = slave, slave, slave
		cmd.SysProcAttr = &syscall.SysProcAttr{Setsid: true, Setctty: true, Ctty: 0}
	} else {
		close(ptyDone)
		cmd.Stdout = &so
		cmd.Stderr = &se
		if o.Stdin != "" {
			cmd.Stdin = strings.NewReader(o.Stdin)
		}
		cmd.SysProcAttr = &syscall.SysProcAttr{Setsid: true}
	}
	res := &Result{Args: args}
	start := time.Now()
	if err := cmd.Start(); err != nil {
		res.Exit = -1
		res.Stderr = "start: " + err.Error()
		if master != nil {
			master.Close()
			slave.Close()
		}
		return res
	}
	pid := cmd.Process.Pid
	if o.Pty {
		slave.Close()
		go func() {
			// drain the terminal until every slave descriptor is closed (read fails with EIO)
			defer close(ptyDone)
			buf := make([]byte, 8192)
			for {
				n, err := master.Read(buf)
				so.Write(buf[:n])
				// answer the queries a terminal emulator answers (termenv asks for the background
				// colour and the cursor position before the UI starts and waits seconds otherwise)
				if bytes.Contains(buf[:n], []byte("\x1b]11;?")) {
					master.Write([]byte("\x1b]11;rgb:0000/0000/0000\x1b\\"))
				}
				if bytes.Contains(buf[:n], []byte("\x1b[6n")) {
					master.Write([]byte("\x1b[1;1R"))
				}
				if err != nil {
					return
				}
			}
		}()
		if o.WithPty != nil {
			go o.WithPty(pid, master)
		}
	}
	if o.AfterStart != nil {
		go o.AfterStart(pid)
	}
	done := make(chan error, 1)
	go func() { done <- cmd.Wait() }()
	var err error
	select {
	case err = <-done:
	case <-time.After(o.Timeout):
		res.TimedOut = true
		// quiescence test: two CPU samples of the whole process group 2 s apart
		// (CPU time of the whole process group in clock ticks; a parked Go process still runs
		// its background timers now and then - on a terminal the UI redraws every second - so
		// allow 15 ticks = 150 ms over 3 s, i.e. 5 % of one core; a process that computes or
		// copies uses a multiple of that)
		c1, _ := groupCPU(pid)
		time.Sleep(3 * time.Second)
		c2, n := groupCPU(pid)
		res.Hang = c2-c1 <= 15 && n <= 1
		if len(o.Wrapper) > 0 {
			// the wrapper (a tracer) is one more process of the group and not the one to dump
			res.Hang = c2-c1 <= 15 && n <= 2
			for _, c := range childrenOf(pid) {
				_ = syscall.Kill(c, syscall.SIGQUIT)
			}
		} else {
			_ = syscall.Kill(pid, syscall.SIGQUIT)
		}
		select {
		case err = <-done:
		case <-time.After(10 * time.Second):
			_ = syscall.Kill(-pid, syscall.SIGKILL)
			err = <-done
		}
		if !o.Pty {
			res.Dump = se.String()
		}
	}
	if o.BeforeCleanup != nil {
		o.BeforeCleanup()
	}
	// kill whatever is left in the session (orphaned sleeps of interrupted commands)
	_ = syscall.Kill(-pid, syscall.SIGKILL)
	if o.Pty {
		select {
		case <-ptyDone:
		case <-time.After(2 * time.Second):
		}
		master.Close()
		<-ptyDone
		if res.TimedOut {
			res.Dump = so.String()
		}
	}
	res.Wall = time.Since(start)
	res.Stdout = so.String()
	res.Stderr = se.String()
	if cmd.ProcessState != nil {
		res.UserCPU = cmd.ProcessState.UserTime()
		res.SysCPU = cmd.ProcessState.SystemTime()
		if ws, ok := cmd.ProcessState.Sys().(syscall.WaitStatus); ok {
			if ws.Signaled() {
				res.Signaled = true
				res.Exit = 128 + int(ws.Signal())
			} else {
				res.Exit = ws.ExitStatus()
			}
		}
	} else if err != nil {
		res.Exit = -1
	}
	return res
}
