package grog

import (
	"fmt"
	"os"
	"syscall"
	"unsafe"
)

// openPty opens a pseudo terminal pair with plain syscalls (no extra module): the master side is
// what a terminal emulator holds, the slave side becomes stdin/stdout/stderr and the controlling
// terminal of the grog process, so that isatty() is true and the Bubble Tea UI path is the one
// that runs (raw mode: Ctrl-C arrives as the key byte 0x03, not as a signal).
func openPty() (master, slave *os.File, err error) {
	m, err := os.OpenFile("/dev/ptmx", os.O_RDWR|syscall.O_NOCTTY, 0)
	if err != nil {
		return nil, nil, err
	}
	var unlock int32
	if _, _, e := syscall.Syscall(syscall.SYS_IOCTL, m.Fd(), syscall.TIOCSPTLCK, uintptr(unsafe.Pointer(&unlock))); e != 0 {
		m.Close()
		return nil, nil, e
	}
	var n uint32
	if _, _, e := syscall.Syscall(syscall.SYS_IOCTL, m.Fd(), syscall.TIOCGPTN, uintptr(unsafe.Pointer(&n))); e != 0 {
		m.Close()
		return nil, nil, e
	}
	s, err := os.OpenFile(fmt.Sprintf("/dev/pts/%d", n), os.O_RDWR|syscall.O_NOCTTY, 0)
	if err != nil {
		m.Close()
		return nil, nil, err
	}
	// a window size, as a terminal emulator would set (Bubble Tea asks for it)
	ws := struct{ Row, Col, X, Y uint16 }{40, 160, 0, 0}
	_, _, _ = syscall.Syscall(syscall.SYS_IOCTL, m.Fd(), syscall.TIOCSWINSZ, uintptr(unsafe.Pointer(&ws)))
	return m, s, nil
}

// PtyAvailable reports whether this sandbox lets us allocate pseudo terminals.
func PtyAvailable() bool {
	m, s, err := openPty()
	if err != nil {
		return false
	}
	m.Close()
	s.Close()
	return true
}
