// Package act is the action helper run by every generated target command
// ("$VCTL" act <label> ...) and output check ("$VCTL" chk <marker>).
package act

import (
	"fmt"
	"os"
	"os/exec"
	"path/filepath"
	"sort"
	"strconv"
	"strings"
	"time"

	"vctl/internal/spec"
	"vctl/internal/tree"
)

func appendTrace(line string) {
	p := os.Getenv("VTRACE")
	if p == "" {
		return
	}
	f, err := os.OpenFile(p, os.O_WRONLY|os.O_APPEND|os.O_CREATE, 0644)
	if err != nil {
		return
	}
	_, _ = f.Write([]byte(line + "\n"))
	_ = f.Close()
}

func exists(p string) bool { _, err := os.Lstat(p); return err == nil }

// Main runs "act". args excludes the subcommand itself.
func Main(args []string) int {
	if len(args) < 1 {
		fmt.Fprintln(os.Stderr, "act: label required")
		return 64
	}
	label := args[0]
	var salt, failIf, sleepIf, omit, omitIf, touch, rm, rmIf string
	fail, sleepMs, sleepAfterMs := 0, 0, 0
	dangle := false
	sleepIfMs := 20000
	bgHold := 0
	for i := 1; i < len(args); i++ {
		next := func() string {
			i++
			if i < len(args) {
				return args[i]
			}
			return ""
		}
		switch args[i] {
		case "--salt":
			salt = next()
		case "--fail":
			fail, _ = strconv.Atoi(next())
		case "--failif":
			failIf = next()
		case "--sleep":
			sleepMs, _ = strconv.Atoi(next())
		case "--sleepafter":
			sleepAfterMs, _ = strconv.Atoi(next())
		case "--sleepifms":
			sleepIfMs, _ = strconv.Atoi(next())
		case "--bghold":
			bgHold, _ = strconv.Atoi(next())
		case "--sleepif":
			sleepIf = next()
		case "--omit":
			omit = next()
		case "--dangle":
			dangle = true
		case "--omitif":
			omitIf = next()
		case "--touch":
			touch = next()
		case "--rm":
			rm = next()
		case "--rmif":
			rmIf = next()
		}
	}
	build := os.Getenv("VBUILD")
	nonce := fmt.Sprintf("%d.%d", os.Getpid(), time.Now().UnixNano())
	root := os.Getenv("GROG_WORKSPACE_ROOT")
	appendTrace(fmt.Sprintf("S %s %s %s %d", build, label, nonce, os.Getppid()))

	sc, err := spec.ReadSidecar(os.Getenv("VSPEC"))
	if err != nil {
		fmt.Fprintln(os.Stderr, "act: sidecar:", err)
		appendTrace(fmt.Sprintf("X %s %s %s sidecar", build, label, nonce))
		return 65
	}
	t := sc.Target(label)
	if t == nil {
		fmt.Fprintln(os.Stderr, "act: unknown label", label)
		appendTrace(fmt.Sprintf("X %s %s %s unknown-label", build, label, nonce))
		return 66
	}
	t.Salt = salt
	cwd, _ := os.Getwd()
	wantCwd := filepath.Join(root, filepath.FromSlash(t.Pkg))
	if filepath.Clean(cwd) != filepath.Clean(wantCwd) {
		appendTrace(fmt.Sprintf("X %s %s %s cwd=%s", build, label, nonce, cwd))
	}
	if sleepMs > 0 {
		time.Sleep(time.Duration(sleepMs) * time.Millisecond)
	}
	if sleepIf != "" && bgHold > 0 && exists(filepath.Join(root, sleepIf)) {
		// a background child that inherits stdout / stderr and outlives this command
		bg := exec.Command("sleep", strconv.Itoa(bgHold))
		bg.Stdout, bg.Stderr = os.Stdout, os.Stderr
		_ = bg.Start()
	}
	if sleepIf != "" && exists(filepath.Join(root, sleepIf)) {
		time.Sleep(time.Duration(sleepIfMs) * time.Millisecond)
	}
	ins, err := spec.ResolveInputsDisk(cwd, t)
	if err != nil {
		fmt.Fprintln(os.Stderr, "act: inputs:", err)
		return 67
	}
	in := spec.InDigest(ins)
	var views []spec.DepView
	seen := map[string]bool{}
	var viewStr []string
	for _, d := range t.Deps {
		r := sc.Resolve(d)
		if r == "" || seen[r] {
			continue
		}
		seen[r] = true
		dt := sc.Target(r)
		for _, o := range dt.AllOuts() {
			dg := tree.DigestPath(spec.OutAbs(root, dt.Pkg, o.Path))
			views = append(views, spec.DepView{Label: r, Path: o.Path, Digest: dg})
			viewStr = append(viewStr, r+"|"+o.Path+"|"+dg)
		}
	}
	dep := spec.DepDigest(views)
	sort.Strings(viewStr)
	if omitIf != "" && omit != "" && !exists(filepath.Join(root, omitIf)) {
		omit = "" // --omitif M --omit P: P is left out only while M is present
	}
	if omitIf != "" && omit == "" && exists(filepath.Join(root, omitIf)) {
		// leave every declared output missing
		for _, o := range t.AllOuts() {
			_ = os.RemoveAll(spec.OutAbs(root, t.Pkg, o.Path))
			if dangle {
				_ = os.MkdirAll(filepath.Dir(spec.OutAbs(root, t.Pkg, o.Path)), 0755)
				_ = os.Symlink("does-not-exist-"+nonce, spec.OutAbs(root, t.Pkg, o.Path))
			}
		}
	} else {
		outs := spec.Produce(t, in, dep)
		for _, o := range t.AllOuts() {
			if o.Path == omit {
				_ = os.RemoveAll(spec.OutAbs(root, t.Pkg, o.Path))
				if dangle {
					_ = os.MkdirAll(filepath.Dir(spec.OutAbs(root, t.Pkg, o.Path)), 0755)
					_ = os.Symlink("does-not-exist-"+nonce, spec.OutAbs(root, t.Pkg, o.Path))
				}
				continue
			}
			// two ways real commands write: replace the output (unlink + create) or overwrite
			// it in place through the existing inode (`cmd > out`); which one is a function
			// of the state, so that a history exercises both
			write := outs[o.Path].Materialize
			if h := spec.H("style", label, salt, o.Path, in, dep); h[0]%2 == 0 {
				write = outs[o.Path].MaterializeInPlace
			}
			if err := write(spec.OutAbs(root, t.Pkg, o.Path)); err != nil {
				fmt.Fprintln(os.Stderr, "act: write:", err)
				appendTrace(fmt.Sprintf("X %s %s %s write-error", build, label, nonce))
				return 68
			}
		}
	}
	if sleepAfterMs > 0 {
		time.Sleep(time.Duration(sleepAfterMs) * time.Millisecond)
	}
	if touch != "" {
		_ = os.MkdirAll(filepath.Dir(filepath.Join(root, touch)), 0755)
		content := "ok\n"
		if strings.HasPrefix(filepath.Base(touch), "blank_") {
			content = "" // the condition of a check that expects no output
		}
		_ = os.WriteFile(filepath.Join(root, touch), []byte(content), 0644)
	}
	if rm != "" && rmIf != "" && exists(filepath.Join(root, rmIf)) {
		_ = os.Remove(filepath.Join(root, rm)) // the command itself destroys a checked condition
	}
	if fail != 0 {
		appendTrace(fmt.Sprintf("F %s %s %s rc=%d", build, label, nonce, fail))
		fmt.Fprintf(os.Stderr, "act: %s failing on purpose with %d\n", label, fail)
		return fail
	}
	if failIf != "" && exists(filepath.Join(root, failIf)) {
		appendTrace(fmt.Sprintf("F %s %s %s rc=7 marker", build, label, nonce))
		fmt.Fprintf(os.Stderr, "act: %s failing because marker %s exists\n", label, failIf)
		return 7
	}
	appendTrace(fmt.Sprintf("E %s %s %s in=%s dep=%s views=%s", build, label, nonce, in, dep, strings.Join(viewStr, ";")))
	return 0
}

// Chk implements output checks: passes iff the marker (workspace-relative) exists.
func Chk(args []string) int {
	print := false
	if len(args) > 0 && args[0] == "--print" {
		print = true
		args = args[1:]
	}
	if len(args) < 1 {
		return 64
	}
	root := os.Getenv("GROG_WORKSPACE_ROOT")
	p := filepath.Join(root, args[0])
	b, err := os.ReadFile(p)
	rc := 0
	if err != nil {
		rc = 9
	}
	appendTrace(fmt.Sprintf("K %s %s %s rc=%d", os.Getenv("VBUILD"), os.Getenv("GROG_TARGET"), args[0], rc))
	if print {
		if err != nil {
			fmt.Println("MARKER-ABSENT")
			return 0
		}
		fmt.Print(string(b))
		return 0
	}
	if rc != 0 {
		fmt.Fprintf(os.Stderr, "chk: marker %s absent\n", args[0])
	}
	return rc
}
