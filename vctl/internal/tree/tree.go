// Package tree is the single implementation of "what is at an output path":
// listing from disk, virtual trees, digesting and materialising. The action helper
// (command side) and the harness (observer side) both use it, so their digests cannot drift.
package tree

import (
	"crypto/sha256"
	"encoding/hex"
	"errors"
	"fmt"
	"io/fs"
	"os"
	"path/filepath"
	"sort"
	"strings"
)

// Entry is one node below (or at) an output path. Path is relative to the output
// root; the root itself has Path "".
type Entry struct {
	Path string `json:"path"`
	Type string `json:"type"` // "f" file, "d" directory, "l" symlink
	Exec bool   `json:"exec,omitempty"`
	Data []byte `json:"-"`
	Size int64  `json:"size"`
	Sum  string `json:"sum,omitempty"` // sha256 of Data for files
	Link string `json:"link,omitempty"`
}

type Tree []Entry

var ErrMissing = errors.New("missing")

func sum(b []byte) string {
	s := sha256.Sum256(b)
	return hex.EncodeToString(s[:])
}

// File makes a single-file tree.
func File(data []byte, exec bool) Tree {
	return Tree{{Path: "", Type: "f", Exec: exec, Data: data, Size: int64(len(data)), Sum: sum(data)}}
}

func (t Tree) Sort() {
	sort.Slice(t, func(i, j int) bool { return t[i].Path < t[j].Path })
}

// AddFile/AddDir/AddLink build virtual directory trees.
func (t *Tree) AddFile(p string, data []byte, exec bool) {
	*t = append(*t, Entry{Path: p, Type: "f", Exec: exec, Data: data, Size: int64(len(data)), Sum: sum(data)})
}
func (t *Tree) AddDir(p string)        { *t = append(*t, Entry{Path: p, Type: "d"}) }
func (t *Tree) AddLink(p, link string) { *t = append(*t, Entry{Path: p, Type: "l", Link: link}) }

// FromDisk lists root (file, directory or symlink). keepData keeps file contents.
func FromDisk(root string, keepData bool) (Tree, error) {
	fi, err := os.Lstat(root)
	if err != nil {
		if errors.Is(err, fs.ErrNotExist) || errors.Is(err, syscallENOTDIR) {
			return nil, ErrMissing
		}
		return nil, err
	}
	var t Tree
	add := func(rel string, fi fs.FileInfo, abs string) error {
		switch {
		case fi.Mode()&os.ModeSymlink != 0:
			l, err := os.Readlink(abs)
			if err != nil {
				return err
			}
			t = append(t, Entry{Path: rel, Type: "l", Link: l})
		case fi.IsDir():
			t = append(t, Entry{Path: rel, Type: "d"})
		case fi.Mode().IsRegular():
			b, err := os.ReadFile(abs)
			if err != nil {
				return err
			}
			e := Entry{Path: rel, Type: "f", Exec: fi.Mode()&0111 != 0, Size: int64(len(b)), Sum: sum(b)}
			if keepData {
				e.Data = b
			}
			t = append(t, e)
		default:
			t = append(t, Entry{Path: rel, Type: "o"})
		}
		return nil
	}
	if !fi.IsDir() {
		if err := add("", fi, root); err != nil {
			return nil, err
		}
		return t, nil
	}
	err = filepath.Walk(root, func(p string, info fs.FileInfo, err error) error {
		if err != nil {
			return err
		}
		rel, _ := filepath.Rel(root, p)
		if rel == "." {
			rel = ""
		}
		return add(filepath.ToSlash(rel), info, p)
	})
	if err != nil {
		return nil, err
	}
	t.Sort()
	return t, nil
}

// Listing is the canonical text form (type, exec bit, size, sha256, link target).
func (t Tree) Listing() string {
	c := append(Tree{}, t...)
	c.Sort()
	var sb strings.Builder
	for _, e := range c {
		x := 0
		if e.Exec {
			x = 1
		}
		fmt.Fprintf(&sb, "%s\t%q\tx=%d\t%d\t%s\t%q\n", e.Type, e.Path, x, e.Size, e.Sum, e.Link)
	}
	return sb.String()
}

// Digest is sha256 of the listing.
func (t Tree) Digest() string {
	if t == nil {
		return "MISSING"
	}
	return sum([]byte(t.Listing()))[:32]
}

// DigestPath digests what is at root on disk ("MISSING" if nothing is there).
func DigestPath(root string) string {
	t, err := FromDisk(root, false)
	if err != nil {
		if errors.Is(err, ErrMissing) {
			return "MISSING"
		}
		return "ERR:" + err.Error()
	}
	return t.Digest()
}

// Materialize replaces whatever is at root by the tree.
func (t Tree) Materialize(root string) error {
	if err := os.RemoveAll(root); err != nil {
		return err
	}
	c := append(Tree{}, t...)
	c.Sort()
	if err := os.MkdirAll(filepath.Dir(root), 0755); err != nil {
		return err
	}
	for _, e := range c {
		p := root
		if e.Path != "" {
			p = filepath.Join(root, filepath.FromSlash(e.Path))
		}
		switch e.Type {
		case "d":
			if err := os.MkdirAll(p, 0755); err != nil {
				return err
			}
		case "l":
			if err := os.MkdirAll(filepath.Dir(p), 0755); err != nil {
				return err
			}
			if err := os.Symlink(e.Link, p); err != nil {
				return err
			}
		case "f":
			if err := os.MkdirAll(filepath.Dir(p), 0755); err != nil {
				return err
			}
			mode := os.FileMode(0644)
			if e.Exec {
				mode = 0755
			}
			if err := os.WriteFile(p, e.Data, mode); err != nil {
				return err
			}
			if err := os.Chmod(p, mode); err != nil {
				return err
			}
		}
	}
	return nil
}

// MaterializeInPlace writes the tree the way `cmd > out` or a tool that overwrites its previous
// results does: existing regular files are truncated and rewritten through their existing inode
// (no unlink), entries that are no longer part of the tree are removed, everything else is
// created. The resulting listing equals that of Materialize.
func (t Tree) MaterializeInPlace(root string) error {
	c := append(Tree{}, t...)
	c.Sort()
	if err := os.MkdirAll(filepath.Dir(root), 0755); err != nil {
		return err
	}
	want := map[string]Entry{}
	for _, e := range c {
		want[e.Path] = e
	}
	// remove what does not belong (or has the wrong type)
	if fi, err := os.Lstat(root); err == nil {
		rootWant := want[""]
		switch {
		case rootWant.Type == "f" && !fi.Mode().IsRegular(), rootWant.Type == "d" && !fi.IsDir(), rootWant.Type == "l":
			if err := os.RemoveAll(root); err != nil {
				return err
			}
		case fi.IsDir():
			var extra []string
			_ = filepath.Walk(root, func(p string, info os.FileInfo, err error) error {
				if err != nil || p == root {
					return nil
				}
				rel, _ := filepath.Rel(root, p)
				w, ok := want[filepath.ToSlash(rel)]
				typ := "f"
				if info.IsDir() {
					typ = "d"
				} else if info.Mode()&os.ModeSymlink != 0 {
					typ = "l"
				}
				if !ok || w.Type != typ || typ == "l" {
					extra = append(extra, p)
					if info.IsDir() {
						return filepath.SkipDir
					}
				}
				return nil
			})
			for _, p := range extra {
				if err := os.RemoveAll(p); err != nil {
					return err
				}
			}
		}
	}
	for _, e := range c {
		p := root
		if e.Path != "" {
			p = filepath.Join(root, filepath.FromSlash(e.Path))
		}
		switch e.Type {
		case "d":
			if err := os.MkdirAll(p, 0755); err != nil {
				return err
			}
		case "l":
			if err := os.MkdirAll(filepath.Dir(p), 0755); err != nil {
				return err
			}
			if err := os.Symlink(e.Link, p); err != nil {
				return err
			}
		case "f":
			if err := os.MkdirAll(filepath.Dir(p), 0755); err != nil {
				return err
			}
			mode := os.FileMode(0644)
			if e.Exec {
				mode = 0755
			}
			f, err := os.OpenFile(p, os.O_WRONLY|os.O_CREATE|os.O_TRUNC, mode)
			if err != nil {
				// e.g. a read-only file left by a restore: replace it
				_ = os.Remove(p)
				f, err = os.OpenFile(p, os.O_WRONLY|os.O_CREATE|os.O_TRUNC, mode)
				if err != nil {
					return err
				}
			}
			if _, err := f.Write(e.Data); err != nil {
				f.Close()
				return err
			}
			if err := f.Close(); err != nil {
				return err
			}
			if err := os.Chmod(p, mode); err != nil {
				return err
			}
		}
	}
	return nil
}

// Diff describes the first few differences between two trees (empty if equal).
func Diff(want, got Tree) []string {
	var out []string
	if want == nil && got == nil {
		return nil
	}
	if want == nil {
		return []string{"unexpected: path exists"}
	}
	if got == nil {
		return []string{"missing: path absent"}
	}
	wm := map[string]Entry{}
	for _, e := range want {
		wm[e.Path] = e
	}
	gm := map[string]Entry{}
	for _, e := range got {
		gm[e.Path] = e
	}
	var keys []string
	for k := range wm {
		keys = append(keys, k)
	}
	for k := range gm {
		if _, ok := wm[k]; !ok {
			keys = append(keys, k)
		}
	}
	sort.Strings(keys)
	for _, k := range keys {
		w, wok := wm[k]
		g, gok := gm[k]
		switch {
		case !wok:
			out = append(out, fmt.Sprintf("extra %s %q", g.Type, k))
		case !gok:
			out = append(out, fmt.Sprintf("absent %s %q", w.Type, k))
		case w.Type != g.Type:
			out = append(out, fmt.Sprintf("type %q want %s got %s", k, w.Type, g.Type))
		case w.Type == "f" && w.Sum != g.Sum:
			out = append(out, fmt.Sprintf("content %q want %s(%d) got %s(%d)", k, w.Sum[:8], w.Size, g.Sum[:8], g.Size))
		case w.Type == "f" && w.Exec != g.Exec:
			out = append(out, fmt.Sprintf("execbit %q want %v got %v", k, w.Exec, g.Exec))
		case w.Type == "l" && w.Link != g.Link:
			out = append(out, fmt.Sprintf("link %q want %q got %q", k, w.Link, g.Link))
		}
		if len(out) >= 8 {
			break
		}
	}
	return out
}

// DiffKinds reduces Diff output to the sorted set of difference kinds.
func DiffKinds(d []string) string {
	set := map[string]bool{}
	for _, s := range d {
		set[strings.SplitN(s, " ", 2)[0]] = true
	}
	var ks []string
	for k := range set {
		ks = append(ks, strings.TrimSuffix(k, ":"))
	}
	sort.Strings(ks)
	return strings.Join(ks, "+")
}
