package tree

import "syscall"

var syscallENOTDIR = syscall.ENOTDIR
