// Package audit inspects a grog cache directory (or an object-store bucket map) at rest,
// independently of grog's code: own hashing (xxh3-128 / sha256) and own protobuf decoding.
package audit

import (
	"crypto/sha256"
	"encoding/hex"
	"fmt"
	"os"
	"path/filepath"
	"sort"
	"strings"

	"github.com/zeebo/xxh3"
	"google.golang.org/protobuf/encoding/protowire"
)

type Digest struct {
	Hash string
	Size int64
}

type OutputRef struct {
	Kind   string // file | dir | docker
	Path   string
	Digest Digest
	Exec   bool
}

type TargetResult struct {
	ChangeHash string
	OutputHash string
	Outputs    []OutputRef
}

type FileNode struct {
	Name   string
	Digest Digest
	Exec   bool
}
type DirNode struct {
	Name   string
	Digest Digest
}
type Directory struct {
	Files []FileNode
	Dirs  []DirNode
	Links [][2]string
	raw   []byte
}
type Tree struct {
	Root     Directory
	Children []Directory
}

func fields(b []byte, f func(num protowire.Number, typ protowire.Type, val []byte, vi uint64) error) error {
	for len(b) > 0 {
		num, typ, n := protowire.ConsumeTag(b)
		if n < 0 {
			return fmt.Errorf("bad tag")
		}
		b = b[n:]
		switch typ {
		case protowire.VarintType:
			v, n := protowire.ConsumeVarint(b)
			if n < 0 {
				return fmt.Errorf("bad varint")
			}
			if err := f(num, typ, nil, v); err != nil {
				return err
			}
			b = b[n:]
		case protowire.BytesType:
			v, n := protowire.ConsumeBytes(b)
			if n < 0 {
				return fmt.Errorf("bad bytes")
			}
			if err := f(num, typ, v, 0); err != nil {
				return err
			}
			b = b[n:]
		default:
			n := protowire.ConsumeFieldValue(num, typ, b)
			if n < 0 {
				return fmt.Errorf("bad field")
			}
			b = b[n:]
		}
	}
	return nil
}

func decDigest(b []byte) (Digest, error) {
	var d Digest
	err := fields(b, func(num protowire.Number, typ protowire.Type, val []byte, vi uint64) error {
		switch num {
		case 1:
			d.Hash = string(val)
		case 2:
			d.Size = int64(vi)
		}
		return nil
	})
	return d, err
}

func DecodeTargetResult(b []byte) (*TargetResult, error) {
	tr := &TargetResult{}
	err := fields(b, func(num protowire.Number, typ protowire.Type, val []byte, vi uint64) error {
		switch num {
		case 1:
			tr.ChangeHash = string(val)
		case 2:
			tr.OutputHash = string(val)
		case 3:
			var o OutputRef
			err := fields(val, func(n2 protowire.Number, t2 protowire.Type, v2 []byte, _ uint64) error {
				switch n2 {
				case 1:
					o.Kind = "file"
				case 2:
					o.Kind = "dir"
				case 3:
					o.Kind = "docker"
					return nil
				}
				return fields(v2, func(n3 protowire.Number, t3 protowire.Type, v3 []byte, vi3 uint64) error {
					switch n3 {
					case 1:
						o.Path = string(v3)
					case 2:
						d, err := decDigest(v3)
						o.Digest = d
						return err
					case 3:
						o.Exec = vi3 != 0
					}
					return nil
				})
			})
			if err != nil {
				return err
			}
			tr.Outputs = append(tr.Outputs, o)
		}
		return nil
	})
	if err != nil {
		return nil, err
	}
	return tr, nil
}

func decDirectory(b []byte) (Directory, error) {
	d := Directory{raw: b}
	err := fields(b, func(num protowire.Number, typ protowire.Type, val []byte, vi uint64) error {
		switch num {
		case 1:
			var f FileNode
			err := fields(val, func(n protowire.Number, t protowire.Type, v []byte, vi2 uint64) error {
				switch n {
				case 1:
					f.Name = string(v)
				case 2:
					dg, err := decDigest(v)
					f.Digest = dg
					return err
				case 3:
					f.Exec = vi2 != 0
				}
				return nil
			})
			d.Files = append(d.Files, f)
			return err
		case 2:
			var dn DirNode
			err := fields(val, func(n protowire.Number, t protowire.Type, v []byte, _ uint64) error {
				switch n {
				case 1:
					dn.Name = string(v)
				case 2:
					dg, err := decDigest(v)
					dn.Digest = dg
					return err
				}
				return nil
			})
			d.Dirs = append(d.Dirs, dn)
			return err
		case 3:
			var l [2]string
			err := fields(val, func(n protowire.Number, t protowire.Type, v []byte, _ uint64) error {
				switch n {
				case 1:
					l[0] = string(v)
				case 2:
					l[1] = string(v)
				}
				return nil
			})
			d.Links = append(d.Links, l)
			return err
		}
		return nil
	})
	return d, err
}

func DecodeTree(b []byte) (*Tree, error) {
	t := &Tree{}
	err := fields(b, func(num protowire.Number, typ protowire.Type, val []byte, _ uint64) error {
		switch num {
		case 1:
			d, err := decDirectory(val)
			t.Root = d
			return err
		case 2:
			d, err := decDirectory(val)
			t.Children = append(t.Children, d)
			return err
		}
		return nil
	})
	if err != nil {
		return nil, err
	}
	return t, nil
}

// HashLike hashes content with the algorithm that produced a digest of this length.
func HashLike(digest string, content []byte) string {
	if len(digest) == 64 {
		s := sha256.Sum256(content)
		return hex.EncodeToString(s[:])
	}
	h := xxh3.Hash128(content)
	return fmt.Sprintf("%016x%016x", h.Hi, h.Lo)
}

// Store is a read-only view of a cache: key -> content, keys like "cas/<d>", "target/<k>", "taint/<l>".
type Store map[string][]byte

// LoadDir loads a grog workspace cache directory (…/<prefix>/cache).
func LoadDir(dir string) (Store, error) {
	s := Store{}
	err := filepath.Walk(dir, func(p string, fi os.FileInfo, err error) error {
		if err != nil {
			return nil
		}
		if fi.IsDir() {
			return nil
		}
		rel, _ := filepath.Rel(dir, p)
		rel = filepath.ToSlash(rel)
		if strings.HasPrefix(filepath.Base(p), "tmp-") {
			return nil // temp files are invisible under any final key
		}
		b, err := os.ReadFile(p)
		if err != nil {
			return nil
		}
		s[rel] = b
		return nil
	})
	return s, err
}

type Report struct {
	CasOK, TargetOK int
	CasBad          []string // blob whose content does not hash to its name
	TargetBad       []string // result that does not decode or whose change_hash != key
	Dangling        []string // "target/<k> -> cas/<d> (what)"
}

func (r *Report) Clean() bool {
	return len(r.CasBad) == 0 && len(r.TargetBad) == 0 && len(r.Dangling) == 0
}

func (r *Report) Summary() string {
	return fmt.Sprintf("cas_ok=%d cas_bad=%d target_ok=%d target_bad=%d dangling=%d", r.CasOK, len(r.CasBad), r.TargetOK, len(r.TargetBad), len(r.Dangling))
}

// Audit checks: every cas/<d> hashes to d; every target/<k> decodes, has change_hash == k, and
// references only present blobs (file digests, tree digests, and every file inside a tree).
func Audit(s Store) *Report {
	r := &Report{}
	var keys []string
	for k := range s {
		keys = append(keys, k)
	}
	sort.Strings(keys)
	for _, k := range keys {
		if strings.HasPrefix(k, "cas/") {
			d := strings.TrimPrefix(k, "cas/")
			if HashLike(d, s[k]) != d {
				r.CasBad = append(r.CasBad, k)
			} else {
				r.CasOK++
			}
		}
	}
	for _, k := range keys {
		if !strings.HasPrefix(k, "target/") {
			continue
		}
		key := strings.TrimPrefix(k, "target/")
		tr, err := DecodeTargetResult(s[k])
		if err != nil || tr.ChangeHash != key {
			r.TargetBad = append(r.TargetBad, k)
			continue
		}
		ok := true
		for _, o := range tr.Outputs {
			switch o.Kind {
			case "file":
				if _, ok2 := s["cas/"+o.Digest.Hash]; !ok2 {
					r.Dangling = append(r.Dangling, fmt.Sprintf("%s -> cas/%s (file %s)", k, o.Digest.Hash, o.Path))
					ok = false
				}
			case "dir":
				tb, ok2 := s["cas/"+o.Digest.Hash]
				if !ok2 {
					r.Dangling = append(r.Dangling, fmt.Sprintf("%s -> cas/%s (tree %s)", k, o.Digest.Hash, o.Path))
					ok = false
					continue
				}
				t, err := DecodeTree(tb)
				if err != nil {
					r.Dangling = append(r.Dangling, fmt.Sprintf("%s -> cas/%s (tree %s does not decode)", k, o.Digest.Hash, o.Path))
					ok = false
					continue
				}
				for _, d := range append([]Directory{t.Root}, t.Children...) {
					for _, f := range d.Files {
						if _, ok3 := s["cas/"+f.Digest.Hash]; !ok3 {
							r.Dangling = append(r.Dangling, fmt.Sprintf("%s -> cas/%s (file %s inside tree %s)", k, f.Digest.Hash, f.Name, o.Path))
							ok = false
						}
					}
				}
			}
		}
		if ok {
			r.TargetOK++
		}
	}
	return r
}

// BlobsOf lists the cas keys a target result references (including files inside trees).
func BlobsOf(s Store, tr *TargetResult) []string {
	var out []string
	for _, o := range tr.Outputs {
		switch o.Kind {
		case "file":
			out = append(out, "cas/"+o.Digest.Hash)
		case "dir":
			out = append(out, "cas/"+o.Digest.Hash)
			if tb, ok := s["cas/"+o.Digest.Hash]; ok {
				if t, err := DecodeTree(tb); err == nil {
					for _, d := range append([]Directory{t.Root}, t.Children...) {
						for _, f := range d.Files {
							out = append(out, "cas/"+f.Digest.Hash)
						}
					}
				}
			}
		}
	}
	return out
}
