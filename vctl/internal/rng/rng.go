// Package rng is a small deterministic PRNG (splitmix64) so that every case list
// is a pure function of (seed, tier).
package rng

import (
	"crypto/sha256"
	"encoding/binary"
)

type R struct{ s uint64 }

func New(seed uint64) *R { return &R{s: seed*0x9E3779B97F4A7C15 + 0x1234567} }

// Derive returns an independent stream named by the parts.
func Derive(seed uint64, parts ...string) *R {
	h := sha256.New()
	var b [8]byte
	binary.LittleEndian.PutUint64(b[:], seed)
	h.Write(b[:])
	for _, p := range parts {
		h.Write([]byte{0})
		h.Write([]byte(p))
	}
	sum := h.Sum(nil)
	return &R{s: binary.LittleEndian.Uint64(sum[:8])}
}

func (r *R) U64() uint64 {
	r.s += 0x9E3779B97F4A7C15
	z := r.s
	z = (z ^ (z >> 30)) * 0xBF58476D1CE4E5B9
	z = (z ^ (z >> 27)) * 0x94D049BB133111EB
	return z ^ (z >> 31)
}

// Intn returns a value in [0,n).
func (r *R) Intn(n int) int {
	if n <= 0 {
		return 0
	}
	return int(r.U64() % uint64(n))
}

// Range returns a value in [lo,hi].
func (r *R) Range(lo, hi int) int { return lo + r.Intn(hi-lo+1) }

// Chance returns true with probability num/den.
func (r *R) Chance(num, den int) bool { return r.Intn(den) < num }

func (r *R) Bytes(n int) []byte {
	b := make([]byte, n)
	for i := range b {
		b[i] = byte(r.U64())
	}
	return b
}

// Word returns a short lowercase word.
func (r *R) Word(minLen, maxLen int) string {
	n := r.Range(minLen, maxLen)
	b := make([]byte, n)
	for i := range b {
		b[i] = byte('a' + r.Intn(26))
	}
	return string(b)
}

func Pick[T any](r *R, xs []T) T { return xs[r.Intn(len(xs))] }

func Shuffle[T any](r *R, xs []T) {
	for i := len(xs) - 1; i > 0; i-- {
		j := r.Intn(i + 1)
		xs[i], xs[j] = xs[j], xs[i]
	}
}
