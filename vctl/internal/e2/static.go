package e2

import (
	"encoding/json"
	"fmt"
	"os"
	"sort"
	"strconv"
	"sync"

	"vctl/internal/e1"
	"vctl/internal/grog"
	"vctl/internal/report"
)

func staticBatch(run *report.Run, test string, from, to int, extra []string) ([]Outcome, error) {
	drv, err := grog.Driver("static", false)
	if err != nil {
		return nil, err
	}
	dir, err := os.MkdirTemp(e1.Scratch(), "verif-static-")
	if err != nil {
		return nil, err
	}
	defer os.RemoveAll(dir)
	args := append([]string{"-vseed", strconv.FormatInt(run.Seed, 10), "-vdir", dir}, extra...)
	return RunBatch(BatchOpts{Driver: drv, TestName: test, From: from, To: to, Dir: dir, Args: args}), nil
}

// C17ProcessPart (set by package e6) confirms the algebra at the command line.
var C17ProcessPart func(run *report.Run, tier string)

// RunC17: labels and patterns follow the documented algebra.
func RunC17(tier string) int {
	run := report.New("C17", tier, "exploration",
		"in-process driver on the exported label API: every string over {a,b,/,:,.,-} up to length L (quick 6, thorough 8) plus random longer strings built from label fragments, each parsed as a label and as a pattern relative to three current packages and matched against a bounded universe (11 packages x 9 names incl. prefix siblings and 'all'); "+
			"laws judged: parse(print(label)) == label, //a/b == //a/b:b, :x resolves to the current package, documented pattern forms match exactly the reference set (recursive at component boundaries, :all / :... only the package, exact names), parse(print(pattern)) matches the same set; documented label forms (//pkg, //pkg:name) over package paths up to 4 components incl. repeated and prefix/suffix-related components, and the shorthand law CanBeShortened(l) <=> l.Name is the last component of l.Package (and then //pkg parses to l); "+
			"strings outside the documented forms are only checked for crashes and round trips; non-trivial = string that parses as a pattern in a documented form")
	L := tierN(tier, 6, 8)
	outs, err := staticBatch(run, "TestLabels", 0, 1, []string{"-vlen", strconv.Itoa(L), "-vrand", strconv.Itoa(tierN(tier, 20000, 1000000))})
	if err != nil {
		run.Infra(err.Error())
		return run.Finish()
	}
	for _, o := range outs {
		if o.Crash != "" {
			run.Violation("label-api "+o.Crash, "label driver died: "+firstLines(o.Detail, 6), map[string]any{"detail": o.Detail})
			continue
		}
		var r struct {
			Strings        int               `json:"strings"`
			LabelsParsed   int               `json:"labels_parsed"`
			PatternsParsed int               `json:"patterns_parsed"`
			Documented     int               `json:"patterns_in_documented_form"`
			MatchChecks    int               `json:"match_checks"`
			ShorthandLaws  int               `json:"shorthand_law_checks"`
			Violations     map[string]int    `json:"violations"`
			Leads          map[string]int    `json:"leads"`
			Examples       map[string]string `json:"examples"`
		}
		if json.Unmarshal(o.Res, &r) != nil {
			run.Infra("cannot parse driver result")
			continue
		}
		run.Eval(r.Strings)
		run.Count("strings_enumerated", r.Strings)
		run.Count("parsed_as_label", r.LabelsParsed)
		run.Count("parsed_as_pattern", r.PatternsParsed)
		run.Count("pattern_label_match_checks", r.MatchChecks)
		run.Count("shorthand_law_checks", r.ShorthandLaws)
		for i := 0; i < r.Documented && i < 1000000; i += max(1, r.Documented/50) {
			run.Nontrivial(fmt.Sprintf("documented-pattern-bucket-%d", i))
		}
		run.Set("patterns_in_documented_form", r.Documented)
		run.Set("exhaustive", true)
		for k, n := range r.Leads {
			run.Count("lead:"+k, n)
		}
		var ks []string
		for k := range r.Violations {
			ks = append(ks, k)
		}
		sort.Strings(ks)
		for _, k := range ks {
			run.Violation(k, fmt.Sprintf("%d strings violate %s, e.g. %s", r.Violations[k], k, r.Examples[k]), map[string]any{"example": r.Examples[k]})
		}
		run.Sample(map[string]any{"alphabet": "ab/:.-", "max_len": L, "universe_packages": 11, "universe_names": 9, "documented_patterns": r.Documented})
	}
	if C17ProcessPart != nil {
		C17ProcessPart(run, tier)
	}
	run.Assume("the reference matcher is written from docs/reference/labels.md; package paths with empty components are outside the documented forms")
	return run.Finish()
}

// RunC09: cache keys are canonical.
func RunC09(tier string) int {
	run := report.New("C09", tier, "exploration",
		"in-process driver on hashing.GetTargetChangeHash with real files in temp package directories, evaluated under xxh3 AND sha256 (a collision under both is an encoding collision, not a hash accident): seeded random target states paired with a related state - permutations of inputs/outputs/dependency hashes, re-evaluation, another workspace root (must be equal), boundary shifts between adjacent components (label|command, command|inputs, key=value of fingerprints, list elements containing the separator, end of one file|start of the next, missing vs empty, bin_output vs output, platform, ...) (must differ); "+
			"oracle: an injective length-prefixed canonical encoding of the state tuple, canon(a)==canon(b) <=> key(a)==key(b); non-trivial = judged pair; distinct = relation class")
	n := tierN(tier, 24000, 1200000)
	chunks := 16
	per := n / chunks
	var mu sync.Mutex
	classes := map[string]int{}
	viol := map[string]int{}
	ex := map[string]string{}
	leads := map[string]int{}
	e1.Parallel(chunks, func(c int) {
		outs, err := staticBatch(run, "TestKeys", c*per, (c+1)*per, nil)
		if err != nil {
			run.Infra(err.Error())
			return
		}
		mu.Lock()
		defer mu.Unlock()
		for _, o := range outs {
			if o.Crash != "" {
				run.Violation("key-api "+o.Crash, "key driver died: "+firstLines(o.Detail, 6), map[string]any{"detail": o.Detail})
				continue
			}
			var r struct {
				Pairs      int               `json:"pairs"`
				Classes    map[string]int    `json:"classes"`
				Violations map[string]int    `json:"violations"`
				Examples   map[string]string `json:"examples"`
				Leads      map[string]int    `json:"leads"`
				ModelSkew  int               `json:"model_skew"`
			}
			if json.Unmarshal(o.Res, &r) != nil {
				continue
			}
			run.Eval(r.Pairs)
			run.Count("pairs_judged", r.Pairs)
			run.Count("pairs_not_judged(generator/canon disagree)", r.ModelSkew)
			for k, v := range r.Classes {
				classes[k] += v
			}
			for k, v := range r.Violations {
				viol[k] += v
			}
			for k, v := range r.Leads {
				leads[k] += v
			}
			for k, v := range r.Examples {
				if _, ok := ex[k]; !ok {
					ex[k] = v
				}
			}
		}
	})
	// the output hash of a target (an ingredient of every dependant's key) must not depend on scheduling
	if outs, err := staticBatch(run, "TestOutputHash", 0, tierN(tier, 40, 600), nil); err == nil {
		for _, o := range outs {
			if o.Crash != "" {
				run.Violation("output-hash "+o.Crash, "output hash driver died: "+firstLines(o.Detail, 6), map[string]any{"detail": o.Detail})
				continue
			}
			var r struct {
				Cases    int    `json:"cases"`
				Writes   int    `json:"writes"`
				Unstable int    `json:"unstable_cases"`
				Example  string `json:"example"`
				UnstNC   int    `json:"unstable_nocache_cases"`
				ExNC     string `json:"example_nocache"`
			}
			if json.Unmarshal(o.Res, &r) != nil {
				continue
			}
			run.Eval(r.Writes)
			run.Count("output_hash_evaluations", r.Writes)
			if r.UnstNC > 0 {
				run.Violation("output-hash-depends-on-scheduling flavour=no-cache", fmt.Sprintf("%d of %d targets got different output hashes (the flavour used for no-cache / cache-disabled targets) for identical outputs: %s", r.UnstNC, r.Cases, r.ExNC), map[string]any{"example": r.ExNC})
			}
			if r.Unstable > 0 {
				run.Violation("output-hash-depends-on-scheduling", fmt.Sprintf("%d of %d targets got different output hashes for identical outputs: %s", r.Unstable, r.Cases, r.Example), map[string]any{"example": r.Example})
			}
		}
	} else {
		run.Infra(err.Error())
	}
	// the key computed late in a build must not depend on what the same build keyed earlier
	if outs, err := staticBatch(run, "TestHasherHistory", 0, tierN(tier, 60, 1500), nil); err == nil {
		for _, o := range outs {
			if o.Crash != "" {
				run.Violation("hasher-history "+o.Crash, "hasher history driver died: "+firstLines(o.Detail, 6), map[string]any{"detail": o.Detail})
				continue
			}
			var r struct {
				Cases   int    `json:"cases"`
				Bad     int    `json:"history_dependent"`
				Example string `json:"example"`
			}
			if json.Unmarshal(o.Res, &r) != nil {
				continue
			}
			run.Eval(r.Cases)
			run.Count("keys_computed_after_earlier_keys_and_file_rewrites", r.Cases)
			if r.Bad > 0 {
				run.Violation("key-depends-on-what-the-build-keyed-earlier", fmt.Sprintf("%d of %d targets keyed late in a build got a key that differs from the key of the same state in a fresh build: %s", r.Bad, r.Cases, r.Example), map[string]any{"example": r.Example})
			} else if r.Cases > 0 {
				run.Nontrivial("hasher-history")
			}
		}
	} else {
		run.Infra(err.Error())
	}
	// process level: the keys the real binary writes must not depend on declaration order
	if st, err := e1.Prepare(run, false); err == nil {
		e1.DeclOrderPart(run, st, tierN(tier, 24, 300))
		st.Cleanup()
	} else {
		run.Infra(err.Error())
	}
	for k, v := range classes {
		run.Count("class:"+k, v)
		run.Nontrivial(k)
	}
	for k, v := range leads {
		run.Count("lead:"+k, v)
	}
	var ks []string
	for k := range viol {
		ks = append(ks, k)
	}
	sort.Strings(ks)
	for _, k := range ks {
		e := ""
		for ck, cv := range ex {
			if len(k) >= len(ck) && k[len(k)-len(ck):] == ck {
				e = cv
			}
		}
		run.Violation(k, fmt.Sprintf("%d pairs: %s; e.g. %s", viol[k], k, e), map[string]any{"example": e})
	}
	run.Sample(map[string]any{"relation_classes": len(classes)})
	run.Assume("duplicate entries in the input list describe the same set of (path, content) pairs; grog keys them differently (unnecessary re-execution only): recorded as a lead, not judged")
	return run.Finish()
}
