package e2

import (
	"fmt"
	"os"
	"path/filepath"
	"sort"
	"strings"
	"sync"

	"vctl/internal/e1"
	"vctl/internal/grog"
	"vctl/internal/report"
	"vctl/internal/rng"
	"vctl/internal/spec"
)

// RaceBuildPart runs whole builds of the race-instrumented binary (hooks on): cold builds, edits,
// restores into a wiped workspace, lost blobs, failing targets, both load_outputs modes, 2-8
// workers. The Go race detector is the monitor. Verdict policy (DESIGN 2.7): a report whose
// stacks access a map or grow a slice is the kind of race the runtime turns into `fatal error:
// concurrent map ...` - a C04 violation, identified by the pair of outermost grog frames; every
// other report is listed in the evidence as a lead.
func RaceBuildPart(run *report.Run, st *e1.Setup, n int) {
	if st.GrogR == "" {
		run.Infra("race-instrumented binary not built")
		return
	}
	var mu sync.Mutex
	leads := map[string]int{}
	e1.Parallel(n, func(i int) {
		r := rng.Derive(uint64(run.Seed), "C04-race", fmt.Sprint(i))
		pf := spec.DefaultProfile()
		pf.MinTargets, pf.MaxTargets, pf.EdgeProb = 5, 12, 35
		pf.NoCache = true
		s := spec.Gen(r, pf)
		gcfg := grog.Config{NumWorkers: r.Range(2, 8)}
		minimal := r.Chance(1, 2)
		if minimal {
			gcfg.LoadOutputs = "minimal"
		}
		env, err := e1.NewEnv(st.Base, fmt.Sprintf("race%d", i), st.GrogR, st.Vctl, s, gcfg)
		if err != nil {
			run.Infra(err.Error())
			return
		}
		env.MaybeTTY(run, fmt.Sprint(i), 3) // the interactive UI has goroutines of its own
		keep := false
		defer func() {
			if !keep {
				env.Cleanup()
			}
		}()
		raceLog := filepath.Join(env.Dir, "race")
		env.M.ExtraEnv = append(env.M.ExtraEnv, "GORACE=halt_on_error=0 log_path="+raceLog)
		hookLog := env.EnableHookLog()
		cfg := e1.BuildCfg{EnableCache: true, Minimal: minimal}
		steps := []string{"cold", "edit", "wipe-outputs", "lost-blobs", "failing", "noop"}
		for _, stp := range steps {
			switch stp {
			case "edit":
				for j := 0; j < 2; j++ {
					env.Apply(func() string { return e1.OpSalt(r, env) })
				}
			case "wipe-outputs":
				env.WipeOutputs()
			case "lost-blobs":
				ts := env.CachedTargetsWithOutputs()
				if len(ts) > 0 {
					sort.Slice(ts, func(a, b int) bool { return ts[a].Label() < ts[b].Label() })
					t := ts[r.Intn(len(ts))]
					env.DeleteBlobsOf(t.Label(), hookLog, func(idx, n int) bool { return true })
					env.WipeOutputs()
					for d := range env.Spec.Dependants(t.Label()) {
						d := d
						env.Apply(func() string { env.Spec.Target(d).Salt = r.Word(4, 8); return "command-change" })
					}
					for k := range env.Memo {
						env.Memo[k] = "lost"
					}
				}
			case "failing":
				t := env.Spec.Targets[r.Intn(len(env.Spec.Targets))]
				env.Apply(func() string { t.FailExit = 5; t.Salt = r.Word(4, 8); return "command-change" })
			}
			_, obs, vs, err := env.Step(e1.BuildOpts{}, cfg, stp, false)
			if err != nil {
				run.Infra(err.Error())
				return
			}
			run.Eval(1)
			run.Count("race_instrumented_builds", 1)
			run.Count("race_instrumented_build:"+stp, 1)
			for _, v := range vs {
				if v.Kind == "crash" || v.Kind == "hang" {
					keep = !run.Violation("race-build "+v.Sig, v.What, map[string]any{"history": env.Log, "stderr": tailStr(obs.Res.Stderr, 1500)}) || keep
					return
				}
			}
			matches, _ := filepath.Glob(raceLog + ".*")
			for _, mf := range matches {
				b, _ := os.ReadFile(mf)
				for _, rc := range ParseRaces(string(b)) {
					run.Count("race_reports", 1)
					if rc.IsMap {
						keep = !run.Violation(rc.Sig, "the race detector reported an unsynchronised map / slice-growth access during a whole build ("+stp+", num_workers="+fmt.Sprint(gcfg.NumWorkers)+", minimal="+fmt.Sprint(minimal)+"): "+rc.Sig,
							map[string]any{"history": env.Log, "report": tailStr(rc.Report, 4000)}) || keep
					} else {
						mu.Lock()
						leads[rc.Sig]++
						mu.Unlock()
						e1.Debugf("race lead %s\n%s", rc.Sig, rc.Report)
					}
				}
				_ = os.Remove(mf)
			}
			if stp == "failing" {
				break
			}
		}
		if len(s.Targets) >= 5 {
			run.Nontrivial(fmt.Sprintf("race|%s|w%d|min=%v", s.Shape(), gcfg.NumWorkers, minimal))
		}
	})
	var ls []string
	for k, v := range leads {
		ls = append(ls, fmt.Sprintf("%s x%d", k, v))
	}
	sort.Strings(ls)
	run.Set("race_report_classes_not_judged(leads)", ls)
}

func tailStr(s string, n int) string {
	if len(s) > n {
		s = s[len(s)-n:]
	}
	return strings.ReplaceAll(s, "\n", " | ")
}
