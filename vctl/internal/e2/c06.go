package e2

import (
	"encoding/json"
	"os"
	"strconv"
	"strings"
	"sync"

	"vctl/internal/e1"
	"vctl/internal/grog"
	"vctl/internal/report"
)

type restoreRes struct {
	ID         int      `json:"id"`
	Kind       string   `json:"kind"`
	PreState   string   `json:"pre_state"`
	Features   []string `json:"features"`
	Entries    int      `json:"entries"`
	Violations []string `json:"violations"`
	Leads      []string `json:"leads"`
	Err        string   `json:"err"`
}

// StoreSweep runs a test of the store driver over n cases in parallel batches.
func StoreSweep(run *report.Run, test string, n int, race bool, handle func(o Outcome)) error {
	drv, err := grog.Driver("store", race)
	if err != nil {
		return err
	}
	dir, err := os.MkdirTemp(e1.Scratch(), "verif-store-")
	if err != nil {
		return err
	}
	defer os.RemoveAll(dir)
	chunks := 16
	if n < chunks {
		chunks = n
	}
	per := (n + chunks - 1) / chunks
	var mu sync.Mutex
	e1.Parallel(chunks, func(c int) {
		from, to := c*per, (c+1)*per
		if to > n {
			to = n
		}
		if from >= to {
			return
		}
		outs := RunBatch(BatchOpts{Driver: drv, TestName: test, From: from, To: to, Dir: dir,
			Args: []string{"-vseed", strconv.FormatInt(run.Seed, 10), "-vdir", dir}})
		mu.Lock()
		defer mu.Unlock()
		for _, o := range outs {
			handle(o)
		}
	})
	return nil
}

// RunC06: cached outputs are restored exactly, from any workspace state.
func RunC06(tier string) int {
	run := report.New("C06", tier, "exploration",
		"(a) in-process: the real file/dir output handlers over a real CAS on the fs backend: random trees (depth<=5, duplicate contents and sub-trees, empty files/dirs, relative/dangling/directory symlinks, exec bits, unusual names, large files) and file outputs (executable, empty, nested paths), Write then Load over each destination pre-state (absent, parent absent, same, modified, truncated, stale extra entries, file where a dir should be, exec bit flipped); "+
			"(b) the real binary: build, perturb output paths of cached targets, rebuild (cache hits) and `grog run` of restored bin outputs; oracle = equality of the recursive listing (type, exec bit, size, sha256, link target); "+
			"non-trivial = pre-state other than 'same'; distinct = kind + pre-state + tree features")
	err := StoreSweep(run, "TestRestore", tierN(tier, 400, 6000), false, func(o Outcome) {
		run.Eval(1)
		run.Count("inprocess_restore_cases", 1)
		if o.Crash != "" {
			run.Violation("inprocess "+o.Crash, "restore driver died: "+firstLines(o.Detail, 5), map[string]any{"case": o.Case, "detail": o.Detail})
			return
		}
		var r restoreRes
		if json.Unmarshal(o.Res, &r) != nil {
			return
		}
		run.Count("entries_compared", r.Entries)
		run.Count("pre_state:"+r.PreState, 1)
		for _, f := range r.Features {
			run.Count("feature:"+f, 1)
		}
		if r.PreState != "same" {
			run.Nontrivial(r.Kind + "|" + r.PreState + "|" + strings.Join(r.Features, ","))
		}
		run.Sample(r)
		for _, l := range r.Leads {
			run.Count("lead:"+l, 1)
		}
		for _, v := range r.Violations {
			run.Violation("inprocess "+v, "in-process restore "+string(o.Case)+": "+v+" "+r.Err, map[string]any{"case": o.Case, "result": r})
		}
		if r.Err != "" && len(r.Violations) == 0 {
			run.Inconclusive("case error: " + r.Err)
		}
	})
	if err != nil {
		run.Infra(err.Error())
		return run.Finish()
	}
	st, err := e1.Prepare(run, false)
	if err != nil {
		run.Infra(err.Error())
		return run.Finish()
	}
	defer st.Cleanup()
	e1.RestorePart(run, st, tierN(tier, 24, 300))
	run.Assume("pre-states the statement does not list (a directory where a file should be, a symlink at the path) are run too but only recorded as leads")
	return run.Finish()
}
