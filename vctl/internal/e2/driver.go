// Package e2 runs the in-process drivers (overlaid into the grog module) in child processes,
// one batch of cases per process, and turns their logs into verdicts: every case id is
// written before the case starts, so a runtime fatal error, a synctest deadlock panic or a
// race report identifies its case and cannot hide the remaining ones.
package e2

import (
	"bufio"
	"bytes"
	"encoding/json"
	"fmt"
	"os"
	"os/exec"
	"regexp"
	"sort"
	"strconv"
	"strings"
	"syscall"
	"time"
)

type Outcome struct {
	ID     int
	Case   json.RawMessage
	Res    json.RawMessage // nil if the case did not finish
	Crash  string          // classification of the process death ("" if none)
	Detail string
	Races  []Race
}

type Race struct {
	Sig    string
	IsMap  bool
	Report string
}

var raceSplit = regexp.MustCompile(`(?m)^==================\n`)

// ParseRaces extracts and classifies race reports from stderr.
func ParseRaces(stderr string) []Race {
	var out []Race
	for _, blk := range raceSplit.Split(stderr, -1) {
		if !strings.Contains(blk, "WARNING: DATA RACE") {
			continue
		}
		// the two access stacks are the first two paragraphs
		paras := strings.Split(blk, "\n\n")
		var tops []string
		isMap := false
		for _, p := range paras {
			if !(strings.Contains(p, " by goroutine ") || strings.Contains(p, "by main goroutine")) {
				continue
			}
			if strings.Contains(p, "runtime.mapaccess") || strings.Contains(p, "runtime.mapassign") || strings.Contains(p, "runtime.mapdelete") || strings.Contains(p, "runtime.mapiter") || strings.Contains(p, "runtime.growslice") {
				isMap = true
			}
			top := ""
			for _, line := range strings.Split(p, "\n") {
				line = strings.TrimSpace(line)
				if strings.HasPrefix(line, "grog/internal/") && !strings.HasPrefix(line, "grog/internal/zzverif") {
					top = strings.TrimPrefix(line, "grog/internal/")
					if i := strings.LastIndex(top, "("); i > 0 {
						top = top[:i]
					}
					top = regexp.MustCompile(`\.func\d+(\.\d+)*|\.gowrap\d+`).ReplaceAllString(top, "")
					break
				}
			}
			if top != "" {
				tops = append(tops, top)
			}
			if len(tops) == 2 {
				break
			}
		}
		sort.Strings(tops)
		kind := "race"
		if isMap {
			kind = "race-map-access"
		}
		out = append(out, Race{Sig: kind + " " + strings.Join(tops, "|"), IsMap: isMap, Report: blk})
	}
	return out
}

func firstGrogFrame(text string, after string) string {
	i := strings.Index(text, after)
	if i < 0 {
		i = 0
	}
	for _, line := range strings.Split(text[i:], "\n") {
		line = strings.TrimSpace(line)
		if strings.HasPrefix(line, "grog/internal/") && !strings.HasPrefix(line, "grog/internal/zzverif") && !strings.HasPrefix(line, "grog/internal/verifhook") {
			if j := strings.LastIndex(line, "("); j > 0 {
				line = line[:j]
			}
			return strings.TrimPrefix(line, "grog/internal/")
		}
	}
	return "unknown"
}

// ClassifyCrash names the way a driver process died.
func ClassifyCrash(stdout, stderr string) (string, string) {
	all := stderr + "\n" + stdout
	switch {
	case strings.Contains(all, "deadlock: all goroutines in bubble are blocked"):
		return "deadlock site=" + firstGrogFrame(all, "deadlock: all goroutines in bubble are blocked"), clip(all, "deadlock: all goroutines", 3000)
	case strings.Contains(all, "fatal error: concurrent map"):
		return "fatal-concurrent-map site=" + firstGrogFrame(all, "fatal error: concurrent map"), clip(all, "fatal error: concurrent map", 3000)
	case strings.Contains(all, "fatal error: all goroutines are asleep"):
		return "deadlock site=" + firstGrogFrame(all, "fatal error: all goroutines"), clip(all, "fatal error: all goroutines", 3000)
	case strings.Contains(all, "fatal error: "):
		return "fatal-error site=" + firstGrogFrame(all, "fatal error: "), clip(all, "fatal error: ", 3000)
	case strings.Contains(all, "panic: "):
		return "panic site=" + firstGrogFrame(all, "panic: "), clip(all, "panic: ", 3000)
	case strings.Contains(all, "STUCK "):
		return "stuck site=" + firstGrogFrame(all, "STUCK "), clip(all, "STUCK ", 4000)
	case strings.Contains(all, "race detected during execution of test"):
		return "race-only", ""
	}
	return "died", clip(all, "", 2000)
}

func clip(s, from string, n int) string {
	i := 0
	if from != "" {
		i = strings.Index(s, from)
		if i < 0 {
			i = 0
		}
	}
	s = s[i:]
	if len(s) > n {
		s = s[:n]
	}
	return s
}

type BatchOpts struct {
	Driver   string
	TestName string
	Args     []string // extra args
	From, To int
	Env      []string
	Dir      string
	Timeout  time.Duration // per process
}

// RunBatch runs cases [From,To) resuming after every process death.
func RunBatch(o BatchOpts) []Outcome {
	var outs []Outcome
	from := o.From
	for from < o.To {
		args := append([]string{"-test.run", o.TestName, "-test.timeout", "0", "-vfrom", strconv.Itoa(from), "-vto", strconv.Itoa(o.To)}, o.Args...)
		cmd := exec.Command(o.Driver, args...)
		cmd.Dir = o.Dir
		cmd.Env = append(os.Environ(), "GORACE=halt_on_error=0")
		cmd.Env = append(cmd.Env, o.Env...)
		cmd.SysProcAttr = &syscall.SysProcAttr{Setsid: true}
		var so, se bytes.Buffer
		cmd.Stdout, cmd.Stderr = &so, &se
		if err := cmd.Start(); err != nil {
			outs = append(outs, Outcome{ID: from, Crash: "start-failed", Detail: err.Error()})
			return outs
		}
		done := make(chan error, 1)
		go func() { done <- cmd.Wait() }()
		to := o.Timeout
		if to == 0 {
			to = 10 * time.Minute
		}
		timedOut := false
		select {
		case <-done:
		case <-time.After(to):
			timedOut = true
			_ = syscall.Kill(cmd.Process.Pid, syscall.SIGQUIT)
			select {
			case <-done:
			case <-time.After(10 * time.Second):
				_ = syscall.Kill(-cmd.Process.Pid, syscall.SIGKILL)
				<-done
			}
		}
		_ = syscall.Kill(-cmd.Process.Pid, syscall.SIGKILL)
		stdout, stderr := so.String(), se.String()
		cases := map[int]json.RawMessage{}
		ress := map[int]json.RawMessage{}
		last := -1
		batchDone := false
		sc := bufio.NewScanner(strings.NewReader(stdout))
		sc.Buffer(make([]byte, 1<<20), 1<<26)
		for sc.Scan() {
			line := sc.Text()
			switch {
			case strings.HasPrefix(line, "CASE "):
				f := strings.SplitN(line, " ", 3)
				if len(f) == 3 {
					id, _ := strconv.Atoi(f[1])
					cases[id] = json.RawMessage(f[2])
					last = id
				}
			case strings.HasPrefix(line, "RES "):
				f := strings.SplitN(line, " ", 3)
				if len(f) == 3 {
					id, _ := strconv.Atoi(f[1])
					ress[id] = json.RawMessage(f[2])
				}
			case strings.HasPrefix(line, "BATCH-DONE"):
				batchDone = true
			}
		}
		races := ParseRaces(stderr)
		var ids []int
		for id := range cases {
			ids = append(ids, id)
		}
		sort.Ints(ids)
		for _, id := range ids {
			oc := Outcome{ID: id, Case: cases[id], Res: ress[id]}
			if id == last {
				oc.Races = races // attributed to the last case of the process (exact when a race ends the batch)
			}
			if _, ok := ress[id]; !ok {
				if timedOut {
					oc.Crash, oc.Detail = "process-timeout", clip(stderr, "", 3000)
				} else {
					oc.Crash, oc.Detail = ClassifyCrash(stdout, stderr)
				}
			}
			outs = append(outs, oc)
		}
		if batchDone {
			break
		}
		if last < 0 {
			outs = append(outs, Outcome{ID: from, Crash: "driver-produced-no-case", Detail: clip(stderr+stdout, "", 2000)})
			return outs
		}
		if _, ok := ress[last]; ok {
			// the process died between cases (e.g. the test framework ended after a race report)
			from = last + 1
		} else {
			from = last + 1
		}
	}
	return outs
}

func fmtJSON(v any) string {
	b, _ := json.Marshal(v)
	return string(b)
}

var _ = fmt.Sprint
