package e2

import (
	"encoding/json"
	"fmt"
	"os"
	"os/exec"
	"path/filepath"
	"strconv"
	"strings"
	"sync"
	"time"

	"vctl/internal/e1"
	"vctl/internal/grog"
	"vctl/internal/report"
)

type costRes struct {
	Case struct {
		ID     int    `json:"id"`
		Family string `json:"family"`
		W      int    `json:"w"`
		D      int    `json:"d"`
		Naming string `json:"naming"`
		Op     string `json:"op"`
		V      int    `json:"v"`
		E      int    `json:"e"`
	} `json:"case"`
	Counts   map[string]int64 `json:"counts"`
	Bound    int64            `json:"bound"`
	Exceeded string           `json:"exceeded"`
	Millis   int64            `json:"millis"`
}

func writeLadder(ws string, w, d int, chain bool) error { return writeLadderF(ws, w, d, chain, false) }

// writeLadderF: with failing=true the bottom target n0000 fails, so that a build has to
// propagate the failure to everything above it.
func writeLadderF(ws string, w, d int, chain, failing bool) error {
	return writeLadderO(ws, w, d, chain, failing, nil)
}

// writeLadderO: outs gives targets (by index) declared outputs; every other target gets a file
// and a directory output of its own, so that the output-conflict detection has work to do.
func writeLadderO(ws string, w, d int, chain, failing bool, outs map[int][]string) error {
	type tgt struct {
		Name    string   `json:"name"`
		Command string   `json:"command"`
		Deps    []string `json:"dependencies,omitempty"`
		Inputs  []string `json:"inputs,omitempty"`
		Outputs []string `json:"outputs,omitempty"`
	}
	var ts []tgt
	n := w * d
	for i := 0; i < n; i++ {
		t := tgt{Name: fmt.Sprintf("n%04d", i), Command: "true", Inputs: []string{"in.txt"}}
		if failing && i == 0 {
			t.Command = "exit 3"
		}
		if outs != nil {
			if o, ok := outs[i]; ok {
				t.Outputs = o
			} else {
				t.Outputs = []string{fmt.Sprintf("o%04d.txt", i), fmt.Sprintf("dir::d%04d", i)}
			}
		}
		if chain {
			if i > 0 {
				t.Deps = []string{fmt.Sprintf(":n%04d", i-1)}
			}
		} else if l := i / w; l > 0 {
			for b := 0; b < w; b++ {
				t.Deps = append(t.Deps, fmt.Sprintf(":n%04d", (l-1)*w+b))
			}
		}
		ts = append(ts, t)
	}
	b, _ := json.Marshal(map[string]any{"targets": ts})
	if err := os.MkdirAll(ws, 0755); err != nil {
		return err
	}
	_ = os.WriteFile(filepath.Join(ws, "in.txt"), []byte("x"), 0644)
	_ = os.WriteFile(filepath.Join(ws, "grog.toml"), []byte("num_workers = 4\n"), 0644)
	return os.WriteFile(filepath.Join(ws, "BUILD.json"), b, 0644)
}

// RunC19: graph algorithms scale polynomially, not with the number of paths.
func RunC19(tier string) int {
	run := report.New("C19", tier, "exploration",
		"in-process driver with operation counters (verifhook.Count in selection, descendant/ancestor collection, output-conflict ancestor sets and the cycle search) over ladder(W,D) graphs (W 2..4, D 4..14 quick / ..20 thorough; exponentially many paths), dense DAGs and chains with the same node count, both alphabetical namings, for the operations select-for-build, failure propagation (descendants), ancestors, output-conflict detection with shared outputs and cycle search; "+
			"verdict on counts: every counter <= 8*(V+E)^2 (a counter that passes 4x the bound aborts the case); plus the real binary on a 2x30 ladder vs a 60-node chain for deps -t / rdeps -t / check / build: CPU time (rusage, not wall time) of the ladder must stay below 100x the chain + 5 s; "+
			"non-trivial = ladder or dense case; distinct = family x size x naming x operation")
	drv, err := grog.Driver("cost", false)
	if err != nil {
		run.Infra(err.Error())
		return run.Finish()
	}
	dir, err := os.MkdirTemp(e1.Scratch(), "verif-cost-")
	if err != nil {
		run.Infra(err.Error())
		return run.Finish()
	}
	defer os.RemoveAll(dir)
	maxD := tierN(tier, 14, 20)
	total := 5 * 2 * (3*((maxD-4)/2+1) + ((maxD-4)/2 + 1) + ((maxD-4)/2 + 1))
	chunks := 16
	per := (total + chunks - 1) / chunks
	var mu sync.Mutex
	e1.Parallel(chunks, func(c int) {
		outs := RunBatch(BatchOpts{Driver: drv, TestName: "TestCost", From: c * per, To: min((c+1)*per, total), Dir: dir,
			Args: []string{"-vmaxd", strconv.Itoa(maxD)}, Timeout: 5 * time.Minute})
		mu.Lock()
		defer mu.Unlock()
		for _, o := range outs {
			if o.Res == nil {
				if o.Crash != "" && !strings.HasPrefix(o.Crash, "died") {
					run.Violation("cost "+o.Crash, "cost driver died: "+firstLines(o.Detail, 5), map[string]any{"case": o.Case})
				}
				continue
			}
			var r costRes
			if json.Unmarshal(o.Res, &r) != nil {
				continue
			}
			run.Eval(1)
			run.Count("cases:"+r.Case.Family+":"+r.Case.Op, 1)
			var maxCount int64
			for _, n := range r.Counts {
				if n > maxCount {
					maxCount = n
				}
			}
			if r.Case.Family != "chain" {
				run.Nontrivial(fmt.Sprintf("%s|%dx%d|%s|%s", r.Case.Family, r.Case.W, r.Case.D, r.Case.Naming, r.Case.Op))
			}
			if r.Case.Family == "ladder" && r.Case.W == 2 && r.Case.D == maxD {
				run.Sample(map[string]any{"case": r.Case, "counts": r.Counts, "bound": r.Bound})
			}
			if r.Exceeded != "" {
				run.Violation(fmt.Sprintf("count-exceeds-polynomial-bound counter=%s op=%s family=%s", r.Exceeded, r.Case.Op, r.Case.Family),
					fmt.Sprintf("%s on %s %dx%d (%s names, V=%d E=%d): counter %s = %d > 8*(V+E)^2 = %d", r.Case.Op, r.Case.Family, r.Case.W, r.Case.D, r.Case.Naming, r.Case.V, r.Case.E, r.Exceeded, r.Counts[r.Exceeded], r.Bound),
					map[string]any{"case": r.Case, "counts": r.Counts, "bound": r.Bound})
			}
		}
	})
	// process level: CPU time of the real binary, ladder vs chain
	g, err := grog.Binary("v")
	if err != nil {
		run.Infra(err.Error())
		return run.Finish()
	}
	self, _ := os.Executable()
	mk := func(name string, chain bool) *grog.Machine {
		ws := filepath.Join(dir, name)
		_ = writeLadder(ws, 2, 30, chain)
		m := &grog.Machine{Bin: g, Workspace: ws, Root: filepath.Join(dir, name+"-root"), Home: filepath.Join(dir, "home"), Trace: filepath.Join(dir, name+"-trace"), VctlBin: self}
		_ = os.MkdirAll(m.Home, 0755)
		return m
	}
	lad, chn := mk("ladder", false), mk("chain", true)
	// a git history so that `grog changes` can be driven: one commit, then an edited input
	gitOK := true
	for _, m := range []*grog.Machine{lad, chn} {
		for _, ga := range [][]string{{"init", "-q"}, {"add", "-A"}, {"-c", "user.name=v", "-c", "user.email=v@v", "commit", "-q", "-m", "base"}} {
			c := exec.Command("git", ga...)
			c.Dir = m.Workspace
			c.Env = append(os.Environ(), "HOME="+m.Home, "GIT_CONFIG_NOSYSTEM=1")
			if err := c.Run(); err != nil {
				gitOK = false
			}
		}
		_ = os.WriteFile(filepath.Join(m.Workspace, "in.txt"), []byte("edited"), 0644)
	}
	cmds := [][]string{{"check"}, {"deps", "-t", "//:n0059"}, {"rdeps", "-t", "//:n0000"}, {"build"}, {"list", "//..."}}
	if gitOK {
		cmds = append(cmds, []string{"changes", "--since=HEAD", "--dependents=transitive"}, []string{"changes", "--since=HEAD", "--dependents=none"})
	} else {
		run.Count("git_unavailable(changes not driven)", 1)
	}
	// partial selections: the part of the graph that is loaded but not selected must not cost
	// more than linear time either
	cmds = append(cmds, []string{"build", "//:n0003"}, []string{"deps", "-t", "//:n0031"}, []string{"rdeps", "-t", "//:n0031"})
	// selection for the graph query: transitive, with patterns that match the inner nodes of the
	// diamonds (json and mermaid output: the tree rendering repeats shared sub-trees by design)
	cmds = append(cmds, []string{"graph", "-t", "-o", "json"}, []string{"graph", "-t", "-o", "json", "//..."}, []string{"graph", "-t", "-o", "mermaid", "//:n0059"}, []string{"graph", "-o", "json"},
		[]string{"list", "--target-type=all", "//:all"}, []string{"owners", "in.txt"})
	compare := func(chn, lad *grog.Machine, args []string, tag string, env []string) {
		rc := chn.Run(args, grog.RunOpts{Build: "c", Timeout: 60 * time.Second, Env: env})
		rl := lad.Run(args, grog.RunOpts{Build: "l", Timeout: 60 * time.Second, Env: env})
		run.Eval(2)
		cpuC := rc.UserCPU + rc.SysCPU
		cpuL := rl.UserCPU + rl.SysCPU
		run.Set("process_cpu_ms:"+tag+strings.Join(args, "_"), map[string]int64{"chain": cpuC.Milliseconds(), "ladder": cpuL.Milliseconds()})
		if rl.TimedOut || cpuL > 100*cpuC+5*time.Second {
			run.Violation("process-cpu-time-explodes cmd="+tag+args[0], fmt.Sprintf("grog %v (%s) on a 2x30 ladder used %v CPU (timed out: %v) vs %v on a 60-node chain", args, tag, cpuL, rl.TimedOut, cpuC), map[string]any{"args": args, "variant": tag})
		}
	}
	for _, args := range cmds {
		compare(chn, lad, args, "", nil)
	}
	// failure propagation: the bottom target fails; whole-graph and partial builds (the failed
	// target's dependants are then partly selected, partly only loaded), keep-going and fail-fast
	mkF := func(name string, chain bool) *grog.Machine {
		ws := filepath.Join(dir, name)
		_ = writeLadderF(ws, 2, 30, chain, true)
		m := &grog.Machine{Bin: g, Workspace: ws, Root: filepath.Join(dir, name+"-root"), Home: filepath.Join(dir, "home"), Trace: filepath.Join(dir, name+"-trace"), VctlBin: self}
		return m
	}
	ladF, chnF := mkF("ladder-failing", false), mkF("chain-failing", true)
	for _, args := range [][]string{{"build"}, {"build", "//:n0002"}, {"build", "//:n0003", "//:n0011"}} {
		compare(chnF, ladF, args, "bottom-target-fails:", nil)
		compare(chnF, ladF, args, "bottom-target-fails+fail-fast:", []string{"GROG_FAIL_FAST=true"})
	}
	// output-conflict detection at process level (independent of the counters): every target
	// declares outputs, and some pairs overlap - ordered by dependency across many layers (legal:
	// the order has to be established), or not ordered at all (an error that must be found just
	// as quickly)
	for vi, v := range []struct {
		name string
		outs map[int][]string
	}{
		{"bottom-dir-contains-top-dir", map[int][]string{0: {"dir::dist"}, 59: {"dir::dist/pkg"}}},
		{"mid-dir-contains-upper-file", map[int][]string{20: {"dir::m"}, 41: {"m/f.txt"}, 21: {"dir::k"}, 57: {"dir::k/sub/deep"}}},
		{"same-layer-pair-overlaps", map[int][]string{58: {"dir::s"}, 59: {"s/x.txt"}}},
		{"many-ordered-overlaps", map[int][]string{1: {"dir::a"}, 10: {"dir::a/b"}, 30: {"dir::a/b/c"}, 50: {"a/b/c/d.txt"}, 59: {"dir::a/z"}}},
	} {
		mkO := func(name string, chain bool) *grog.Machine {
			ws := filepath.Join(dir, name)
			_ = writeLadderO(ws, 2, 30, chain, false, v.outs)
			return &grog.Machine{Bin: g, Workspace: ws, Root: filepath.Join(dir, name+"-root"), Home: filepath.Join(dir, "home"), Trace: filepath.Join(dir, name+"-trace"), VctlBin: self}
		}
		ladO, chnO := mkO(fmt.Sprintf("ladder-outs%d", vi), false), mkO(fmt.Sprintf("chain-outs%d", vi), true)
		compare(chnO, ladO, []string{"check"}, "overlapping-outputs("+v.name+"):", nil)
	}
	// a dependency cycle with the whole ladder downstream of it: the cycle must be reported as
	// quickly as on the chain (labels of the ladder sort before the labels of the cycle)
	{
		mkC := func(name string, chain bool) *grog.Machine {
			ws := filepath.Join(dir, name)
			_ = writeLadder(ws, 2, 30, chain)
			b, _ := os.ReadFile(filepath.Join(ws, "BUILD.json"))
			var pk map[string][]map[string]any
			_ = json.Unmarshal(b, &pk)
			for _, t := range pk["targets"] {
				if t["name"] == "n0000" {
					t["dependencies"] = []string{":zz_a"}
				}
			}
			pk["targets"] = append(pk["targets"], map[string]any{"name": "zz_a", "command": "true", "dependencies": []string{":zz_b"}},
				map[string]any{"name": "zz_b", "command": "true", "dependencies": []string{":zz_a"}})
			nb, _ := json.Marshal(pk)
			_ = os.WriteFile(filepath.Join(ws, "BUILD.json"), nb, 0644)
			return &grog.Machine{Bin: g, Workspace: ws, Root: filepath.Join(dir, name+"-root"), Home: filepath.Join(dir, "home"), Trace: filepath.Join(dir, name+"-trace"), VctlBin: self}
		}
		ladC, chnC := mkC("ladder-cycle", false), mkC("chain-cycle", true)
		for _, args := range [][]string{{"check"}, {"list", "//..."}, {"build", "//:n0059"}} {
			compare(chnC, ladC, args, "cycle-upstream-of-everything:", nil)
		}
	}
	// selection that ends in an error: the bottom target does not match the host platform, so
	// selecting anything above it has to report the mismatch (once), as quickly as on the chain
	{
		mkP := func(name string, chain bool) *grog.Machine {
			ws := filepath.Join(dir, name)
			_ = writeLadder(ws, 2, 30, chain)
			b, _ := os.ReadFile(filepath.Join(ws, "BUILD.json"))
			var pk map[string][]map[string]any
			_ = json.Unmarshal(b, &pk)
			for _, t := range pk["targets"] {
				if t["name"] == "n0000" {
					t["platforms"] = []string{"plan9/mips"}
				}
			}
			nb, _ := json.Marshal(pk)
			_ = os.WriteFile(filepath.Join(ws, "BUILD.json"), nb, 0644)
			return &grog.Machine{Bin: g, Workspace: ws, Root: filepath.Join(dir, name+"-root"), Home: filepath.Join(dir, "home"), Trace: filepath.Join(dir, name+"-trace"), VctlBin: self}
		}
		ladP, chnP := mkP("ladder-platform", false), mkP("chain-platform", true)
		for _, args := range [][]string{{"build", "//:n0059"}, {"build"}, {"build", "--all-platforms", "//:n0059"}, {"list", "//..."}, {"deps", "-t", "//:n0059"}} {
			compare(chnP, ladP, args, "bottom-target-platform-mismatch:", nil)
		}
	}
	run.Assume("operation counts are exact (atomic counters at the loop heads); CPU time is process rusage, not wall clock")
	return run.Finish()
}
