package e2

import (
	"encoding/json"
	"fmt"
	"time"

	"github.com/anishathalye/porcupine"

	"vctl/internal/audit"
	"vctl/internal/e1"
	"vctl/internal/report"
)

type faultRes struct {
	ID       int      `json:"id"`
	FailOp   string   `json:"fail_op"`
	FailAt   int64    `json:"fail_at"`
	Midway   bool     `json:"midway"`
	Ops      int      `json:"ops"`
	WriteErr string   `json:"write_err"`
	CacheDir string   `json:"cache_dir"`
	Order    []string `json:"order_violations"`
	Conc     bool     `json:"concurrent"`
}

type atomicOp struct {
	Client int    `json:"c"`
	Kind   string `json:"k"`
	Key    string `json:"key"`
	Arg    string `json:"arg"`
	Out    string `json:"out"`
	Err    string `json:"err"`
	Call   int64  `json:"call"`
	Ret    int64  `json:"ret"`
}

var registerModel = porcupine.Model{
	Partition: func(history []porcupine.Operation) [][]porcupine.Operation {
		m := map[string][]porcupine.Operation{}
		for _, op := range history {
			k := op.Input.(atomicOp).Key
			m[k] = append(m[k], op)
		}
		var out [][]porcupine.Operation
		for _, v := range m {
			out = append(out, v)
		}
		return out
	},
	Init: func() any { return "none" },
	Step: func(state, input, output any) (bool, any) {
		in := input.(atomicOp)
		st := state.(string)
		switch in.Kind {
		case "set":
			return true, in.Arg
		case "delete":
			return true, "none"
		case "get":
			return in.Out == st, st
		case "exists":
			return (in.Out == "true") == (st != "none"), st
		}
		return true, st
	},
	DescribeOperation: func(input, output any) string {
		in := input.(atomicOp)
		return fmt.Sprintf("%s(%s %s)->%s", in.Kind, in.Key, in.Arg, in.Out)
	},
}

// RunC07: the cache stays consistent across crashes and storage faults.
func RunC07(tier string) int {
	run := report.New("C07", tier, "fault_enumeration",
		"(1) crash points of the real binary: a counting run lists every hit of every hook point (fs backend Set steps, output handler steps, executor steps); for each sampled (thorough: every) K the pre-build snapshot is restored and the build is SIGKILLed at the K-th point; the cache is audited at rest (own hashing and protobuf decoding: every cas/<d> hashes to d, every target/<k> decodes with change_hash==k and references only present blobs incl. files inside trees) and a follow-up build must exit 0 with reference bytes; "+
			"(2) in-process storage faults: a decorator fails the k-th backend call (any/Set/Get/Exists, whole or mid-stream) while outputs + target result are written, then a second target of the same build sharing digests with the first is written, then the same audit (a result visible at rest must reference only stored blobs); "+
			"(2b) backends.RemoteWrapper over the real fs backend and a remote that fails before / in the middle of / after a write or truncates a read, for blobs from 10 B to 1.5 MB, then the at-rest audit of the local tier; (3) concurrent Set/Get/Exists/Delete histories on the fs backend with unique self-describing values, checked with porcupine against a per-key register (a read sees nothing or one complete write); "+
			"non-trivial = run actually killed / fault actually hit / history with concurrent writers; distinct = shape + crash point + executed count")
	st, err := e1.Prepare(run, false)
	if err != nil {
		run.Infra(err.Error())
		return run.Finish()
	}
	defer st.Cleanup()
	if report.Part("sysfault") {
		// (1c) storage faults at the system call level (hook-free): see e1/sysfault.go
		e1.SysFaultPart(run, st, tierN(tier, 10, 60), tierN(tier, 6, 30), map[string]bool{"read": true, "write": true},
			map[string]bool{"audit": true, "keys": true, "bytes": true, "followup": true}, false)
		// the same with tracing restricted to the cache entries that exist before the build:
		// reads of cached results and blobs fail (transiently: the entry is intact at rest)
		e1.SysFaultPart(run, st, tierN(tier, 8, 50), tierN(tier, 8, 30), map[string]bool{"read": true},
			map[string]bool{"audit": true, "keys": true, "bytes": true, "followup": true}, false)
	}
	if report.Part("crash") {
		e1.CrashPart(run, st, tierN(tier, 8, 40), tierN(tier, 6, 0), tierN(tier, 2, 10))
	}
	// (1b) entries lost at rest (what a crash or a failed write leaves behind, or an eviction):
	// every blob / tree / result entry in turn, singly and in pairs; the next build must exit 0
	// with reference bytes
	e1.LostEntryPart(run, st, tierN(tier, 12, 60), tierN(tier, 12, 0), map[string]bool{"bytes": true, "restore": true, "exit": true, "crash": true, "hang": true})

	// (1d) a restore that fails half way while the other outputs are still being restored
	if report.Part("overlap") {
		e1.RestoreOverlapPart(run, st, tierN(tier, 10, 60))
	}

	// (1e) transient Get faults of the local backend inside whole builds (hook-level, replayable)
	if report.Part("getfault") {
		e1.GetFaultPart(run, st, tierN(tier, 12, 80), tierN(tier, 8, 40), false, map[string]bool{"bytes": true, "audit": true, "followup": true})
	}

	// (2) storage faults
	err = StoreSweep(run, "TestFaults", tierN(tier, 160, 1500), false, func(o Outcome) {
		run.Eval(1)
		run.Count("inprocess_fault_cases", 1)
		if o.Crash != "" {
			run.Violation("inprocess-fault "+o.Crash, "fault driver died: "+firstLines(o.Detail, 5), map[string]any{"case": o.Case, "detail": o.Detail})
			return
		}
		var r faultRes
		if json.Unmarshal(o.Res, &r) != nil {
			return
		}
		if r.WriteErr != "" {
			run.Count("faults_that_failed_the_write", 1)
			run.Nontrivial(fmt.Sprintf("fault|%s|%d|%v|%v", r.FailOp, r.FailAt, r.Midway, r.Conc))
		}
		if r.Conc {
			run.Count("inprocess_fault_cases_with_two_concurrent_writers", 1)
		}
		run.Count("backend_calls_recorded", r.Ops)
		for _, v := range r.Order {
			run.Violation("inprocess-fault "+v, fmt.Sprintf("backend call order with fault %s@%d: %s", r.FailOp, r.FailAt, v), map[string]any{"case": r})
		}
		// the driver removed nothing: audit the cache it left
		if r.CacheDir != "" {
			store, _ := audit.LoadDir(r.CacheDir)
			rep := audit.Audit(store)
			run.Count("cache_entries_audited_after_faults", rep.CasOK+rep.TargetOK)
			if !rep.Clean() {
				kind := "dangling-reference"
				if len(rep.CasBad) > 0 {
					kind = "blob-content-mismatch"
				} else if len(rep.TargetBad) > 0 {
					kind = "target-result-undecodable"
				}
				if r.Conc {
					kind += " writers=concurrent"
				}
				run.Violation("inprocess-fault cache-inconsistent "+kind+fmt.Sprintf(" op=%s midway=%v", r.FailOp, r.Midway),
					fmt.Sprintf("after failing backend call %s@%d (midway=%v) the cache at rest: %s %v %v %v", r.FailOp, r.FailAt, r.Midway, rep.Summary(), rep.CasBad, rep.TargetBad, rep.Dangling),
					map[string]any{"case": r})
			}
		}
		run.Sample(r)
	})
	if err != nil {
		run.Infra(err.Error())
	}

	// (2b) remote wrapper under remote faults
	err = StoreSweep(run, "TestRemoteFaults", tierN(tier, 60, 600), false, func(o Outcome) {
		run.Eval(1)
		run.Count("remote_wrapper_fault_cases", 1)
		if o.Crash != "" {
			run.Violation("remote-wrapper "+o.Crash, "remote wrapper driver died: "+firstLines(o.Detail, 5), map[string]any{"case": o.Case, "detail": o.Detail})
			return
		}
		var r struct {
			ID       int    `json:"id"`
			SetMode  string `json:"set_mode"`
			GetMode  string `json:"get_mode"`
			CacheDir string `json:"cache_dir"`
			Errors   int    `json:"errors"`
			Wrong    bool   `json:"wrong_content_read"`
		}
		if json.Unmarshal(o.Res, &r) != nil {
			return
		}
		if r.Errors > 0 {
			run.Nontrivial(fmt.Sprintf("remote|%s|%s", r.SetMode, r.GetMode))
		}
		if r.Wrong {
			run.Violation("remote-wrapper wrong-content-read get="+r.GetMode, "a read through the remote wrapper returned content that does not match its digest without an error", map[string]any{"case": r})
		}
		store, _ := audit.LoadDir(r.CacheDir)
		rep := audit.Audit(store)
		run.Count("local_blobs_audited_after_remote_faults", rep.CasOK+len(rep.CasBad))
		if len(rep.CasBad) > 0 {
			run.Violation(fmt.Sprintf("remote-wrapper local-blob-content-mismatch set=%s get=%s", r.SetMode, r.GetMode),
				fmt.Sprintf("after a remote fault (set %q, get %q) the local cache exposes %d blobs whose content does not hash to their name: %v", r.SetMode, r.GetMode, len(rep.CasBad), rep.CasBad), map[string]any{"case": r})
		}
	})
	if err != nil {
		run.Infra(err.Error())
	}

	// (3) concurrent atomicity
	err = StoreSweep(run, "TestAtomic", tierN(tier, 40, 400), true, func(o Outcome) {
		run.Eval(1)
		run.Count("atomic_histories", 1)
		for _, rc := range o.Races {
			run.Count("race_reports(lead)", 1)
			run.Set("race_lead:"+rc.Sig, true)
		}
		if o.Res == nil {
			if o.Crash != "" && o.Crash != "race-only" {
				run.Violation("atomic "+o.Crash, "atomicity driver died: "+firstLines(o.Detail, 5), map[string]any{"detail": o.Detail})
			}
			return
		}
		var res struct {
			ID      int        `json:"id"`
			Clients int        `json:"clients"`
			History []atomicOp `json:"history"`
		}
		if json.Unmarshal(o.Res, &res) != nil {
			return
		}
		var ops []porcupine.Operation
		partial := ""
		for _, h := range res.History {
			ops = append(ops, porcupine.Operation{ClientId: h.Client, Input: h, Output: h.Out, Call: h.Call, Return: h.Ret})
			if h.Kind == "get" && len(h.Out) > 7 && h.Out[:7] == "partial" {
				partial = h.Out
			}
			if h.Err != "" {
				run.Count("atomic_op_errors", 1)
			}
		}
		run.Count("atomic_operations", len(ops))
		if partial != "" {
			run.Violation("atomic partial-read", "a reader saw a partially written value: "+partial, map[string]any{"history": res.History})
			return
		}
		r, _ := porcupine.CheckOperationsVerbose(registerModel, ops, 60*time.Second)
		switch r {
		case porcupine.Ok:
			run.Nontrivial(fmt.Sprintf("atomic|%d|%d", res.Clients, len(ops)))
		case porcupine.Illegal:
			run.Violation("atomic not-linearizable", "fs backend history is not linearizable against a per-key register", map[string]any{"history": res.History})
		default:
			run.Inconclusive("porcupine timed out")
		}
		run.Sample(map[string]any{"atomic_history_excerpt": res.History[:6]})
	})
	if err != nil {
		run.Infra(err.Error())
	}
	run.Assume("a crash is a real SIGKILL of the real process raised at a hook point; crash points are between hooked operations, not inside a single write(2)")
	run.Assume("temp files tmp-* left by a crash are ignored: they are invisible under any final key")
	return run.Finish()
}
