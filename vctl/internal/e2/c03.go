package e2

import (
	"encoding/json"
	"fmt"
	"time"

	"github.com/anishathalye/porcupine"
	"vctl/internal/e1"
	"vctl/internal/report"
)

// RunC03: dependencies first, each target once, at most num_workers at a time.
func RunC03(tier string) int {
	run := report.New("C03", tier, "exploration",
		"(a) dag.Walker in synctest bubbles under the race detector over seeded graph families x selections x latencies x GOMAXPROCS, judged on a logical-clock log kept at the callback boundary (start only after every dependency ended ok, at most one call per node); "+
			"(d) worker.TaskWorkerPool in synctest bubbles under the race detector: 1-4 workers, up to 44 callers of Run arriving in bursts/waves with task latencies from microseconds to 5 virtual seconds (longer than the pool's one-second enqueue backstop), judged at the task boundary (never more than num_workers tasks inside, each task once) and the caller boundary (own result or error returned); (c) maps.MutexMap Lock/Unlock histories from 3-7 goroutines on 3 names checked with porcupine against a per-name mutex; (b) the real binary on latency-shaped generated graphs with num_workers 1..8: order and overlap of S/E lines in the O_APPEND trace, executions per target, and the dependency-output digests each command recorded; "+
			"non-trivial = walker case with failures/cancel/registration delay, or process build with >= 2 executed commands; distinct = shape + observed order")
	walkerPart(run, tier, "C03")
	poolPart(run, tier)
	st, err := e1.Prepare(run, false)
	if err != nil {
		run.Infra(err.Error())
		return run.Finish()
	}
	defer st.Cleanup()
	e1.ProcessSchedPart(run, st, tierN(tier, 24, 300), map[string]bool{"order": true, "width": true, "once": true, "view": true})
	// (c) maps.MutexMap (per-target mutual exclusion of hashing and output load/write)
	err = StoreSweep(run, "TestMutexMap", tierN(tier, 40, 400), true, func(o Outcome) {
		run.Eval(1)
		run.Count("mutexmap_histories", 1)
		if o.Res == nil {
			if o.Crash != "" && o.Crash != "race-only" {
				run.Violation("mutexmap "+o.Crash, "MutexMap driver died: "+firstLines(o.Detail, 5), map[string]any{"detail": o.Detail})
			}
			return
		}
		var res struct {
			ID       int        `json:"id"`
			Clients  int        `json:"clients"`
			Overlaps int        `json:"overlaps"`
			History  []atomicOp `json:"history"`
		}
		if json.Unmarshal(o.Res, &res) != nil {
			return
		}
		if res.Overlaps > 0 {
			run.Violation("mutexmap two-holders-of-one-name", fmt.Sprintf("%d times two goroutines were inside the section of the same name", res.Overlaps), map[string]any{"history": res.History})
			return
		}
		var ops []porcupine.Operation
		for _, h := range res.History {
			ops = append(ops, porcupine.Operation{ClientId: h.Client, Input: h, Output: "", Call: h.Call, Return: h.Ret})
		}
		run.Count("mutexmap_operations", len(ops))
		r, _ := porcupine.CheckOperationsVerbose(mutexModel, ops, 60*time.Second)
		switch r {
		case porcupine.Ok:
			run.Nontrivial(fmt.Sprintf("mutexmap|%d|%d", res.Clients, len(ops)))
		case porcupine.Illegal:
			run.Violation("mutexmap not-linearizable", "Lock/Unlock history of maps.MutexMap is not linearizable against a per-name mutex", map[string]any{"history": res.History})
		default:
			run.Inconclusive("porcupine timed out")
		}
	})
	if err != nil {
		run.Infra(err.Error())
	}
	run.Assume("a command's E line is written before it exits, which happens-before its dependants are released, which happens-before their S line: O_APPEND order is a linearization")
	return run.Finish()
}

// RunC05: failures are contained (keep-going / fail-fast) and never cached.
func RunC05(tier string) int {
	run := report.New("C05", tier, "exploration",
		"(a) the real binary: seeded random graphs x random failing subsets x failure kinds (non-zero exit, timeout, missing declared output, failing output check) x keep-going/fail-fast x num_workers; every history = failing build, identical follow-up build (failed targets must be attempted again), then a build after the failure causes are removed; "+
			"(b) dag.Walker in synctest bubbles under the race detector with failing callbacks: a node with a failed transitive dependency must never start; "+
			"non-trivial = at least one target failed, one dependant was skipped and one unaffected target was built (a), walker case with failures (b); distinct = shape + failing set + kinds + mode")
	st, err := e1.Prepare(run, false)
	if err != nil {
		run.Infra(err.Error())
		return run.Finish()
	}
	defer st.Cleanup()
	e1.C05Part(run, st, tier)
	walkerPart(run, tier, "C05")
	run.Assume("exec.CommandContext refuses to start a command once its context is cancelled, so a command that started after the walk.failfast event is a violation, while one attempted before it may still run")
	return run.Finish()
}

var mutexModel = porcupine.Model{
	Partition: func(history []porcupine.Operation) [][]porcupine.Operation {
		m := map[string][]porcupine.Operation{}
		for _, op := range history {
			k := op.Input.(atomicOp).Key
			m[k] = append(m[k], op)
		}
		var out [][]porcupine.Operation
		for _, v := range m {
			out = append(out, v)
		}
		return out
	},
	Init: func() any { return false },
	Step: func(state, input, output any) (bool, any) {
		held := state.(bool)
		switch input.(atomicOp).Kind {
		case "lock":
			return !held, true
		case "unlock":
			return held, false
		}
		return true, held
	},
}

// poolPart: the worker pool bound, judged inside the task functions under virtual time.
func poolPart(run *report.Run, tier string) {
	err := walkerDriverSweep(run, "TestPool", tierN(tier, 600, 12000), 0, true, func(o Outcome) {
		run.Eval(1)
		run.Count("pool_cases", 1)
		if o.Crash != "" && o.Crash != "race-only" {
			run.Violation("pool "+o.Crash, fmt.Sprintf("worker pool case %s ended with %s: %s", caseBrief(o), o.Crash, firstLines(o.Detail, 6)),
				map[string]any{"case": o.Case, "detail": o.Detail})
			return
		}
		for _, rc := range o.Races {
			run.Count("race_reports_other(lead)", 1)
			run.Set("race_lead:"+rc.Sig, true)
		}
		if o.Res == nil {
			return
		}
		var r struct {
			Case struct {
				Workers int    `json:"workers"`
				Tasks   int    `json:"tasks"`
				Latency string `json:"latency"`
				Arrival string `json:"arrival"`
			} `json:"case"`
			Violations []string `json:"violations"`
			MaxRunning int      `json:"max_running"`
			Ran        int      `json:"ran"`
			Waited1s   int      `json:"callers_waiting_over_1s"`
		}
		if json.Unmarshal(o.Res, &r) != nil {
			return
		}
		run.Count("pool_tasks_run", r.Ran)
		run.Count("pool_callers_that_waited_over_1s_for_a_worker", r.Waited1s)
		if r.MaxRunning == r.Case.Workers {
			run.Count("pool_cases_that_saturated_the_pool", 1)
		}
		if r.Case.Tasks > 2*r.Case.Workers {
			run.Nontrivial(fmt.Sprintf("pool|w%d|%s|%s|max%d|late%v", r.Case.Workers, r.Case.Latency, r.Case.Arrival, r.MaxRunning, r.Waited1s > 0))
		}
		for _, v := range r.Violations {
			run.Violation("pool "+v, fmt.Sprintf("worker pool case %s: %s", caseBrief(o), v), map[string]any{"case": o.Case, "result": o.Res})
		}
	})
	if err != nil {
		run.Infra(err.Error())
	}
}
