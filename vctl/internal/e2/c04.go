package e2

import (
	"fmt"
	"strings"

	"vctl/internal/e1"
	"vctl/internal/report"
)

func tierN(tier string, q, t int) int {
	if tier == "thorough" {
		return t
	}
	return q
}

// walkerPart runs the Walker sweep and reports the violation classes that belong to prop.
func walkerPart(run *report.Run, tier string, prop string) {
	n := tierN(tier, 400, 8000)
	maxNodes := tierN(tier, 300, 3000)
	err := WalkerSweep(run, n, maxNodes, true, func(o Outcome, r *WalkerResult) {
		run.Eval(1)
		run.Count("walker_cases", 1)
		if o.Crash != "" && o.Crash != "race-only" {
			run.Count("walker_process_deaths", 1)
			if prop == "C04" {
				run.Violation("walker "+o.Crash, fmt.Sprintf("Walker case %s ended with %s: %s", caseBrief(o), o.Crash, firstLines(o.Detail, 6)),
					map[string]any{"case": o.Case, "detail": o.Detail})
			}
		}
		seen := map[string]bool{}
		for _, rc := range o.Races {
			if seen[rc.Sig] {
				continue
			}
			seen[rc.Sig] = true
			if rc.IsMap {
				run.Count("race_reports_map_access", 1)
				if prop == "C04" {
					run.Violation("walker "+rc.Sig, "unsynchronised map access on walker state (the runtime turns this into `fatal error: concurrent map ...`): "+rc.Sig,
						map[string]any{"case": o.Case, "report": rc.Report})
				}
			} else {
				run.Count("race_reports_other(lead)", 1)
				run.Set("race_lead:"+rc.Sig, true)
			}
		}
		if r == nil {
			return
		}
		run.Count("walker_events", r.Events)
		run.Count("walker_callbacks_started", r.Started)
		run.Count("walker_nodes_failed", r.FailedN)
		run.Count("walker_nodes_skipped", r.SkippedN)
		if r.Case.Failing > 0 || r.Case.CancelAt >= 0 || r.Case.RegDelay != "none" {
			run.Nontrivial(r.Case.Shape + "|" + r.OrderSig)
		}
		run.Sample(map[string]any{"walker_case": r.Case, "events": r.Events, "order_sig": r.OrderSig})
		for _, v := range r.Violations {
			mine := false
			switch prop {
			case "C04":
				mine = hasPrefixAny(v, "selected-node-unresolved", "walk-returned-error", "completion-map-disagrees")
			case "C03":
				mine = hasPrefixAny(v, "start-before-dependency-finished", "callback-called-twice", "started-unselected")
			case "C05":
				mine = hasPrefixAny(v, "started-after-dependency-failed")
			}
			if mine {
				run.Violation("walker "+v, fmt.Sprintf("Walker case %s: %s", caseBrief(o), v), map[string]any{"case": o.Case, "result": o.Res})
			} else {
				run.Count("walker_divergence_other_property:"+v, 1)
			}
		}
	})
	if err != nil {
		run.Infra(err.Error())
	}
}

func firstLines(s string, n int) string {
	ls := strings.Split(s, "\n")
	if len(ls) > n {
		ls = ls[:n]
	}
	return strings.Join(ls, " | ")
}

// RunC04: every build terminates with every selected target resolved.
func RunC04(tier string) int {
	run := report.New("C04", tier, "fault_enumeration",
		"dag.Walker driven in-process inside testing/synctest bubbles under the race detector over seeded graph families (chains, ladders, fans, independent roots, random DAGs) x selections x failing subsets x fail-fast x callback latencies x registration delays x external cancellation x GOMAXPROCS 1/2/16; "+
			"plus the real binary after every sampled single (thorough: also double) cache read fault - entry missing or unreadable, for blobs, trees and target results - with the workspace outputs wiped (and, in half of the cases, the commands of some targets changed so that misses depend on faulted hits); plus wide builds (2-6 x num_workers ready targets, worker pool queue full) interrupted by SIGINT/SIGTERM raised inside the process after the K-th command spawn / task start; verdicts: synctest deadlock report, quiescent hang of the process (two CPU samples + goroutine dump), runtime fatal error, map-access race report on walker state, selected node left unresolved; non-trivial = case with failures, cancellation or a registration delay; distinct = graph shape + observed start order")
	walkerPart(run, tier, "C04")
	st, err := e1.Prepare(run, true)
	if err != nil {
		run.Infra(err.Error())
		return run.Finish()
	}
	defer st.Cleanup()
	e1.RestoreFaultPart(run, st, tierN(tier, 16, 80), tierN(tier, 16, 0), map[string]bool{"crash": true, "hang": true}, tier == "thorough")
	// cache entries that turn unreadable while they are being read: a read-side system call on a
	// cache file (open for reading, read, pread64, stat, the read half of copy_file_range) fails
	// with EIO / EACCES / EMFILE in the real binary (strace fault injection, hook-free)
	e1.SysFaultPart(run, st, tierN(tier, 8, 50), tierN(tier, 8, 30), map[string]bool{"read": true},
		map[string]bool{"crash": true, "hang": true}, false)
	// transient errors of the cache backend's Get at the hook (the N-th read fails, once or from
	// then on), half of the cases under load_outputs=minimal where results are read a second time
	// from inside a dependant's task: judged on crash and hang
	e1.GetFaultPart(run, st, tierN(tier, 12, 80), tierN(tier, 8, 40), false, map[string]bool{"crash": true, "hang": true})
	e1.InterruptWidePart(run, st, tierN(tier, 24, 300))
	// whole builds under the race detector
	RaceBuildPart(run, st, tierN(tier, 10, 120))
	// every failure pattern and failure mode (exit status, timeout, missing output, failing check,
	// keep-going / fail-fast): the build returns and the process exits - judged here on hang and
	// crash only, C05 judges what ran
	e1.FailurePatternPart(run, st, tierN(tier, 24, 300), "C04-failures", map[string]bool{"hang": true, "crash": true, "slow": true})
	run.Assume("deadlock is decided by the Go runtime (synctest: all goroutines in the bubble durably blocked), never by elapsed time")
	return run.Finish()
}
