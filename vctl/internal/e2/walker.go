package e2

import (
	"encoding/json"
	"fmt"
	"os"
	"strconv"
	"strings"
	"sync"

	"vctl/internal/e1"
	"vctl/internal/grog"
	"vctl/internal/report"
)

type WalkerResult struct {
	Case struct {
		ID       int    `json:"id"`
		Shape    string `json:"shape"`
		N        int    `json:"n"`
		Edges    int    `json:"edges"`
		Selected int    `json:"selected"`
		Failing  int    `json:"failing"`
		FailFast bool   `json:"fail_fast"`
		Latency  string `json:"latency"`
		RegDelay string `json:"reg_delay"`
		CancelAt int    `json:"cancel_at"`
	} `json:"case"`
	Violations []string `json:"violations"`
	Events     int      `json:"events"`
	Started    int      `json:"started"`
	Completed  int      `json:"completed"`
	OrderSig   string   `json:"order_sig"`
	FailedN    int      `json:"failed_n"`
	SkippedN   int      `json:"skipped_n"`
}

// WalkerSweep runs n walker cases split over parallel driver processes with varying GOMAXPROCS.
func WalkerSweep(run *report.Run, n, maxNodes int, race bool, handle func(o Outcome, r *WalkerResult)) error {
	return walkerDriverSweep(run, "TestWalker", n, maxNodes, race, func(o Outcome) {
		var r *WalkerResult
		if o.Res != nil {
			r = &WalkerResult{}
			if err := json.Unmarshal(o.Res, r); err != nil {
				r = nil
			}
		}
		handle(o, r)
	})
}

// walkerDriverSweep runs cases [0,n) of one test of the walker driver.
func walkerDriverSweep(run *report.Run, test string, n, maxNodes int, race bool, handle func(o Outcome)) error {
	drv, err := grog.Driver("walker", race)
	if err != nil {
		return err
	}
	dir, err := os.MkdirTemp(e1.Scratch(), "verif-walker-")
	if err != nil {
		return err
	}
	defer os.RemoveAll(dir)
	chunks := 32
	if n < chunks {
		chunks = n
	}
	per := (n + chunks - 1) / chunks
	var mu sync.Mutex
	e1.Parallel(chunks, func(c int) {
		from, to := c*per, (c+1)*per
		if to > n {
			to = n
		}
		if from >= to {
			return
		}
		procs := []string{"1", "2", "16"}[c%3]
		outs := RunBatch(BatchOpts{Driver: drv, TestName: test, From: from, To: to, Dir: dir,
			Args: []string{"-vseed", strconv.FormatInt(run.Seed, 10), "-vmaxnodes", strconv.Itoa(maxNodes)},
			Env:  []string{"GOMAXPROCS=" + procs}})
		mu.Lock()
		defer mu.Unlock()
		for _, o := range outs {
			handle(o)
		}
	})
	return nil
}

func caseBrief(o Outcome) string {
	s := string(o.Case)
	if len(s) > 300 {
		s = s[:300]
	}
	return s
}

func hasPrefixAny(s string, ps ...string) bool {
	for _, p := range ps {
		if strings.HasPrefix(s, p) {
			return true
		}
	}
	return false
}

var _ = fmt.Sprint
