package e1

import (
	"fmt"
	"os"
	"strings"
	"sync/atomic"

	"vctl/internal/report"
	"vctl/internal/rng"
	"vctl/internal/spec"
)

// RunC14: success implies postconditions: exit 0, outputs exist, checks pass, in time.
func RunC14(tier string) int {
	run := report.New("C14", tier, "exploration",
		"seeded random workspaces whose targets carry combinations of outputs, output checks (exit-status and expected_output flavours) on external marker files, timeouts, commands that do or do not re-establish the checked marker, commands that omit a declared output or overrun their timeout when a marker is present; "+
			"histories establish the external conditions, let grog cache, destroy/re-create them and rebuild; judged: executed set (a failing check forces execution on a hit), exit status (a still-failing check, a missing output, a timeout or a non-zero exit fails the build) and the follow-up build (nothing cached for a failed target); "+
			"non-trivial = history in which a cached target's check was made to fail and a build both re-executed it and restored other targets; distinct = shape + step sequence")
	st, err := Prepare(run, false)
	if err != nil {
		run.Infra(err.Error())
		return run.Finish()
	}
	defer st.Cleanup()
	n := tierN(tier, 40, 500)
	var abandoned atomic.Int32
	Parallel(n, func(i int) {
		r := rng.Derive(uint64(run.Seed), "C14", fmt.Sprint(i))
		pf := spec.DefaultProfile()
		pf.MinTargets, pf.MaxTargets = 3, 8
		s := spec.Gen(r, pf)
		var markers []string
		for _, t := range s.Targets {
			switch r.Intn(6) {
			case 0, 1: // exit-status check
				m := "markers/ok_" + t.MID()
				t.Checks = append(t.Checks, spec.Check{Marker: m, Shape: rng.Pick(r, []string{"", "", "and", "nosete"})})
				markers = append(markers, m)
				switch r.Intn(3) {
				case 0:
					t.Touch = m
				case 1:
					// a command that can break its own postcondition: it removes the checked
					// marker while the control marker is present
					t.Untouch, t.UntouchIf = m, "markers/break_"+t.MID()
				}
			case 2: // expected_output check
				m := "markers/eo_" + t.MID()
				if r.Chance(1, 3) {
					// a white-space-only expectation: the check must print nothing (an empty
					// expectation would mean "exit status only")
					m = "markers/blank_" + t.MID()
					t.Checks = append(t.Checks, spec.Check{Marker: m, Expected: rng.Pick(r, []string{"\n", " ", "\n\n"})})
					markers = append(markers, m)
					run.Count("checks_expecting_no_output", 1)
					if r.Chance(1, 2) {
						t.Touch = m
					}
					break
				}
				t.Checks = append(t.Checks, spec.Check{Marker: m, Expected: "ok"})
				markers = append(markers, m)
				if r.Chance(1, 2) {
					t.Touch = m
				}
			case 3:
				if len(t.AllOuts()) > 0 {
					t.OmitIf = "markers/omit_" + t.MID()
					t.Dangle = r.Chance(1, 2) // a dangling symlink at the path instead of nothing
					if r.Chance(1, 3) && !t.HasTag("no-cache") {
						// an uncached target: its outputs are only hashed, never stored - they must
						// exist all the same
						t.Tags = append(t.Tags, "no-cache")
						for _, o := range t.AllOuts() {
							if o.Kind == "dir" {
								t.Omit = o.Path // the directory output is the one that goes missing
							}
						}
					}
					if outs := t.AllOuts(); len(outs) >= 2 && r.Chance(1, 2) && t.Omit == "" {
						// only one of the declared outputs goes missing
						t.Omit = outs[r.Intn(len(outs))].Path
					}
				}
			case 4:
				t.SleepIf = "markers/slow_" + t.MID()
				t.Timeout = "3s"
				if r.Chance(1, 2) {
					// an overrun of a few hundred milliseconds: the command would exit 0 on its own
					// shortly after the deadline
					t.Timeout = "2s"
					t.SleepIfMs = r.Range(2300, 2700)
				}
				// how the target's shell takes the signal that ends an overrun command: killed
				// outright, exits 0 on TERM (graceful shutdown), or ignores TERM
				switch r.Intn(3) {
				case 0:
					t.TrapExit0 = true
				case 1:
					t.TrapTerm = true
				}
			}
		}
		// several checks on one target, of both flavours, in either order: every one of them counts
		for _, t := range s.Targets {
			if len(t.Checks) == 1 && r.Chance(1, 2) {
				for j := r.Range(1, 2); j > 0; j-- {
					m := fmt.Sprintf("markers/x%d_%s", j, t.MID())
					c := spec.Check{Marker: m, Shape: rng.Pick(r, []string{"", "", "and", "nosete"})}
					if r.Chance(1, 2) {
						c.Expected = "ok"
					}
					if r.Chance(1, 2) {
						t.Checks = append(t.Checks, c)
					} else {
						t.Checks = append([]spec.Check{c}, t.Checks...)
					}
					markers = append(markers, m)
				}
			}
		}
		gcfg := randCfg(r)
		if i%3 == 2 {
			// the rules are the same when cached outputs are only loaded on demand
			gcfg.LoadOutputs = "minimal"
			run.Count("histories_with_load_outputs_minimal", 1)
		}
		env, err := NewEnv(st.Base, fmt.Sprintf("c%d", i), st.Grog, st.Vctl, s, gcfg)
		if err != nil {
			run.Infra(err.Error())
			return
		}
		env.MaybeTTY(run, fmt.Sprint(i), 5)
		keep := false
		defer func() {
			if !keep {
				env.Cleanup()
			}
		}()
		for _, m := range markers {
			env.SetMarker(m, true)
		}
		cfg := BuildCfg{EnableCache: true}
		steps := r.Range(6, 12)
		var names []string
		nontrivial := false
		for k := 0; k <= steps; k++ {
			name := "cold"
			if k > 0 {
				switch x := r.Intn(10); {
				case x < 4 && len(markers) > 0: // destroy or re-create a checked condition
					m := rng.Pick(r, markers)
					exp := ""
					for _, t := range env.Spec.Targets {
						for _, c := range t.Checks {
							if c.Marker == m {
								exp = c.Expected
							}
						}
					}
					on := env.checkHolds(spec.Check{Marker: m, Expected: exp})
					how := ""
					if on && exp != "" && r.Chance(2, 3) {
						// the condition of an expected_output check is destroyed while its marker
						// stays: the check command prints something else than what is expected
						if strings.TrimSpace(exp) == "" {
							exp = "unexpected" // (nothing is expected: any output destroys the condition)
						}
						bad := rng.Pick(r, []string{exp + "\nDEGRADED: disk lost\n", exp + "\nsecond line\nthird line\n", exp + "\n" + exp + "\n", "first line\n" + exp + "\n",
							exp + "ay\n", map[bool]string{true: "", false: "x"}[exp != "unexpected"], "\n" + "not-" + exp + "\n", exp + " " + exp + "\n"})
						env.SpoilMarker(m, bad)
						how = fmt.Sprintf(" (marker now prints %q)", bad)
						run.Count("expected_output_conditions_destroyed_by_other_output", 1)
					} else {
						env.SetMarker(m, !on)
					}
					name = map[bool]string{true: "check-condition-destroyed", false: "check-condition-restored"}[on]
					env.Logf("%s: %s%s", name, m, how)
				case x < 5 && hasBreaker(env.Spec): // a command that exits 0 but destroys the condition its check asserts
					var bs []*spec.Target
					for _, t := range env.Spec.Targets {
						if t.Untouch != "" {
							bs = append(bs, t)
						}
					}
					t := rng.Pick(r, bs)
					on := env.markerOn(t.UntouchIf)
					env.SetMarker(t.UntouchIf, !on)
					name = map[bool]string{true: "breaker-removed", false: "breaker-set"}[on]
					env.Logf("%s: %s", name, t.UntouchIf)
					if !on {
						// the condition holds when the build starts, and the target executes anyway:
						// tainted (cached result exists) or changed (no result for the state)
						env.SetMarker(t.Untouch, true)
						if r.Chance(1, 2) {
							if env.RunTaint([]string{t.Label()}).Exit != 0 {
								run.Infra("grog taint failed")
								return
							}
							env.Taint[t.Label()] = true
							name += "+taint"
						} else {
							env.Apply(func() string { t.Salt = r.Word(4, 8); return "command-change" })
							name += "+command-change"
						}
						run.Count("executions_that_break_their_own_postcondition", 1)
					}
				case x < 6: // toggle a failure cause
					var cands []string
					for _, t := range env.Spec.Targets {
						if t.OmitIf != "" {
							cands = append(cands, t.OmitIf)
						}
						if t.SleepIf != "" {
							cands = append(cands, t.SleepIf)
						}
					}
					if len(cands) == 0 {
						name = "noop"
						break
					}
					m := rng.Pick(r, cands)
					on := env.markerOn(m)
					env.SetMarker(m, !on)
					name = map[bool]string{true: "failure-cause-removed", false: "failure-cause-set"}[on]
					env.Logf("%s: %s", name, m)
					// the marker only matters if the target executes: force it by a command change
					for _, t := range env.Spec.Targets {
						if t.OmitIf == m || t.SleepIf == m {
							env.Apply(func() string { t.Salt = r.Word(4, 8); return "command-change" })
						}
					}
				case x < 8:
					name = env.Apply(func() string { return OpEditFile(r, env) })
					if name == "" {
						name = "noop"
					}
				default:
					name = "noop"
				}
			}
			names = append(names, name)
			p, obs, vs, err := env.Step(BuildOpts{}, cfg, name, false)
			if err != nil {
				run.Infra(err.Error())
				return
			}
			if LoadTimeout(vs) {
				run.Count("histories_abandoned_after_load_induced_timeout", 1)
				if abandoned.Add(1) > 3 {
					run.Inconclusive("more than 3 histories hit a timeout attribute without an injected delay (machine too loaded to judge)")
				}
				return
			}
			run.Eval(1)
			run.Count("builds", 1)
			run.Count("step:"+name, 1)
			forcedByCheck, restored := 0, 0
			for l := range p.Selected {
				if p.Class[l] == MustExec && p.Reason[l] == "check-failing" {
					forcedByCheck++
				}
				if p.Class[l] == MustNotExec && obs.Started[l] == 0 {
					restored++
				}
			}
			run.Count("targets_forced_by_failing_check", forcedByCheck)
			if forcedByCheck > 0 && restored > 0 {
				nontrivial = true
			}
			if p.ExpectFail {
				run.Count("builds_expected_to_fail", 1)
			}
			reported := false
			for _, v := range vs {
				if (v.Kind == "exec" || v.Kind == "exit") && !reported {
					keep = !run.Violation(v.Sig, v.What, mkReplay(i, env, obs)) || keep
					reported = true
				} else if v.Kind != "exec" && v.Kind != "exit" {
					run.Count("divergence_other_property:"+v.Kind, 1)
					Debugf("case %d: other-property divergence %s: %s | %s", i, v.Kind, v.Sig, v.What)
				}
			}
			if len(vs) > 0 {
				break
			}
		}
		if nontrivial {
			run.Nontrivial(s.Shape() + "|" + strings.Join(names, ","))
		}
		run.Sample(map[string]any{"case": i, "shape": s.Shape(), "history": env.Log})
	})
	_ = hasBreaker
	// A dependency with a timeout that has to be re-run while its dependant loads dependency
	// outputs (load_outputs=minimal, blobs lost) is still subject to its timeout.
	Parallel(tierN(tier, 10, 80), func(i int) {
		r := rng.Derive(uint64(run.Seed), "C14-rerun", fmt.Sprint(i))
		pf := spec.DefaultProfile()
		pf.MinTargets, pf.MaxTargets, pf.Aliases = 3, 5, false
		s := spec.Gen(r, pf)
		// lib: an early target with outputs and a timeout; app: a target that depends on it
		lib := s.Targets[0]
		if len(lib.AllOuts()) == 0 {
			lib.Outs = append(lib.Outs, spec.Out{Kind: "file", Path: "lib.out"})
		}
		lib.Timeout, lib.SleepIf = "3s", "markers/slow_lib"
		app := s.Targets[len(s.Targets)-1]
		if !s.Closure([]string{app.Label()})[lib.Label()] {
			app.Deps = append(app.Deps, lib.Label())
		}
		gcfg := randCfg(r)
		gcfg.LoadOutputs = "minimal"
		env, err := NewEnv(st.Base, fmt.Sprintf("t%d", i), st.Grog, st.Vctl, s, gcfg)
		if err != nil {
			run.Infra(err.Error())
			return
		}
		env.MaybeTTY(run, fmt.Sprint(i), 5)
		defer env.Cleanup()
		hookLog := env.EnableHookLog()
		cfg := BuildCfg{EnableCache: true, Minimal: true}
		if _, obs, vs, err := env.Step(BuildOpts{}, cfg, "cold", false); err != nil || len(vs) > 0 || obs.Res.Exit != 0 {
			return
		}
		n := env.DeleteBlobsOf(lib.Label(), hookLog, nil)
		env.WipeOutputs()
		env.SetMarker("markers/slow_lib", true)
		env.Apply(func() string { app.Salt = r.Word(4, 8); return "command-change" })
		for k := range env.Memo {
			env.Memo[k] = "lost"
		}
		_, obs, _, err := env.Step(BuildOpts{}, cfg, "dependency-rerun", false)
		if err != nil {
			return
		}
		run.Eval(1)
		run.Count("dependency_rerun_cases", 1)
		run.Count("blobs_deleted", n)
		if obs.Started[lib.Label()] > 0 {
			run.Nontrivial("dep-rerun|" + s.Shape())
			run.Count("dependencies_re_run_with_timeout", 1)
			if obs.Ended[lib.Label()] > 0 || obs.Res.Exit == 0 {
				run.Violation("timeout-not-enforced on-dependency-rerun", fmt.Sprintf("%s has timeout 3s and sleeps 20 s, but its re-run (dependency outputs lost, load_outputs=minimal) ran to completion: exit=%d", lib.Label(), obs.Res.Exit), mkReplay(i, env, obs))
			}
		}
	})
	// records written by another mode: a build with the cache disabled records results without
	// outputs under the ordinary keys; the outputs then vanish from the workspace; an ordinary
	// build that reports success has to leave every declared output in place all the same
	if report.Part("othermode") {
		Parallel(tierN(tier, 8, 60), func(i int) {
			r := rng.Derive(uint64(run.Seed), "C14-othermode", fmt.Sprint(i))
			pf := spec.DefaultProfile()
			pf.MinTargets, pf.MaxTargets = 3, 6
			s := spec.Gen(r, pf)
			gcfg := randCfg(r)
			if i%3 == 2 {
				gcfg.LoadOutputs = "minimal"
			}
			env, err := NewEnv(st.Base, fmt.Sprintf("om%d", i), st.Grog, st.Vctl, s, gcfg)
			if err != nil {
				run.Infra(err.Error())
				return
			}
			keep := false
			defer func() {
				if !keep {
					env.Cleanup()
				}
			}()
			if obs := env.RunBuild(BuildOpts{DisableCache: true}); obs.Res.Exit != 0 {
				run.Count("othermode_cases_skipped(first build failed)", 1)
				return
			}
			env.WipeOutputs()
			obs := env.RunBuild(BuildOpts{})
			run.Eval(1)
			run.Count("cached_builds_over_records_of_a_cache_disabled_build", 1)
			if obs.Res.Exit != 0 || obs.Res.Crashed() != "" || obs.Res.TimedOut {
				run.Count("divergence_other_property:failure-crash-or-hang", 1)
				return
			}
			if gcfg.LoadOutputs == "minimal" {
				run.Nontrivial("othermode|minimal") // (outputs of cache hits are not loaded in this mode: exit status only)
				return
			}
			for _, t := range s.Targets {
				for _, o := range t.AllOuts() {
					if _, err := os.Lstat(spec.OutAbs(env.WS, t.Pkg, o.Path)); err != nil {
						keep = !run.Violation("success-with-missing-declared-output after-cache-disabled-build", fmt.Sprintf("the build exited 0 but %s of %s does not exist (the target's record was written by a build with --enable-cache=false and names no outputs; the workspace copy was removed)", o.Path, t.Label()), mkReplay(i, env, obs)) || keep
						return
					}
				}
			}
			run.Nontrivial("othermode|all|" + s.Shape())
		})
	}
	run.Assume("the checked condition is an external marker file the harness owns; it is not a declared input, so only the output check can see it")
	return run.Finish()
}

func hasBreaker(s *spec.Spec) bool {
	for _, t := range s.Targets {
		if t.Untouch != "" {
			return true
		}
	}
	return false
}
