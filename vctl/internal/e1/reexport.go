package e1

import (
	"fmt"
	"os"
	"path/filepath"
	"strings"

	"vctl/internal/grog"
	"vctl/internal/report"
	"vctl/internal/rng"
)

// ReExportPart (C15): a target WITHOUT a command that exposes a file produced by its dependency
// (a file inside the dependency's directory output, declared as output or bin_output - allowed,
// because the two targets are ordered by dependency), and a consumer of that file. Histories
// move the producer's source back and forth between versions (so that its result is a cache hit
// while the workspace still holds another version) and edit the inputs of the re-exporting
// target and of the consumer. Run in lock-step under load_outputs=all and =minimal; judged
// against the reference (the exposed file and the consumer's output equal the current source)
// whenever the consumer ran, and on equal exit status.
func ReExportPart(run *report.Run, st *Setup, n int) {
	Parallel(n, func(i int) {
		r := rng.Derive(uint64(run.Seed), run.Prop+"-reexport", fmt.Sprint(i))
		binOut := r.Chance(1, 2)
		nested := r.Chance(1, 2)
		exposed := "dist/cli"
		if nested {
			exposed = "dist/bin/cli"
		}
		expose := fmt.Sprintf(`"outputs": [%q]`, exposed)
		if binOut {
			expose = fmt.Sprintf(`"bin_output": %q`, exposed)
		}
		build := fmt.Sprintf(`{"targets":[
 {"name":"bundle","inputs":["cli.src"],"command":"rm -rf dist; mkdir -p %s dist/extra; cp cli.src %s; chmod +x %s; cp cli.src dist/extra/copy; echo \"R $VBUILD bundle\" >> \"$VTRACE\"","outputs":["dir::dist"]},
 {"name":"cli","dependencies":[":bundle"],"inputs":["cli.meta"],%s},
 {"name":"report","dependencies":[":cli"],"inputs":["report.txt"],"command":"cat %s > report.out; echo \"R $VBUILD report\" >> \"$VTRACE\"","outputs":["report.out"]}
]}`, filepath.Dir(exposed), exposed, exposed, expose, exposed)
		type machine struct {
			mode string
			m    *grog.Machine
			ws   string
		}
		var ms []*machine
		base := filepath.Join(st.Base, fmt.Sprintf("rx%d", i))
		keep := false
		defer func() {
			if !keep {
				_ = os.RemoveAll(base)
			}
		}()
		for _, mode := range []string{"all", "minimal"} {
			d := filepath.Join(base, mode)
			ws := filepath.Join(d, "ws")
			for _, x := range []string{filepath.Join(ws, "pkg"), filepath.Join(d, "root"), filepath.Join(d, "home")} {
				_ = os.MkdirAll(x, 0755)
			}
			m := &grog.Machine{Bin: st.Grog, Workspace: ws, Root: filepath.Join(d, "root"), Home: filepath.Join(d, "home"), Trace: filepath.Join(d, "trace"), VctlBin: st.Vctl}
			_ = m.WriteConfig(grog.Config{NumWorkers: r.Range(1, 4), LoadOutputs: mode})
			_ = os.WriteFile(filepath.Join(ws, "pkg", "BUILD.json"), []byte(build), 0644)
			ms = append(ms, &machine{mode, m, ws})
		}
		var hist []string
		srcV, metaV, repV := 1, 1, 1
		write := func() {
			for _, mc := range ms {
				_ = os.WriteFile(filepath.Join(mc.ws, "pkg", "cli.src"), []byte(fmt.Sprintf("#!/bin/sh\necho cli version %d\n", srcV)), 0644)
				_ = os.WriteFile(filepath.Join(mc.ws, "pkg", "cli.meta"), []byte(fmt.Sprintf("meta %d\n", metaV)), 0644)
				_ = os.WriteFile(filepath.Join(mc.ws, "pkg", "report.txt"), []byte(fmt.Sprintf("report %d\n", repV)), 0644)
			}
		}
		steps := r.Range(4, 8)
		for k := 0; k <= steps; k++ {
			if k > 0 {
				switch r.Intn(5) {
				case 0, 1:
					srcV = r.Range(1, 3) // moves between a few versions: returns to cached states
				case 2:
					metaV++
				case 3:
					repV++
				default:
					srcV = r.Range(1, 3)
					metaV++
					repV++
				}
			}
			write()
			hist = append(hist, fmt.Sprintf("step %d: cli.src v%d, cli.meta v%d, report.txt v%d", k, srcV, metaV, repV))
			want := fmt.Sprintf("#!/bin/sh\necho cli version %d\n", srcV)
			exits := map[string]int{}
			for _, mc := range ms {
				bid := fmt.Sprintf("b%d", k)
				res := mc.m.Run([]string{"build"}, grog.RunOpts{Build: bid})
				run.Eval(1)
				run.Count("reexport_builds", 1)
				exits[mc.mode] = res.Exit
				if res.Crashed() != "" || res.TimedOut {
					run.Count("divergence_other_property:crash-or-hang", 1)
					return
				}
				ranReport := false
				if b, err := os.ReadFile(mc.m.Trace); err == nil {
					ranReport = strings.Contains(string(b), "R "+bid+" report")
				}
				hist = append(hist, fmt.Sprintf("  load_outputs=%s: exit %d, consumer ran: %v", mc.mode, res.Exit, ranReport))
				if res.Exit != 0 {
					continue
				}
				check := func(rel, what string) bool {
					b, err := os.ReadFile(filepath.Join(mc.ws, "pkg", rel))
					if err != nil || string(b) != want {
						got := "absent"
						if err == nil {
							got = strings.TrimSpace(strings.ReplaceAll(string(b), "\n", " | "))
						}
						keep = !run.Violation(fmt.Sprintf("reexport stale-%s mode=%s bin_output=%v", what, mc.mode, binOut),
							fmt.Sprintf("load_outputs=%s: after a successful build in which the consumer %s, pkg/%s is %q but the current source is version %d", mc.mode, map[bool]string{true: "ran", false: "did not run"}[ranReport], rel, got, srcV),
							map[string]any{"history": hist, "build_file": build, "stdout": tail(res.Stdout, 1500)}) || keep
						return false
					}
					return true
				}
				if ranReport {
					run.Count("reexport_builds_in_which_the_consumer_ran:"+mc.mode, 1)
					if !check("report.out", "consumer-output") || !check(exposed, "exposed-file") {
						return
					}
				} else if mc.mode == "all" {
					if !check("report.out", "consumer-output") || !check(exposed, "exposed-file") {
						return
					}
				}
			}
			if exits["all"] != exits["minimal"] {
				keep = !run.Violation(fmt.Sprintf("reexport exit-status-differs all=%d minimal=%d", exits["all"], exits["minimal"]),
					fmt.Sprintf("the same history ends with exit %d under load_outputs=all and %d under minimal", exits["all"], exits["minimal"]),
					map[string]any{"history": hist, "build_file": build}) || keep
				return
			}
		}
		run.Nontrivial(fmt.Sprintf("reexport|bin=%v|nested=%v|%d", binOut, nested, steps))
		run.Sample(map[string]any{"reexport_case": i, "history": hist})
	})
}
