package e1

import (
	"fmt"
	"os"
	"path/filepath"
	"strings"

	"vctl/internal/grog"
	"vctl/internal/report"
	"vctl/internal/rng"
)

// OutputPermutationPart (C01): dependency outputs whose contents do not say which output they
// are. A producer writes line i of its input to output i (2-4 file outputs, optionally tagged
// no-cache, optionally one of them a bin_output); a consumer records "name=content" for each
// of them. The edits permute the lines (the outputs exchange their contents: the multiset of
// contents stays the same), change single lines, and go back to earlier states; some builds run
// with --enable-cache=false. After every successful build the consumer's output and the
// producer's outputs must be what a from-scratch build of the current sources gives (computed
// directly from the input).
func OutputPermutationPart(run *report.Run, st *Setup, n int) {
	Parallel(n, func(i int) {
		r := rng.Derive(uint64(run.Seed), run.Prop+"-outperm", fmt.Sprint(i))
		k := r.Range(2, 4)
		noCache := r.Chance(1, 2)
		binOut := r.Chance(1, 3)
		minimal := r.Chance(1, 3)
		var outs, writes, reads []string
		for j := 1; j <= k; j++ {
			name := fmt.Sprintf("o%d.txt", j)
			writes = append(writes, fmt.Sprintf("sed -n %dp in.txt > %s; chmod -x %s; if grep -q '^%d$' x.txt; then chmod +x %s; fi", j, name, name, j, name))
			reads = append(reads, fmt.Sprintf("echo %s=$(cat %s)$(if [ -x %s ]; then echo :x; fi)", name, name, name))
			if j == k && binOut {
				continue
			}
			outs = append(outs, fmt.Sprintf("%q", name))
		}
		extra := ""
		if binOut {
			extra = fmt.Sprintf(`,"bin_output":"o%d.txt"`, k)
		}
		tags := ""
		if noCache {
			tags = `,"tags":["no-cache"]`
		}
		build := fmt.Sprintf(`{"targets":[
 {"name":"gen","inputs":["in.txt","x.txt"],"command":"%s; echo \"R $VBUILD gen\" >> \"$VTRACE\"","outputs":[%s]%s%s},
 {"name":"rep","dependencies":[":gen"],"inputs":["rep.cfg"],"command":"(%s) > rep.out; echo \"R $VBUILD rep\" >> \"$VTRACE\"","outputs":["rep.out"]}
]}`, strings.Join(writes, "; "), strings.Join(outs, ","), extra, tags, strings.Join(reads, "; "))
		base := filepath.Join(st.Base, fmt.Sprintf("op%d", i))
		ws := filepath.Join(base, "ws")
		keep := false
		defer func() {
			if !keep {
				_ = os.RemoveAll(base)
			}
		}()
		for _, x := range []string{filepath.Join(ws, "pkg"), filepath.Join(base, "root"), filepath.Join(base, "home")} {
			_ = os.MkdirAll(x, 0755)
		}
		m := &grog.Machine{Bin: st.Grog, Workspace: ws, Root: filepath.Join(base, "root"), Home: filepath.Join(base, "home"), Trace: filepath.Join(base, "trace"), VctlBin: st.Vctl}
		cfg := grog.Config{NumWorkers: r.Range(1, 4)}
		if minimal {
			cfg.LoadOutputs = "minimal"
		}
		if r.Chance(1, 3) {
			cfg.HashAlgorithm = "sha256"
		}
		_ = m.WriteConfig(cfg)
		_ = os.WriteFile(filepath.Join(ws, "pkg", "BUILD.json"), []byte(build), 0644)
		_ = os.WriteFile(filepath.Join(ws, "pkg", "rep.cfg"), []byte("cfg 1\n"), 0644)
		words := []string{"alpha", "beta", "gamma", "delta", "eps"}
		lines := append([]string{}, words[:k]...)
		execs := map[int]bool{} // outputs (1-based) that are executable
		if binOut {
			execs[k] = true // a bin_output is made executable by grog in any case
		}
		var hist []string
		steps := r.Range(5, 10)
		var earlier [][]string
		for s := 0; s <= steps; s++ {
			op := "cold"
			if s > 0 {
				switch r.Intn(6) {
				case 0, 1, 2:
					a, b := r.Intn(k), r.Intn(k)
					for a == b {
						b = r.Intn(k)
					}
					lines[a], lines[b] = lines[b], lines[a]
					op = fmt.Sprintf("outputs %d and %d exchange their contents", a+1, b+1)
				case 3:
					if r.Chance(1, 2) {
						j := r.Range(1, k)
						if !(binOut && j == k) {
							execs[j] = !execs[j]
							op = fmt.Sprintf("executable bit of output %d flips (contents unchanged)", j)
							break
						}
					}
					lines[r.Intn(k)] = r.Word(3, 6)
					op = "one line changed"
				case 4:
					if len(earlier) > 0 {
						lines = append([]string{}, earlier[r.Intn(len(earlier))]...)
						op = "back to an earlier input"
					} else {
						op = "no change"
					}
				default:
					op = "no change"
				}
			}
			earlier = append(earlier, append([]string{}, lines...))
			_ = os.WriteFile(filepath.Join(ws, "pkg", "in.txt"), []byte(strings.Join(lines, "\n")+"\n"), 0644)
			var xs []string
			for j := 1; j <= k; j++ {
				if execs[j] && !(binOut && j == k) {
					xs = append(xs, fmt.Sprint(j))
				}
			}
			_ = os.WriteFile(filepath.Join(ws, "pkg", "x.txt"), []byte(strings.Join(xs, "\n")+"\n"), 0644)
			args := []string{"build"}
			if r.Chance(1, 6) {
				args = append(args, "--enable-cache=false")
			}
			bid := fmt.Sprintf("b%d", s)
			res := m.Run(args, grog.RunOpts{Build: bid})
			run.Eval(1)
			run.Count("outperm_builds", 1)
			ranRep := false
			if b, err := os.ReadFile(m.Trace); err == nil {
				ranRep = strings.Contains(string(b), "R "+bid+" rep")
			}
			hist = append(hist, fmt.Sprintf("%s: %s; in.txt=%v; grog %s -> exit %d, consumer ran: %v", bid, op, lines, strings.Join(args, " "), res.Exit, ranRep))
			if res.Crashed() != "" || res.TimedOut || res.Exit != 0 {
				run.Count("divergence_other_property:exit-or-crash", 1)
				return
			}
			if strings.Contains(op, "exchange") {
				run.Count("outperm_builds_after_a_content_exchange", 1)
			}
			if strings.Contains(op, "executable bit") {
				run.Count("outperm_builds_after_an_executable_bit_flip", 1)
			}
			var want []string
			for j := 1; j <= k; j++ {
				w := fmt.Sprintf("o%d.txt=%s", j, lines[j-1])
				if execs[j] {
					w += ":x"
				}
				want = append(want, w)
			}
			if minimal && !ranRep {
				continue // nothing of the consumer is materialised by this build
			}
			got, err := os.ReadFile(filepath.Join(ws, "pkg", "rep.out"))
			if err != nil || strings.TrimSpace(string(got)) != strings.Join(want, "\n") {
				how := "restored from the cache"
				if ranRep {
					how = "executed"
				}
				keep = !run.Violation(fmt.Sprintf("outperm stale-consumer-output producer-no-cache=%v consumer=%s edit=%s", noCache, strings.Fields(how)[0], map[bool]string{true: "exec-bit", false: "contents"}[strings.Contains(op, "executable bit")]),
					fmt.Sprintf("after %q the consumer (%s) has %q, a from-scratch build gives %q (producer no-cache: %v, bin_output: %v, load_outputs minimal: %v)", op, how,
						strings.ReplaceAll(strings.TrimSpace(string(got)), "\n", " "), strings.Join(want, " "), noCache, binOut, minimal),
					map[string]any{"history": hist, "build_file": build, "stdout": tail(res.Stdout, 1200)}) || keep
				return
			}
		}
		run.Nontrivial(fmt.Sprintf("outperm|k%d|nc=%v|bin=%v|min=%v|%d", k, noCache, binOut, minimal, steps))
		run.Sample(map[string]any{"outperm_case": i, "history": hist})
	})
}
