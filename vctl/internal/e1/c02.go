package e1

import (
	"fmt"
	"os"
	"strings"

	"vctl/internal/grog"
	"vctl/internal/report"
	"vctl/internal/rng"
	"vctl/internal/spec"
)

// RunC02: only invalidated targets re-execute; a no-op rebuild runs nothing.
func RunC02(tier string) int {
	run := report.New("C02", tier, "exploration",
		"seeded random workspaces x histories mixing edits, no-op rebuilds, output-path perturbations (deleted, parent dir deleted, modified, truncated, stale extra entries, file where a dir should be), "+
			"quiet command changes (early cut-off), destroyed output-check conditions and grog taint on cached targets, relocated checkouts and perturbed process environments, in both load_outputs modes and hash algorithms; the executed set of every build is compared with the reference model; "+
			"non-trivial = the history contained a build with zero executions and a build where some but not all selected targets executed; distinct = workspace shape + step sequence")
	st, err := Prepare(run, false)
	if err != nil {
		run.Infra(err.Error())
		return run.Finish()
	}
	defer st.Cleanup()
	n := tierN(tier, 32, 400)
	Parallel(n, func(i int) {
		r := rng.Derive(uint64(run.Seed), "C02", fmt.Sprint(i))
		pf := spec.DefaultProfile()
		pf.Multiplatform = r.Chance(1, 2)
		pf.Tests = r.Chance(1, 2) // test targets: some builds of the history are `grog test` invocations
		s := spec.Gen(r, pf)
		// the other reasons to execute: a quarter of the targets has an output check on a condition
		// outside the workspace outputs which the command itself establishes (so builds keep
		// succeeding); histories destroy the condition, and taint cached targets
		var checked []*spec.Target
		for _, t := range s.Targets {
			if r.Chance(1, 4) && !t.HasTag("no-cache") {
				m := "markers/c02ok_" + t.MID()
				t.Checks = append(t.Checks, spec.Check{Marker: m})
				t.Touch = m
				checked = append(checked, t)
			}
		}
		gcfg := randCfg(r)
		cfg := BuildCfg{EnableCache: true}
		if r.Chance(1, 3) {
			gcfg.LoadOutputs = "minimal"
			cfg.Minimal = true
		}
		env, err := NewEnv(st.Base, fmt.Sprintf("c%d", i), st.Grog, st.Vctl, s, gcfg)
		if err != nil {
			run.Infra(err.Error())
			return
		}
		env.MaybeTTY(run, fmt.Sprint(i), 5)
		keep := false
		defer func() {
			if !keep {
				env.Cleanup()
			}
		}()
		ops := c01Ops(pf.Aliases)
		steps := r.Range(8, 16)
		var names []string
		zeroBuild, partialBuild := false, false
		reloc := 0
		forceNoop := 0
		for k := 0; k <= steps; k++ {
			bo := BuildOpts{}
			name := "cold"
			stepCfg := cfg
			if k > 0 && forceNoop > 0 {
				forceNoop--
				name = "noop"
			} else if k > 0 {
				name = ""
				switch x := r.Intn(24); {
				case x >= 22:
					// the externally checked condition of a target is destroyed: exactly that target
					// executes (its outputs come out the same: dependants are cut off)
					if len(checked) > 0 {
						t := rng.Pick(r, checked)
						if env.Spec.Target(t.Label()) != nil {
							env.SetMarker(t.Touch, false)
							env.Logf("check condition of %s destroyed", t.Label())
							run.Count("check_conditions_destroyed", 1)
							name = "check-condition-destroyed"
						}
					}
				case x == 21:
					// grog taint on a cached target
					if ts := env.CachedTargetsWithOutputs(); len(ts) > 0 {
						t := rng.Pick(r, ts)
						if env.RunTaint([]string{t.Label()}).Exit != 0 {
							run.Count("histories_abandoned(grog taint refused)", 1)
							return
						}
						env.Taint[t.Label()] = true
						run.Count("targets_tainted", 1)
						name = "taint"
					}
				case x == 20:
					// a build with the cache switched off, then two unchanged builds with the cache
					// on: whatever the first of them has to re-execute, the second executes nothing
					name = "cache-disabled-build"
					if r.Chance(2, 3) {
						// some targets get a new state first, whose first record is then the one of
						// the cache-disabled build
						for j := r.Range(1, 3); j > 0; j-- {
							env.Apply(func() string { return OpSalt(r, env) })
						}
						name = "edit+cache-disabled-build"
					}
					stepCfg.EnableCache = false
					bo.DisableCache = true
					forceNoop = 2
				case x < 5: // no-op rebuild
					name = "noop"
				case x < 10: // perturb an output path of a cached target
					ts := env.CachedTargetsWithOutputs()
					if len(ts) > 0 {
						t := rng.Pick(r, ts)
						o := rng.Pick(r, t.AllOuts())
						name = env.Perturb(r, t, o, rng.Pick(r, PerturbKindsExec))
					}
				case x < 12: // quiet command change: early cut-off expected for dependants
					name = env.Apply(func() string { return OpQuiet(r, env) })
				case x < 13 && reloc < 2:
					reloc++
					if err := env.Relocate(fmt.Sprintf("ws_moved%d", reloc)); err != nil {
						run.Infra(err.Error())
						return
					}
					name = "relocate-checkout"
				case x < 15: // perturbed process environment, nothing else changes
					name = "env-perturbed"
					bo.Env = []string{"TZ=" + rng.Pick(r, []string{"UTC", "Asia/Tokyo", "America/New_York"}), "LANG=C", "UNRELATED_" + r.Word(3, 5) + "=" + r.Word(3, 9), "HOME=" + env.Dir + "/home2"}
				case x < 16:
					// build for another platform (and back): results of targets that are not
					// tagged multiplatform-cache belong to the platform they were built for
					cur := env.Spec.Platform
					for env.Spec.Platform == cur {
						env.Spec.Platform = rng.Pick(r, []string{"", "linux/arm64", "darwin/arm64"})
					}
					name = "switch-platform"
					env.Logf("platform: %q -> %q", cur, env.Spec.Platform)
				default:
					for try := 0; try < 6 && name == ""; try++ {
						op := pickOp(r, ops)
						name = env.Apply(func() string { return op(r, env) })
					}
				}
				if name == "" {
					name = "noop"
				}
				if _, err := env.Spec.Eval(); err != nil {
					return
				}
			}
			names = append(names, name)
			if name != "noop" && name != "taint" && name != "check-condition-destroyed" && name != "relocate-checkout" && name != "env-perturbed" && name != "switch-platform" && !strings.HasSuffix(name, "cache-disabled-build") && !strings.HasPrefix(name, "out-") && !strings.HasPrefix(name, "dir-out") && name != "file-where-dir-should-be" {
				bo.Patterns = somePatterns(r, env.Spec)
			}
			ext := ""
			if name == "noop" || name == "relocate-checkout" || name == "env-perturbed" || name == "switch-platform" {
				ext = name
			}
			isTest := false
			if pf.Tests && r.Chance(1, 3) {
				// the same caching rules hold for what `grog test` selects (test targets and
				// their dependency closure)
				bo.Cmd, isTest = "test", true
				bo.Patterns = nil
				run.Count("grog_test_invocations", 1)
			}
			p, obs, vs, err := env.Step(bo, stepCfg, ext, isTest)
			if err != nil {
				run.Infra(err.Error())
				return
			}
			if isTest && len(p.Selected) == 0 {
				continue // no test target in this workspace: grog test reports that nothing matches
			}
			run.Eval(1)
			run.Count("builds", 1)
			run.Count("step:"+name, 1)
			re, ex := count(p, obs)
			run.Count("targets_restored", re)
			run.Count("targets_executed", ex)
			if ex == 0 && re > 0 {
				zeroBuild = true
				run.Count("builds_with_zero_executions", 1)
			}
			if ex > 0 && re > 0 {
				partialBuild = true
			}
			reported := false
			for _, v := range vs {
				if v.Kind == "exec" && !reported {
					keep = !run.Violation(v.Sig, v.What, mkReplay(i, env, obs))
					reported = true
				} else if v.Kind != "exec" {
					run.Count("divergence_other_property:"+v.Kind, 1)
					Debugf("case %d: other-property divergence %s: %s | %s", i, v.Kind, v.Sig, v.What)
				}
			}
			if strings.Contains(name, "symlink") {
				// what the restore leaves at a path that held a symlink is not judged here; take
				// the link away again (an absent output, restored by the next build) and go on
				for _, t := range env.Spec.Targets {
					for _, o := range t.AllOuts() {
						abs := spec.OutAbs(env.WS, t.Pkg, o.Path)
						if fi, err := os.Lstat(abs); err == nil && fi.Mode()&os.ModeSymlink != 0 && o.Kind == "file" {
							_ = os.Remove(abs)
						}
					}
				}
				onlyBytes := true
				for _, v := range vs {
					if v.Kind != "restore" && v.Kind != "bytes" {
						onlyBytes = false
					}
				}
				if onlyBytes {
					continue
				}
			}
			if len(vs) > 0 {
				break
			}
		}
		if zeroBuild && partialBuild {
			run.Nontrivial(s.Shape() + "|" + strings.Join(names, ","))
		}
		run.Sample(map[string]any{"case": i, "shape": s.Shape(), "mode": gcfg.LoadOutputs, "hash": gcfg.HashAlgorithm, "history": env.Log})
	})
	run.Assume("forced-execution reasons are model inputs; states the documented rules do not fix (e.g. after an output-less dependency changed) are 'may' and not judged")
	_ = grog.Config{}
	if report.Part("equalouts") {
		EqualOutputsPart(run, st, tierN(tier, 12, 150))
	}
	return run.Finish()
}
