package e1

import (
	"fmt"
	"os"
	"path/filepath"
	"strings"

	"vctl/internal/audit"
	"vctl/internal/grog"
	"vctl/internal/report"
	"vctl/internal/rng"
	"vctl/internal/spec"
)

// GetFaultPart: transient read faults of the local cache backend inside whole builds of the
// real binary. The N-th call of the backend's Get (target results, blobs, trees) returns an
// error - once, for a few calls, or from then on - while every entry is intact at rest (what an
// EIO, a flaky network file system or a momentarily exhausted descriptor table looks like).
// The graphs are deep (dependants of dependants), the top targets are edited so that they
// execute, and the workspace is wiped so that they have to load their dependencies' outputs.
//
// judge: "view" (a command that ran to completion saw the current outputs of its direct
// dependencies), "bytes" (a build that exits 0 left reference bytes), "crash", "hang",
// "audit" (cache at rest), "followup" (next fault-free build: exit 0, reference bytes).
func GetFaultPart(run *report.Run, st *Setup, cases, faultsPerCase int, minimalOnly bool, judge map[string]bool) {
	Parallel(cases, func(i int) {
		r := rng.Derive(uint64(run.Seed), run.Prop+"-getfault", fmt.Sprint(i))
		pf := spec.DefaultProfile()
		pf.MinTargets, pf.MaxTargets = 4, 7
		pf.EdgeProb = 60
		pf.NoCache = false
		s := spec.Gen(r, pf)
		gcfg := randCfg(r)
		if r.Chance(1, 2) {
			gcfg.NumWorkers = 1 // reproducible call order
		}
		minimal := minimalOnly || r.Chance(1, 2)
		if minimal {
			gcfg.LoadOutputs = "minimal"
		}
		env, err := NewEnv(st.Base, fmt.Sprintf("gf%d", i), st.Grog, st.Vctl, s, gcfg)
		if err != nil {
			run.Infra(err.Error())
			return
		}
		keep := false
		defer func() {
			if !keep {
				env.Cleanup()
			}
		}()
		cfg := BuildCfg{EnableCache: true, Minimal: minimal}
		if _, obs, vs, err := env.Step(BuildOpts{}, cfg, "cold", false); err != nil || len(vs) > 0 || obs.Res.Exit != 0 {
			run.Count("getfault_cases_skipped_cold_build_diverged", 1)
			return
		}
		// edit the targets nothing depends on (they will execute and need their dependencies)
		hasDependant := map[string]bool{}
		for _, t := range s.Targets {
			for _, d := range t.Deps {
				if l := s.Resolve(d); l != "" {
					hasDependant[l] = true
				}
			}
		}
		edited := 0
		for _, t := range s.Targets {
			if !hasDependant[t.Label()] && len(t.Deps) > 0 {
				tt := t
				env.Apply(func() string { tt.Salt = r.Word(4, 8); return "salt:" + tt.Label() })
				edited++
			}
		}
		if edited == 0 {
			run.Count("getfault_cases_without_a_dependant_to_edit", 1)
			return
		}
		if err := env.Sync(); err != nil {
			run.Infra(err.Error())
			return
		}
		env.WipeOutputs()
		cache := env.CacheDir()
		rootDir := filepath.Dir(cache)
		snapRoot := filepath.Join(env.Dir, "snap-root")
		snapWS := filepath.Join(env.Dir, "snap-ws")
		if copyDir(rootDir, snapRoot) != nil || copyDir(env.WS, snapWS) != nil {
			run.Infra("snapshot failed")
			return
		}
		memoSnap := map[string]string{}
		for k, v := range env.Memo {
			memoSnap[k] = v
		}
		allLost := func() {
			for mk := range env.Memo {
				env.Memo[mk] = "lost"
			}
		}
		memoBack := func() {
			env.Memo = map[string]string{}
			for mk, mv := range memoSnap {
				env.Memo[mk] = mv
			}
		}
		hookLog := filepath.Join(env.Dir, "hooks.jsonl")
		notReached := 0
		for j := 0; j < faultsPerCase && notReached < 3; j++ {
			n := r.Range(1, 30)
			var plan, span string
			switch r.Intn(3) {
			case 0:
				plan, span = fmt.Sprintf("fs.get=err:%d", n), "once"
			case 1:
				plan, span = fmt.Sprintf("fs.get=err:%d:%d", n, n+r.Range(1, 3)), "few"
			default:
				plan, span = fmt.Sprintf("fs.get=err:%d:0", n), "from-then-on"
			}
			if copyDir(snapRoot, rootDir) != nil || copyDir(snapWS, env.WS) != nil {
				run.Infra("restore failed")
				return
			}
			_ = os.Remove(hookLog)
			allLost()
			_, fobs, fvs, err := env.Step(BuildOpts{Env: []string{"GROG_VERIF_LOG=" + hookLog, "GROG_VERIF_PLAN=" + plan}}, cfg, "get-fault", false)
			if err != nil {
				run.Infra(err.Error())
				memoBack()
				return
			}
			failed := 0
			classes := map[string]bool{}
			for _, ev := range ReadHookLog(hookLog) {
				if ev.Kind == "fault" && ev.Name == "fs.get" {
					failed++
					if len(ev.KV) > 0 {
						classes[ev.KV[0]] = true
					}
				}
			}
			var cl []string
			for _, c := range []string{"target", "cas", "taint"} {
				if classes[c] {
					cl = append(cl, c)
				}
			}
			env.Logf("plan %s -> exit %d, %d Get call(s) failed (%s), executed %v", plan, fobs.Res.Exit, failed, strings.Join(cl, "+"), keys(fobs.Started))
			if failed == 0 {
				notReached++
				run.Count("getfault_runs_fault_not_reached", 1)
				memoBack()
				continue
			}
			run.Eval(1)
			run.Count("getfault_runs_judged", 1)
			run.Count("getfault_failed_get_calls", failed)
			run.Count("getfault_span:"+span, 1)
			for _, c := range cl {
				run.Count("getfault_on:"+c, 1)
			}
			if fobs.Res.Exit == 0 {
				run.Count("getfault_builds_that_exited_0", 1)
			} else {
				run.Count("getfault_builds_that_failed", 1)
			}
			mode := "all"
			if minimal {
				mode = "minimal"
			}
			run.Nontrivial(fmt.Sprintf("getfault|%s|%s|%s|%s|exit%d|%d", s.Shape(), mode, span, strings.Join(cl, "+"), fobs.Res.Exit, len(fobs.Started)))
			at := fmt.Sprintf("mode=%s on=%s", mode, strings.Join(cl, "+"))
			what := fmt.Sprintf("transient failure of %d local cache Get call(s) (%s, plan %s, load_outputs=%s)", failed, strings.Join(cl, "+"), plan, mode)
			bad := false
			for _, v := range fvs {
				k := v.Kind
				if k == "restore" {
					k = "bytes"
				}
				switch k {
				case "bytes", "view", "crash", "hang":
					if judge[k] {
						keep = !run.Violation("get-fault "+v.Sig+" "+at, what+": "+v.What, mkReplay(i, env, fobs)) || keep
						bad = true
					} else {
						run.Count("divergence_other_property:"+v.Kind, 1)
					}
				}
			}
			if bad {
				memoBack()
				return
			}
			if judge["audit"] {
				stor, _ := audit.LoadDir(cache)
				if rep := audit.Audit(stor); !rep.Clean() {
					keep = !run.Violation("get-fault cache-inconsistent "+at, what+"; afterwards the cache at rest is inconsistent: "+rep.Summary(), mkReplay(i, env, fobs)) || keep
					memoBack()
					return
				}
			}
			if judge["followup"] {
				allLost()
				_, obs2, vs2, err := env.Step(BuildOpts{}, cfg, "after-get-fault", false)
				if err != nil {
					run.Infra(err.Error())
					memoBack()
					return
				}
				run.Count("getfault_followup_builds", 1)
				if bad := auditAtRest(cache); bad != "" && judge["audit"] {
					keep = !run.Violation("followup-after-get-fault cache-inconsistent "+strings.Fields(bad)[0]+" "+at, fmt.Sprintf("%s; after the follow-up build (exit %d) the cache at rest is inconsistent: %s", what, obs2.Res.Exit, bad), mkReplay(i, env, obs2)) || keep
					memoBack()
					return
				}
				for _, v := range vs2 {
					switch v.Kind {
					case "bytes", "restore", "exit", "crash", "hang":
						keep = !run.Violation("followup-after-get-fault "+v.Sig+" "+at, what+"; the follow-up build without faults: "+v.What, mkReplay(i, env, obs2)) || keep
						memoBack()
						return
					}
				}
			}
			memoBack()
		}
		run.Sample(map[string]any{"getfault_case": i, "shape": s.Shape(), "minimal": minimal, "history": env.Log})
	})
}

var _ = grog.Config{}
