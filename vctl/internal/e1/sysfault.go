package e1

import (
	"bufio"
	"fmt"
	"os"
	"os/exec"
	"path/filepath"
	"regexp"
	"sort"
	"strings"

	"vctl/internal/audit"
	"vctl/internal/report"
	"vctl/internal/rng"
	"vctl/internal/spec"
)

// Syscall-level storage faults (hook-free): the real binary runs under `strace -f -b execve`
// (threads of grog are traced, target commands are detached at their execve and run untouched)
// and one system call of one class fails with a realistic errno at its N-th (and optionally
// every S-th later) invocation in a thread: ENOSPC on write / copy_file_range / mkdirat, EIO on
// read / getdents64 / renameat, EACCES / EMFILE on openat, ... The trace log names, for every
// injected call, the file it was aimed at (-y), so that only runs whose injected calls all hit
// the cache directory, the rest of GROG_ROOT or the workspace are judged; a fault that landed on
// a pipe, an eventfd or the terminal is not a storage fault and the run is discarded.

type scLine struct {
	tid      int
	name     string
	text     string
	injected bool
}

var reScHead = regexp.MustCompile(`^(\d+)\s+([a-z_0-9]+)\(`)
var reScResumed = regexp.MustCompile(`^(\d+)\s+<\.\.\. ([a-z_0-9]+) resumed>`)
var reFdPath = regexp.MustCompile(`\d+<([^>]*)>`)
var reQuoted = regexp.MustCompile(`"((?:[^"\\]|\\.)*)"`)

// parseStrace returns one record per system call entry (in file order), with the text of the
// completed call (unfinished + resumed parts joined).
func parseStrace(path string) []scLine {
	f, err := os.Open(path)
	if err != nil {
		return nil
	}
	defer f.Close()
	sc := bufio.NewScanner(f)
	sc.Buffer(make([]byte, 1<<20), 1<<24)
	var out []scLine
	pending := map[int]int{} // tid -> index in out of its unfinished call
	for sc.Scan() {
		line := sc.Text()
		if m := reScResumed.FindStringSubmatch(line); m != nil {
			var tid int
			fmt.Sscan(m[1], &tid)
			if i, ok := pending[tid]; ok {
				out[i].text += " " + line
				out[i].injected = out[i].injected || strings.Contains(line, "(INJECTED)")
				delete(pending, tid)
			}
			continue
		}
		if m := reScHead.FindStringSubmatch(line); m != nil {
			var tid int
			fmt.Sscan(m[1], &tid)
			out = append(out, scLine{tid: tid, name: m[2], text: line, injected: strings.Contains(line, "(INJECTED)")})
			if strings.Contains(line, "<unfinished ...>") {
				pending[tid] = len(out) - 1
			}
		}
	}
	return out
}

var fdBased = map[string]bool{"read": true, "write": true, "pread64": true, "pwrite64": true, "getdents64": true,
	"copy_file_range": true, "sendfile": true, "fsync": true, "fchmod": true, "fstat": true, "ftruncate": true}

// scTargets lists the file names a system call record refers to.
func scTargets(l scLine) []string {
	var ps []string
	if fdBased[l.name] {
		for _, m := range reFdPath.FindAllStringSubmatch(l.text, -1) {
			ps = append(ps, m[1])
		}
		return ps
	}
	for _, m := range reQuoted.FindAllStringSubmatch(l.text, -1) {
		ps = append(ps, m[1])
	}
	return ps
}

// scClass says where a call was aimed: cache | root | ws | other.
func (e *Env) scClass(l scLine) string {
	ts := scTargets(l)
	if len(ts) == 0 {
		return "other"
	}
	cache := e.CacheDir()
	best := ""
	rank := map[string]int{"": 0, "other": 1, "ws": 2, "root": 3, "cache": 4}
	for _, t := range ts {
		c := "other"
		switch {
		case !strings.HasPrefix(t, "/"):
			if fdBased[l.name] {
				c = "other" // pipe:[..], anon_inode:.., socket:..
			} else {
				c = "ws" // relative to the working directory
			}
		case strings.HasPrefix(t, cache):
			c = "cache"
		case strings.HasPrefix(t, e.M.Root):
			c = "root"
		case strings.HasPrefix(t, e.WS):
			c = "ws"
		}
		if rank[c] > rank[best] {
			best = c
		}
	}
	return best
}

type sysFaultKind struct {
	call   string
	errnos []string
	side   string // "read" | "write": which clause of the property a fault on a cache path belongs to
}

var sysFaultKinds = []sysFaultKind{
	{"write", []string{"ENOSPC", "EIO", "EDQUOT"}, "write"},
	{"copy_file_range", []string{"ENOSPC", "EIO"}, "write"},
	{"renameat", []string{"EIO", "ENOSPC", "EACCES"}, "write"},
	{"mkdirat", []string{"ENOSPC", "EACCES", "EIO"}, "write"},
	{"openat", []string{"EACCES", "EMFILE", "EIO", "ENOSPC"}, "both"},
	{"read", []string{"EIO"}, "read"},
	{"pread64", []string{"EIO"}, "read"},
	{"getdents64", []string{"EIO"}, "read"},
	{"newfstatat", []string{"EIO", "EACCES"}, "read"},
	{"unlinkat", []string{"EIO", "EACCES"}, "write"},
	{"fchmodat", []string{"EIO", "EPERM"}, "write"},
	{"fchmod", []string{"EIO", "EPERM"}, "write"},
	{"symlinkat", []string{"ENOSPC", "EIO"}, "write"},
	{"linkat", []string{"EIO", "EMLINK"}, "write"},
	{"close", []string{"EIO"}, "write"},
	{"fsync", []string{"EIO"}, "write"},
}

// eligible: is a failure of this call a storage fault this part judges? With sides["write"]
// every call aimed at the cache, GROG_ROOT or the workspace is; otherwise only calls that make
// an existing cache entry unreadable (read-side calls on cache files, opens for reading).
//
// Faults on workspace files (sources, BUILD files, output paths) are not cache faults: no
// property speaks about them. They are run at a low rate and whatever they show is recorded as a
// lead in the evidence ("lead"), never as a verdict.
func eligible(l scLine, k sysFaultKind, cls string, sides map[string]bool) string {
	if cls == "other" || cls == "" {
		return "no"
	}
	if sides["write"] {
		if cls == "ws" {
			return "lead"
		}
		return "judge"
	}
	if cls != "cache" || k.side == "write" {
		return "no"
	}
	if l.name == "openat" && !strings.Contains(l.text, "O_RDONLY") {
		return "no"
	}
	return "judge"
}

func straceAvailable() bool {
	p, err := exec.LookPath("strace")
	if err != nil {
		return false
	}
	out, err := exec.Command(p, "-f", "-b", "execve", "-o", "/dev/null", "-e", "trace=write", "-e", "inject=write:error=EIO:when=60000", "true").CombinedOutput()
	return err == nil && !strings.Contains(string(out), "PTRACE")
}

// SysFaultPart: judge selects what is decided: "audit" (cache at rest after the faulty build),
// "keys" (no target result under a key that a fault-free build of the same state does not
// write), "bytes" (a faulty build that exits 0 has reference bytes), "followup" (the next,
// fault-free build exits 0 with reference bytes), "crash" / "hang" (of the faulty build).
// sides restricts the injected calls ("read": only faults that make cache entries unreadable).
//
// "view": every command that ran to completion in the faulty build saw the current outputs of
// its direct dependencies (C15's clause under cache faults). minimal forces load_outputs=minimal
// for every case (otherwise one case in three).
func SysFaultPart(run *report.Run, st *Setup, cases, injPerCase int, sides map[string]bool, judge map[string]bool, minimal bool) {
	if !straceAvailable() {
		run.Count("sysfault_skipped(strace cannot trace here)", 1)
		return
	}
	var names []string
	for _, k := range sysFaultKinds {
		names = append(names, k.call)
	}
	traceSet := "trace=" + strings.Join(names, ",")
	Parallel(cases, func(i int) {
		r := rng.Derive(uint64(run.Seed), run.Prop+"-sysfault", fmt.Sprint(i), fmt.Sprint(sides["write"]))
		pf := spec.DefaultProfile()
		pf.MinTargets, pf.MaxTargets = 3, 6
		s := spec.Gen(r, pf)
		for k, t := range s.Targets {
			if k%2 == 1 {
				t.Outs = append(t.Outs, spec.Out{Kind: "dir", Path: fmt.Sprintf("sf%d.d", k)})
			}
			if k%3 == 0 {
				// a few MiB: its copy into / out of the cache is many system calls
				t.Outs = append(t.Outs, spec.Out{Kind: "file", Path: fmt.Sprintf("big%d.out", k)})
			}
		}
		gcfg := randCfg(r)
		if r.Chance(1, 3) || minimal {
			gcfg.LoadOutputs = "minimal"
		}
		stream := "sf"
		if !sides["write"] {
			stream = "sfr"
		}
		env, err := NewEnv(st.Base, fmt.Sprintf("%s%d", stream, i), st.Grog, st.Vctl, s, gcfg)
		if err != nil {
			run.Infra(err.Error())
			return
		}
		keep := false
		defer func() {
			if !keep {
				env.Cleanup()
			}
		}()
		// a third of the cases runs on a terminal (the interactive UI wraps the readers of the
		// output files in progress trackers)
		env.MaybeTTY(run, stream+fmt.Sprint(i), 3)
		cfg := BuildCfg{EnableCache: true, Minimal: gcfg.LoadOutputs == "minimal"}
		if _, obs, vs, err := env.Step(BuildOpts{}, cfg, "cold", false); err != nil || len(vs) > 0 || obs.Res.Exit != 0 {
			run.Count("sysfault_cases_skipped_cold_build_diverged", 1)
			return
		}
		// edits so that the faulty build mixes restores and executions; outputs wiped so that
		// restores really read the cache
		env.Apply(func() string { return OpSalt(r, env) })
		env.Apply(func() string { return OpEditFile(r, env) })
		if err := env.Sync(); err != nil {
			run.Infra(err.Error())
			return
		}
		env.WipeOutputs()
		cache := env.CacheDir()
		rootDir := filepath.Dir(cache)
		snapRoot := filepath.Join(env.Dir, "snap-root")
		snapWS := filepath.Join(env.Dir, "snap-ws")
		if copyDir(rootDir, snapRoot) != nil || copyDir(env.WS, snapWS) != nil {
			run.Infra("snapshot failed")
			return
		}
		restore := func() bool {
			return copyDir(snapRoot, rootDir) == nil && copyDir(snapWS, env.WS) == nil
		}
		memoSnap := map[string]string{}
		for k, v := range env.Memo {
			memoSnap[k] = v
		}
		allLost := func() {
			for mk := range env.Memo {
				env.Memo[mk] = "lost"
			}
		}
		memoBack := func() {
			env.Memo = map[string]string{}
			for mk, mv := range memoSnap {
				env.Memo[mk] = mv
			}
		}
		slog := filepath.Join(env.Dir, "strace.log")
		// read side only: restrict tracing (and with it the invocation counters of the injection)
		// to calls on the cache entries that exist before the build
		var pathArgs []string
		if !sides["write"] {
			_ = filepath.Walk(snapRoot, func(p string, info os.FileInfo, err error) error {
				if err == nil && info.Mode().IsRegular() {
					if rel, e2 := filepath.Rel(snapRoot, p); e2 == nil && strings.HasPrefix(rel, "cache"+string(filepath.Separator)) {
						pathArgs = append(pathArgs, "-P", filepath.Join(rootDir, rel))
					}
				}
				return nil
			})
			if len(pathArgs) > 600 {
				pathArgs = pathArgs[:600]
			}
		}
		wrapper := func(extra ...string) []string {
			w := append([]string{"strace", "-f", "-b", "execve", "-y", "-s", "0", "-o", slog, "-e", traceSet}, pathArgs...)
			return append(w, extra...)
		}
		// reference run: no injection; lists the calls and fixes the key set of this state
		_ = os.Remove(slog)
		_, obs, vs, err := env.Step(BuildOpts{Wrapper: wrapper()}, cfg, "reference-under-tracer", false)
		memoBack()
		if err != nil || obs.Res.Exit != 0 || len(vs) > 0 {
			run.Count("sysfault_cases_skipped_reference_run_diverged", 1)
			return
		}
		refKeys := map[string]bool{}
		if stor, err := audit.LoadDir(cache); err == nil {
			for k := range stor {
				if strings.HasPrefix(k, "target/") {
					refKeys[k] = true
				}
			}
		}
		type cand struct {
			kind sysFaultKind
			ord  int
			cls  string
		}
		var cands, leadCands []cand
		kindOf := map[string]sysFaultKind{}
		for _, k := range sysFaultKinds {
			kindOf[k.call] = k
		}
		ordinal := map[string]int{} // tid/name -> count
		listed := 0
		for _, l := range parseStrace(slog) {
			k, ok := kindOf[l.name]
			if !ok {
				continue
			}
			listed++
			key := fmt.Sprintf("%d/%s", l.tid, l.name)
			ordinal[key]++
			cls := env.scClass(l)
			switch eligible(l, k, cls, sides) {
			case "judge":
				cands = append(cands, cand{k, ordinal[key], cls})
			case "lead":
				leadCands = append(leadCands, cand{k, ordinal[key], cls})
			}
		}
		run.Count("sysfault_syscalls_listed_in_reference_runs", listed)
		run.Count("sysfault_candidate_calls(on cache/root/workspace files)", len(cands))
		if len(cands) == 0 {
			return
		}
		for j := 0; j < injPerCase; j++ {
			c := cands[r.Intn(len(cands))]
			if len(leadCands) > 0 && r.Chance(1, 6) {
				c = leadCands[r.Intn(len(leadCands))]
			}
			errno := rng.Pick(r, c.kind.errnos)
			when := fmt.Sprint(c.ord)
			repeated := r.Chance(1, 4)
			if repeated {
				when += fmt.Sprintf("+%d", r.Range(1, 5))
			}
			inj := fmt.Sprintf("inject=%s:error=%s:when=%s", c.kind.call, errno, when)
			what := fmt.Sprintf("%s fails with %s at invocation %s of a thread", c.kind.call, errno, when)
			// crash variant: the process is killed (SIGKILL) on entering that call - a crash point
			// at a system call boundary, also between the chunks of one copy, that no hook marks
			crashMode := sides["write"] && judge["followup"] && r.Chance(1, 5)
			if crashMode {
				errno = "SIGKILL"
				when = fmt.Sprint(c.ord)
				inj = fmt.Sprintf("inject=%s:signal=KILL:when=%s", c.kind.call, when)
				what = fmt.Sprintf("SIGKILL on entering %s at invocation %s of a thread", c.kind.call, when)
			}
			if !restore() {
				run.Infra("restore failed")
				return
			}
			_ = os.Remove(slog)
			allLost()
			var extraEnv []string
			if r.Chance(1, 3) {
				extraEnv = []string{"GOMAXPROCS=1"}
			}
			_, fobs, fvs, err := env.Step(BuildOpts{Wrapper: wrapper("-e", inj), Env: extraEnv}, cfg, "syscall-fault", false)
			if err != nil {
				run.Infra(err.Error())
				memoBack()
				return
			}
			// which calls were hit, and where
			hit := map[string]int{}
			onOther, leadRun := false, false
			var hitTexts []string
			for _, l := range parseStrace(slog) {
				if !l.injected {
					continue
				}
				cls := env.scClass(l)
				hit[cls]++
				switch eligible(l, kindOf[l.name], cls, sides) {
				case "no":
					onOther = true
				case "lead":
					leadRun = true
				}
				if len(hitTexts) < 6 {
					hitTexts = append(hitTexts, l.text)
				}
			}
			nhit := 0
			for _, n := range hit {
				nhit += n
			}
			if crashMode {
				onOther, leadRun = false, false
				hit = map[string]int{}
				nhit = 0
				if fobs.Res.Signaled {
					hit["killed-at-a-system-call"] = 1
					nhit = 1
					fvs = nil // nothing to judge about a killed build itself
					run.Count("sysfault_crash_at:"+c.kind.call, 1)
				}
			}
			env.Logf("%s -> exit %d, %d call(s) failed: %v", what, fobs.Res.Exit, nhit, hitTexts)
			if nhit == 0 {
				run.Count("sysfault_runs_no_call_hit", 1)
				memoBack()
				continue
			}
			if onOther {
				run.Count("sysfault_runs_discarded(fault landed outside the judged files)", 1)
				memoBack()
				continue
			}
			if leadRun {
				// a fault on workspace files: outside every property; recorded, not judged
				run.Count("sysfault_runs_with_faults_on_workspace_files(leads only)", 1)
				for _, v := range fvs {
					if v.Kind == "bytes" || v.Kind == "restore" || v.Kind == "crash" || v.Kind == "hang" {
						run.Count("lead_workspace_fault:"+report.Sig(c.kind.call, errno, v.Sig), 1)
					}
				}
				if stor, err := audit.LoadDir(cache); err == nil {
					for k := range stor {
						if strings.HasPrefix(k, "target/") && !refKeys[k] {
							run.Count("lead_workspace_fault:"+report.Sig(c.kind.call, errno, "result-stored-under-a-key-of-another-state"), 1)
							break
						}
					}
				}
				memoBack()
				continue
			}
			run.Eval(1)
			run.Count("sysfault_runs_judged", 1)
			for cls, n := range hit {
				run.Count("sysfault_failed_calls_on:"+cls, n)
			}
			run.Count("sysfault_call:"+c.kind.call+":"+errno, 1)
			if fobs.Res.Exit == 0 {
				run.Count("sysfault_faulty_builds_that_exited_0", 1)
			} else {
				run.Count("sysfault_faulty_builds_that_failed", 1)
			}
			run.Nontrivial(fmt.Sprintf("%s|%s|%s|%v|exit%d|%d", s.Shape(), c.kind.call, errno, repeated, fobs.Res.Exit, len(fobs.Started)))
			at := fmt.Sprintf("call=%s errno=%s on=%s", c.kind.call, errno, c.cls)
			bad := false
			for _, v := range fvs {
				switch v.Kind {
				case "bytes", "restore":
					if judge["bytes"] {
						keep = !run.Violation("syscall-fault faulty-build-exit-0 "+v.Sig+" "+at, fmt.Sprintf("%s; the build exited 0 but: %s", what, v.What), mkReplay(i, env, fobs)) || keep
						bad = true
					}
				case "view":
					if judge["view"] {
						keep = !run.Violation("syscall-fault "+v.Sig+" "+at, fmt.Sprintf("%s; %s", what, v.What), mkReplay(i, env, fobs)) || keep
						bad = true
					}
				case "crash", "hang":
					if judge[v.Kind] {
						keep = !run.Violation("syscall-fault "+v.Sig+" "+at, fmt.Sprintf("%s: %s", what, v.What), mkReplay(i, env, fobs)) || keep
						bad = true
					} else {
						run.Count("lead_faulty_build_"+v.Kind+"("+v.Sig+")", 1)
					}
				}
			}
			if bad {
				memoBack()
				return
			}
			stor, _ := audit.LoadDir(cache)
			if judge["audit"] {
				rep := audit.Audit(stor)
				run.Count("cache_entries_audited_after_syscall_faults", rep.CasOK+rep.TargetOK+len(rep.CasBad)+len(rep.TargetBad))
				if !rep.Clean() {
					kind := "cache-inconsistent-after-syscall-fault"
					detail := rep.Summary()
					switch {
					case len(rep.CasBad) > 0:
						kind += " blob-content-mismatch"
						detail += " " + rep.CasBad[0]
					case len(rep.TargetBad) > 0:
						kind += " target-result-undecodable"
						detail += " " + rep.TargetBad[0]
					default:
						kind += " dangling-reference"
						detail += " " + rep.Dangling[0]
					}
					keep = !run.Violation(kind+" "+at, fmt.Sprintf("%s; afterwards the cache at rest is inconsistent: %s", what, detail), mkReplay(i, env, fobs)) || keep
					memoBack()
					return
				}
			}
			if judge["keys"] {
				var extra []string
				for k := range stor {
					if strings.HasPrefix(k, "target/") && !refKeys[k] {
						extra = append(extra, k)
					}
				}
				sort.Strings(extra)
				run.Count("target_keys_compared_with_the_fault_free_build", len(refKeys))
				if len(extra) > 0 {
					keep = !run.Violation("syscall-fault result-under-a-key-of-another-state "+at,
						fmt.Sprintf("%s; the build stored %d target result(s) under keys that the fault-free build of the same sources never writes (%s): the key was computed from a misread state", what, len(extra), extra[0]), mkReplay(i, env, fobs)) || keep
					memoBack()
					return
				}
			}
			if judge["followup"] {
				allLost()
				_, obs2, vs2, err := env.Step(BuildOpts{}, cfg, "after-syscall-fault", false)
				if err != nil {
					run.Infra(err.Error())
					memoBack()
					return
				}
				run.Count("followup_builds_after_syscall_faults", 1)
				if bad := auditAtRest(cache); bad != "" && judge["audit"] {
					keep = !run.Violation("followup-after-syscall-fault cache-inconsistent "+strings.Fields(bad)[0]+" "+at, fmt.Sprintf("%s; after the follow-up build (exit %d) the cache at rest is inconsistent: %s", what, obs2.Res.Exit, bad), mkReplay(i, env, obs2)) || keep
					memoBack()
					return
				}
				for _, v := range vs2 {
					switch v.Kind {
					case "bytes", "restore", "exit", "crash", "hang":
						keep = !run.Violation("followup-after-syscall-fault "+v.Sig+" "+at, fmt.Sprintf("%s; the follow-up build without faults: %s", what, v.What), mkReplay(i, env, obs2)) || keep
						memoBack()
						return
					default:
						run.Count("divergence_other_property:"+v.Kind, 1)
					}
				}
			}
			memoBack()
		}
		run.Sample(map[string]any{"sysfault_case": i, "shape": s.Shape(), "candidate_calls": len(cands), "history": env.Log})
	})
}
