package e1

import (
	"fmt"
	"os"
	"sort"
	"strings"

	"vctl/internal/spec"
	"vctl/internal/tree"
)

// Class of a selected target in one build according to the reference model.
type Class int

const (
	MustNotExec Class = iota // a usable cached result exists and nothing forces execution
	MustExec                 // no result for the current state, or execution is forced
	MayExec                  // the documented rules do not fix it
	Skipped                  // a (transitive) dependency failed: must not be executed
	MaySkip                  // depends on a target whose outcome the model does not fix
)

func (c Class) String() string {
	return [...]string{"must-not-exec", "must-exec", "may-exec", "skipped", "may-skip"}[c]
}

type Pred struct {
	Selected   map[string]bool
	Class      map[string]Class
	Reason     map[string]string
	WillFail   map[string]bool // would fail if executed
	ExpectFail bool            // some must-exec target fails => exit != 0
	ExitKnown  bool
	States     map[string]*spec.TState
	Order      []string
	// TimeoutPossible: some selected target is set up to overrun its timeout attribute
	TimeoutPossible bool
}

// SelectionFor computes the set of targets a `grog build <patterns>` run from the workspace
// root selects: non-test targets matching a pattern (labels or //... or //pkg/... or //pkg:all),
// plus their dependency closure through aliases. Aliases matching a pattern select their actual.
func SelectionFor(s *spec.Spec, patterns []string, test bool) map[string]bool {
	if len(patterns) == 0 {
		patterns = []string{"//..."}
	}
	match := func(pkg, name string) bool {
		for _, p := range patterns {
			if MatchPattern(p, pkg, name) {
				return true
			}
		}
		return false
	}
	var roots []string
	for _, t := range s.Targets {
		isTest := strings.HasSuffix(t.Name, "test")
		if isTest != test {
			continue
		}
		if match(t.Pkg, t.Name) {
			roots = append(roots, t.Label())
		}
	}
	for _, a := range s.Aliases {
		if match(a.Pkg, a.Name) {
			roots = append(roots, a.Label())
		}
	}
	return s.Closure(roots)
}

// MatchPattern is the reference matcher for absolute patterns (docs/reference/labels.md).
func MatchPattern(p, pkg, name string) bool {
	if !strings.HasPrefix(p, "//") {
		return false
	}
	body := p[2:]
	tp := ""
	if i := strings.Index(body, ":"); i >= 0 {
		tp = body[i+1:]
		body = body[:i]
	}
	rec := false
	if body == "..." {
		rec, body = true, ""
	} else if strings.HasSuffix(body, "/...") {
		rec, body = true, strings.TrimSuffix(body, "/...")
	} else if tp == "" {
		// shorthand //a/b == //a/b:b
		parts := strings.Split(body, "/")
		tp = parts[len(parts)-1]
	}
	if rec {
		if body != "" && pkg != body && !strings.HasPrefix(pkg, body+"/") {
			return false
		}
	} else if pkg != body {
		return false
	}
	if tp == "" || tp == "all" || tp == "..." {
		return true
	}
	return tp == name
}

type BuildCfg struct {
	EnableCache bool
	Minimal     bool
	FailFast    bool
}

// Predict classifies every selected target for the next build.
func (e *Env) Predict(sel map[string]bool, cfg BuildCfg) (*Pred, error) {
	states, err := e.Spec.Eval()
	if err != nil {
		return nil, err
	}
	order, _ := e.Spec.Order()
	p := &Pred{Selected: sel, Class: map[string]Class{}, Reason: map[string]string{}, WillFail: map[string]bool{},
		States: states, Order: order, ExitKnown: true}
	failed := map[string]bool{} // certainly failed or skipped
	unsure := map[string]bool{} // outcome not fixed by the model
	for _, l := range order {
		if !sel[l] {
			continue
		}
		t := e.Spec.Target(l)
		st := states[l]
		depFailed, depUnsure := false, false
		for _, d := range st.DirectDeps {
			if failed[d] {
				depFailed = true
			}
			if unsure[d] {
				depUnsure = true
			}
		}
		if depFailed {
			p.Class[l] = Skipped
			failed[l] = true
			continue
		}
		if depUnsure {
			p.Class[l] = MaySkip
			unsure[l] = true
			continue
		}
		checkFails := false
		for _, c := range t.Checks {
			if !e.checkHolds(c) {
				checkFails = true
			}
		}
		willFail := t.FailExit != 0 || (t.FailIf != "" && e.markerOn(t.FailIf)) || (t.Omit != "" && t.OmitIf == "") ||
			(t.OmitIf != "" && e.markerOn(t.OmitIf) && len(t.AllOuts()) > 0) ||
			(t.SleepIf != "" && e.markerOn(t.SleepIf) && t.Timeout != "")
		if !willFail {
			// checks evaluated after execution: the command may establish the marker
			for _, c := range t.Checks {
				if !e.checkHolds(c) && t.Touch != c.Marker {
					willFail = true
				}
				if t.Untouch == c.Marker && t.UntouchIf != "" && e.markerOn(t.UntouchIf) {
					willFail = true // the command removes the marker: the check after execution fails
				}
			}
		}
		if t.SleepIf != "" && e.markerOn(t.SleepIf) && t.Timeout != "" {
			p.TimeoutPossible = true
		}
		p.WillFail[l] = willFail
		forced, why := false, ""
		switch {
		case e.Taint[l]:
			forced, why = true, "tainted"
		case t.HasTag("no-cache"):
			forced, why = true, "no-cache"
		case !cfg.EnableCache:
			forced, why = true, "cache-disabled"
		case checkFails:
			forced, why = true, "check-failing"
		}
		switch {
		case forced:
			p.Class[l] = MustExec
			p.Reason[l] = why
		case e.Memo[st.LooseKey] == "ok" && e.anyUnsureThrough(states, st.DirectDeps, 0):
			// a dependency's stored result was left by a cache-disabled build: the flavour of
			// its output hash (and with it this target's key) is not fixed by the documented rules
			p.Class[l] = MayExec
			p.Reason[l] = "rules-silent"
		case e.Memo[st.LooseKey] == "ok" && !e.DefSeen[st.LooseKey+"|"+st.Written]:
			// same command, inputs and dependency outputs as a cached state, but the dependency
			// list is written differently (a label replaced by or added next to an alias of the
			// same target): that is a change of the definition, grog may key on it
			p.Class[l] = MayExec
			p.Reason[l] = "dependency-list-rewritten"
		case e.Memo[st.LooseKey] == "ok":
			p.Class[l] = MustNotExec
			p.Reason[l] = "cached"
		case e.Memo[st.LooseKey] == "lost" || e.Strict[st.StrictKey]:
			p.Class[l] = MayExec
			p.Reason[l] = "rules-silent"
		default:
			p.Class[l] = MustExec
			p.Reason[l] = "no-result-for-state"
		}
		switch p.Class[l] {
		case MustExec:
			if willFail {
				failed[l] = true
				p.ExpectFail = true
			}
		case MayExec:
			if willFail {
				unsure[l] = true
				p.ExitKnown = false
			}
		}
	}
	return p, nil
}

// Commit updates memo and taint after a build, given what was observed to have executed.
func (e *Env) Commit(p *Pred, o *Obs, cfg BuildCfg) {
	// keys of this build were computed from the dependency results as they were when the
	// build started (a dependency may be re-run later in the same build under minimal)
	unsureAtStart := map[string]bool{}
	for k, v := range e.Unsure {
		unsureAtStart[k] = v
	}
	for _, l := range p.Order {
		if !p.Selected[l] {
			continue
		}
		st := p.States[l]
		t := e.Spec.Target(l)
		ran := o.Ended[l] > 0
		cls := p.Class[l]
		if cls == MustNotExec && !ran {
			delete(e.Pending, l) // decided (and judged) as a restore: nothing is pending any more
		}
		if cls == Skipped || cls == MaySkip || cls == MustNotExec {
			if cls == MaySkip && ran && !p.WillFail[l] {
				// executed after all
			} else {
				continue
			}
		}
		if !ran && cls == MayExec && p.Reason[l] == "dependency-list-rewritten" {
			e.DefSeen[st.LooseKey+"|"+st.Written] = true // grog answered: this spelling is the cached one
		}
		if !ran || p.WillFail[l] {
			continue
		}
		e.DefSeen[st.LooseKey+"|"+st.Written] = true
		delete(e.Taint, l)
		delete(e.Pending, l)
		e.LastViews[l] = append([]spec.DepView{}, st.Views...)
		// A result written by a cache-disabled build carries an output hash of a different
		// flavour; dependants keyed on it are not fixed by the documented rules either.
		depUnsure := false
		for _, d := range st.DirectDeps {
			if unsureAtStart[d] {
				depUnsure = true
			}
		}
		if !t.HasTag("no-cache") {
			e.Unsure[l] = !cfg.EnableCache
		}
		if cfg.EnableCache && !t.HasTag("no-cache") && !(cfg.FailFast && p.ExpectFail) && !depUnsure {
			e.Memo[st.LooseKey] = "ok"
			e.Strict[st.StrictKey] = true
		} else {
			e.Memo[st.LooseKey] = "lost"
			e.Strict[st.StrictKey] = true
		}
	}
}

// Violation is one disagreement between grog and the reference model.
type Violation struct {
	Kind string // exec | once | outside | exit | bytes | restore | view | crash | hang | anomaly
	Sig  string
	What string
}

// Judge compares an observation with the prediction.
func (e *Env) Judge(p *Pred, o *Obs, cfg BuildCfg, extCause string) []Violation {
	var vs []Violation
	if c := o.Res.Crashed(); c != "" {
		vs = append(vs, Violation{"crash", "crash " + crashSite(o.Res.Stderr+o.Res.Stdout, c), "grog crashed: " + c})
		return vs
	}
	if o.Res.Signaled && o.Res.Exit == 137 && !o.Res.TimedOut {
		// SIGKILL from outside (the harness kills only after a time-out, a plan's kill action is
		// not used with Judge): out-of-memory killer or another process on the machine. Says
		// nothing about the property; the caller abandons the history.
		return []Violation{{"external-kill", "external-kill", "grog was killed by a SIGKILL that neither grog nor the harness sent"}}
	}
	if o.Res.TimedOut {
		k := "slow"
		if o.Res.Hang {
			k = "hang"
		}
		if os.Getenv("VERIF_DEBUG") != "" {
			_ = os.WriteFile("/var/tmp/verif-last-hang-dump.txt", []byte(o.Res.Dump), 0644)
		}
		vs = append(vs, Violation{k, k + " " + hangSite(o.Res.Dump), "grog did not exit within the cap"})
		return vs
	}
	if !p.TimeoutPossible && strings.Contains(o.Res.Stdout+o.Res.Stderr, "WaitDelay expired before I/O complete") {
		// grog gives a finished command one second (wall clock) to have its output drained; on a
		// machine loaded far beyond its cores the drain itself can take longer, and grog then fails
		// a command that exited 0. Nothing here injects that: not judged, like a load-induced timeout.
		return []Violation{{"load-timeout", "load-timeout", "a command without a background child had its output pipes open for longer than grog's one-second grace (machine load)"}}
	}
	if !p.TimeoutPossible && strings.Contains(o.Res.Stdout+o.Res.Stderr, "timeout after ") {
		// A `timeout` attribute is a wall-clock deadline: on a loaded machine a command that
		// normally takes milliseconds can overrun it. That says nothing about the property;
		// the caller abandons the history (and reports inconclusive if it happens often).
		return []Violation{{"load-timeout", "load-timeout", "a command without an injected delay overran its timeout attribute (machine load)"}}
	}
	for _, a := range o.Anom {
		vs = append(vs, Violation{"anomaly", "helper-anomaly " + strings.Fields(a)[len(strings.Fields(a))-1], "command helper anomaly: " + a})
	}
	var labels []string
	for l := range o.Started {
		labels = append(labels, l)
	}
	sort.Strings(labels)
	for _, l := range labels {
		if !p.Selected[l] {
			vs = append(vs, Violation{"outside", "exec-outside-selection", fmt.Sprintf("%s executed but is not in the selection closure", l)})
		}
	}
	sel := make([]string, 0, len(p.Selected))
	for _, l := range p.Order { // dependencies first: the first disagreement is the root one
		if p.Selected[l] {
			sel = append(sel, l)
		}
	}
	for _, l := range sel {
		c := o.Started[l]
		t := e.Spec.Target(l)
		cause := e.Cause(l)
		if extCause != "" {
			cause = extCause
		}
		switch p.Class[l] {
		case MustNotExec:
			if c > 0 {
				vs = append(vs, Violation{"exec", fmt.Sprintf("unexpected-exec cause=%s", cause),
					fmt.Sprintf("%s executed although a result for its current state is cached and nothing forces execution (cause applied by the harness: %s)", l, cause)})
			}
		case MustExec:
			if c == 0 && !(cfg.FailFast && p.ExpectFail) {
				vs = append(vs, Violation{"exec", fmt.Sprintf("missing-exec reason=%s cause=%s", p.Reason[l], cause),
					fmt.Sprintf("%s was not executed although the model requires it (%s; cause: %s)", l, p.Reason[l], cause)})
			}
		case Skipped:
			if c > 0 {
				vs = append(vs, Violation{"exec", "exec-after-dep-failure", fmt.Sprintf("%s executed although a dependency failed", l)})
			}
		}
		if c > 1 {
			tag := ""
			if t != nil && t.HasTag("no-cache") {
				tag = " no-cache"
			}
			mode := "all"
			if cfg.Minimal {
				mode = "minimal"
			}
			vs = append(vs, Violation{"once", fmt.Sprintf("executed-twice mode=%s%s", mode, tag), fmt.Sprintf("%s executed %d times in one build", l, c)})
		}
	}
	// exit status
	if p.ExitKnown {
		if p.ExpectFail && o.Res.Exit == 0 {
			vs = append(vs, Violation{"exit", "exit-zero-despite-failure", "grog exited 0 although a target must fail"})
		}
		if !p.ExpectFail && o.Res.Exit != 0 && len(vs) == 0 {
			vs = append(vs, Violation{"exit", "exit-nonzero-without-failure", fmt.Sprintf("grog exited %d although no target fails in the model; stderr tail: %s", o.Res.Exit, tail(o.Res.Stderr+o.Res.Stdout, 400))})
		}
	}
	// dependency views recorded by commands that ran to completion
	for _, l := range sel {
		for _, v := range o.Views[l] {
			exp := expectedViews(p.States[l])
			if v != exp {
				mode := "all"
				if cfg.Minimal {
					mode = "minimal"
				}
				vs = append(vs, Violation{"view", fmt.Sprintf("dep-view-mismatch mode=%s %s", mode, viewDiffKind(e.Spec, l, exp, v)),
					fmt.Sprintf("%s ran but saw dependency outputs %q, expected %q", l, v, exp)})
			}
		}
	}
	// bytes
	if o.Res.Exit == 0 && !p.ExpectFail {
		for _, l := range sel {
			t := e.Spec.Target(l)
			st := p.States[l]
			executed := o.Ended[l] > 0
			if cfg.Minimal && !executed {
				continue
			}
			if p.Class[l] == Skipped || p.Class[l] == MaySkip {
				continue
			}
			cause := e.Cause(l)
			if extCause != "" {
				cause = extCause
			}
			for _, out := range t.AllOuts() {
				want := st.Outs[out.Path]
				got := e.OutTree(t, out)
				d := tree.Diff(want, got)
				if len(d) == 0 {
					continue
				}
				prov := Provenance(got)
				comp := provDiff(prov, t, st)
				how := "restored"
				if executed {
					how = "executed"
				}
				if comp != "" && !executed {
					if strings.Contains(comp, "dep-outputs") {
						comp += " " + e.depRelation(l, st)
					}
					vs = append(vs, Violation{"bytes", fmt.Sprintf("stale-output diff={%s} cause=%s", comp, cause),
						fmt.Sprintf("%s output %s was served from a state that differs in {%s}: %v", l, out.Path, comp, d)})
				} else if !executed {
					vs = append(vs, Violation{"restore", fmt.Sprintf("restore-inexact kind=%s out=%s cause=%s", tree.DiffKinds(d), out.Kind, cause),
						fmt.Sprintf("%s output %s (%s) differs from what was cached: %v", l, out.Path, how, d)})
				} else {
					vs = append(vs, Violation{"bytes", fmt.Sprintf("wrong-output-after-exec diff={%s} kind=%s", comp, tree.DiffKinds(d)),
						fmt.Sprintf("%s output %s differs from the model after execution: %v", l, out.Path, d)})
				}
				break
			}
		}
	}
	return vs
}

func tail(s string, n int) string {
	if len(s) > n {
		s = s[len(s)-n:]
	}
	return strings.ReplaceAll(s, "\n", " | ")
}

func expectedViews(st *spec.TState) string {
	var xs []string
	for _, v := range st.Views {
		xs = append(xs, v.Label+"|"+v.Path+"|"+v.Digest)
	}
	// act appends views in dependency declaration order; compare as sets
	sort.Strings(xs)
	return strings.Join(xs, ";")
}

func viewDiffKind(s *spec.Spec, label, exp, got string) string {
	e := map[string]string{}
	for _, x := range strings.Split(exp, ";") {
		f := strings.Split(x, "|")
		if len(f) == 3 {
			e[f[0]+"|"+f[1]] = f[2]
		}
	}
	kinds := map[string]bool{}
	t := s.Target(label)
	viaAlias := map[string]bool{}
	for _, d := range t.Deps {
		if s.Target(d) == nil {
			viaAlias[s.Resolve(d)] = true
		}
	}
	for _, x := range strings.Split(got, ";") {
		f := strings.Split(x, "|")
		if len(f) != 3 {
			continue
		}
		if e[f[0]+"|"+f[1]] != f[2] {
			k := "stale"
			if f[2] == "MISSING" {
				k = "missing"
			}
			if viaAlias[f[0]] {
				k += "-via-alias"
			}
			if dt := s.Target(f[0]); dt != nil && dt.HasTag("no-cache") {
				k += "-no-cache-dep"
			}
			kinds[k] = true
		}
	}
	var ks []string
	for k := range kinds {
		ks = append(ks, k)
	}
	sort.Strings(ks)
	return "dep=" + strings.Join(ks, "+")
}

func provDiff(prov map[string]string, t *spec.Target, st *spec.TState) string {
	if prov == nil {
		return ""
	}
	var c []string
	if prov["salt"] != t.Salt {
		c = append(c, "command")
	}
	if prov["in"] != st.IN {
		c = append(c, "inputs")
	}
	if prov["dep"] != st.DEP {
		c = append(c, "dep-outputs")
	}
	return strings.Join(c, ",")
}

func crashSite(stderr, first string) string {
	kind := "panic"
	if strings.Contains(first, "fatal error") {
		kind = strings.ReplaceAll(strings.TrimPrefix(first, "fatal error: "), " ", "-")
	}
	// first grog frame
	for _, line := range strings.Split(stderr, "\n") {
		line = strings.TrimSpace(line)
		if strings.HasPrefix(line, "grog/internal/") {
			fn := line
			if i := strings.LastIndex(line, "("); i > 0 {
				fn = line[:i]
			}
			return kind + " site=" + strings.TrimPrefix(fn, "grog/internal/")
		}
	}
	return kind
}

func hangSite(dump string) string {
	// innermost grog frame of every blocked goroutine, ranked: the more specific package wins
	rank := func(fn string) int {
		switch {
		case strings.HasPrefix(fn, "output/"):
			return 5
		case strings.HasPrefix(fn, "caching/"):
			return 4
		case strings.HasPrefix(fn, "execution."):
			return 3
		case strings.HasPrefix(fn, "worker."):
			return 2
		case strings.HasPrefix(fn, "dag."):
			return 1
		}
		return 0
	}
	best, bestRank := "unknown", -1
	for _, b := range strings.Split(dump, "\n\n") {
		head := strings.SplitN(b, "\n", 2)[0]
		if !strings.Contains(head, "[chan ") && !strings.Contains(head, "[select") && !strings.Contains(head, "[sync.") && !strings.Contains(head, "[semacquire") {
			continue
		}
		kind := head[strings.Index(head, "[")+1:]
		if i := strings.IndexAny(kind, ",]"); i > 0 {
			kind = kind[:i]
		}
		for _, line := range strings.Split(b, "\n") {
			line = strings.TrimSpace(line)
			if !strings.HasPrefix(line, "grog/internal/") || strings.Contains(line, "console") || strings.Contains(line, "verifhook") {
				continue
			}
			fn := strings.TrimPrefix(line, "grog/internal/")
			if i := strings.LastIndex(fn, "("); i > 0 {
				fn = fn[:i]
			}
			if strings.Contains(fn, "cmds.") {
				break
			}
			r := rank(fn) * 2
			if strings.HasPrefix(kind, "chan") || strings.HasPrefix(kind, "select") {
				r++ // the goroutine stuck on a channel is the cause, the WaitGroup waiter the effect
			}
			cand := fn + "[" + strings.ReplaceAll(kind, " ", "-") + "]"
			if r > bestRank || (r == bestRank && cand < best) {
				best, bestRank = cand, r
			}
			break // innermost grog frame only
		}
	}
	return "site=" + best
}

// depRelation says through which kind of edge the dependency outputs that changed since the
// target's last execution reach it.
func (e *Env) depRelation(l string, st *spec.TState) string {
	old := map[string]string{}
	for _, v := range e.LastViews[l] {
		old[v.Label+"|"+v.Path] = v.Digest
	}
	t := e.Spec.Target(l)
	direct := map[string]bool{}
	for _, d := range t.Deps {
		if e.Spec.Target(d) != nil {
			direct[d] = true
		}
	}
	kinds := map[string]bool{}
	for _, v := range st.Views {
		if old[v.Label+"|"+v.Path] != v.Digest {
			if direct[v.Label] {
				kinds["direct"] = true
			} else {
				kinds["alias"] = true
			}
		}
	}
	cur := map[string]bool{}
	for _, v := range st.Views {
		cur[v.Label+"|"+v.Path] = true
	}
	for k := range old {
		if !cur[k] {
			kinds["removed"] = true
		}
	}
	var ks []string
	for k := range kinds {
		ks = append(ks, k)
	}
	sort.Strings(ks)
	return "via=" + strings.Join(ks, "+")
}

// anyUnsureThrough: like anyUnsure, and also through dependencies without outputs: such a target
// exposes its own key as its "output", so whatever is not fixed about its key (a dependency of
// its own recorded by a cache-disabled build) is not fixed about its dependants' keys either.
func (e *Env) anyUnsureThrough(states map[string]*spec.TState, deps []string, depth int) bool {
	for _, d := range deps {
		if e.Unsure[d] {
			return true
		}
		t := e.Spec.Target(d)
		if t == nil || len(t.AllOuts()) > 0 || states[d] == nil || depth > 64 {
			continue
		}
		if e.anyUnsureThrough(states, states[d].DirectDeps, depth+1) {
			return true
		}
	}
	return false
}

func (e *Env) anyUnsure(deps []string) bool {
	for _, d := range deps {
		if e.Unsure[d] {
			return true
		}
	}
	return false
}

// LoadTimeout reports whether a judgement was abandoned because a command without an injected
// delay overran its timeout attribute.
func LoadTimeout(vs []Violation) bool {
	for _, v := range vs {
		if v.Kind == "load-timeout" {
			return true
		}
	}
	return false
}
