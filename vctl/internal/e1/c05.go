package e1

import (
	"fmt"
	"os"
	"path/filepath"
	"sort"
	"strings"
	"sync/atomic"
	"vctl/internal/grog"

	"vctl/internal/report"
	"vctl/internal/rng"
	"vctl/internal/spec"
)

// injectFailures makes a random non-empty subset of targets fail, by different mechanisms.
func injectFailures(r *rng.R, s *spec.Spec, e *Env, timeoutPct int) map[string]string {
	kinds := map[string]string{}
	n := r.Range(1, max(1, len(s.Targets)/3))
	idx := make([]int, len(s.Targets))
	for i := range idx {
		idx[i] = i
	}
	rng.Shuffle(r, idx)
	for _, i := range idx[:n] {
		t := s.Targets[i]
		kind := r.Intn(6)
		if r.Intn(100) < timeoutPct {
			kind = 3
		}
		switch kind {
		case 5:
			// exits 0 but removes the marker its own output check asserts (the check passed
			// when the build started)
			m := "markers/okb_" + t.MID()
			t.Checks = append(t.Checks, spec.Check{Marker: m, Shape: rng.Pick(r, []string{"", "and"})})
			t.Untouch, t.UntouchIf = m, "markers/break_"+t.MID()
			kinds[t.Label()] = "failing-output-check(broken-by-the-command)"
			addPassingChecks(r, t)
		case 0:
			t.FailIf = "markers/fail_" + t.MID()
			kinds[t.Label()] = "exit-nonzero"
		case 1:
			if len(t.AllOuts()) == 0 {
				t.FailIf = "markers/fail_" + t.MID()
				kinds[t.Label()] = "exit-nonzero"
			} else {
				t.OmitIf = "markers/omit_" + t.MID()
				t.Dangle = r.Chance(1, 3)
				if outs := t.AllOuts(); len(outs) >= 2 && r.Chance(1, 2) {
					// only one of the declared outputs goes missing
					t.Omit = outs[r.Intn(len(outs))].Path
				}
				kinds[t.Label()] = "missing-declared-output"
			}
		case 2:
			t.Checks = append(t.Checks, spec.Check{Marker: "markers/ok_" + t.MID(), Shape: rng.Pick(r, []string{"", "", "and", "nosete"})})
			kinds[t.Label()] = "failing-output-check"
			addPassingChecks(r, t)
		case 3:
			t.SleepIf = "markers/slow_" + t.MID()
			t.Timeout = "3s"
			kinds[t.Label()] = "timeout"
			switch r.Intn(4) {
			case 0:
				t.TrapExit0 = true // answers SIGTERM with exit 0
				kinds[t.Label()] = "timeout(shell-exits-0-on-TERM)"
			case 1:
				t.TrapTerm = true // ignores SIGTERM
				kinds[t.Label()] = "timeout(shell-ignores-TERM)"
			case 2:
				t.BgHold = 150 // a background child outlives the timeout (and the build) and holds the output pipes
				kinds[t.Label()] = "timeout(background-child-holds-the-pipes)"
			}
		default:
			t.FailIf = "markers/fail_" + t.MID()
			kinds[t.Label()] = "exit-nonzero"
		}
	}
	// generous timeouts on healthy targets: the attribute must not change when they may start
	for _, t := range s.Targets {
		if kinds[t.Label()] == "" && r.Chance(1, 2) {
			t.Timeout = "45s"
		}
	}
	return kinds
}

// addPassingChecks surrounds a failing check with checks that pass (before it, after it, or
// both): every check counts, not the first or the last one.
func addPassingChecks(r *rng.R, t *spec.Target) {
	mk := func(j int) spec.Check {
		c := spec.Check{Marker: fmt.Sprintf("markers/pass%d_%s", j, t.MID()), Shape: rng.Pick(r, []string{"", "and"})}
		if r.Chance(1, 3) {
			c.Expected = "ok"
		}
		return c
	}
	switch r.Intn(4) {
	case 0:
		t.Checks = append(t.Checks, mk(1))
	case 1:
		t.Checks = append([]spec.Check{mk(1)}, t.Checks...)
	case 2:
		t.Checks = append(append([]spec.Check{mk(1)}, t.Checks...), mk(2))
	}
}

func setFailureMarkers(e *Env, s *spec.Spec, failing bool) {
	for _, t := range s.Targets {
		if t.FailIf != "" {
			e.SetMarker(t.FailIf, failing)
		}
		if t.OmitIf != "" {
			e.SetMarker(t.OmitIf, failing)
		}
		if t.SleepIf != "" {
			e.SetMarker(t.SleepIf, failing)
		}
		for _, c := range t.Checks {
			if c.Marker == t.Untouch || strings.HasPrefix(c.Marker, "markers/pass") {
				e.SetMarker(c.Marker, true) // holds when the build starts (the command may break it)
				continue
			}
			e.SetMarker(c.Marker, !failing)
		}
		if t.UntouchIf != "" {
			e.SetMarker(t.UntouchIf, failing)
		}
	}
}

// C05Part is the process-level part of C05 (the report is owned by the caller).
func C05Part(run *report.Run, st *Setup, tier string) {
	FailurePatternPart(run, st, tierN(tier, 48, 600), "C05", map[string]bool{"exec": true, "exit": true})
	FailingRerunPart(run, st, tierN(tier, 12, 120))
	UncachedOmitPart(run, st, tierN(tier, 16, 96))
}

// FailurePatternPart: random failing subsets x failure kinds x keep-going / fail-fast over three
// builds (two failing, one after the causes were removed); judge selects what the caller judges
// (C05: executed sets and exit status; C04: termination - hang and crash).
func FailurePatternPart(run *report.Run, st *Setup, n int, stream string, judge map[string]bool) {
	var abandoned atomic.Int32
	Parallel(n, func(i int) {
		r := rng.Derive(uint64(run.Seed), stream, fmt.Sprint(i))
		pf := spec.DefaultProfile()
		pf.MinTargets, pf.MaxTargets, pf.EdgeProb, pf.SleepMs = 5, 12, 30, 40
		// a third of the histories is driven through `grog test` (test targets and their
		// dependency closure): containment, exit status and retries are the same there
		viaTest := r.Chance(1, 3)
		pf.Tests = viaTest
		// a third of the histories has targets that bypass the cache (no-cache tag): whether
		// their declared outputs exist is established on another path
		pf.NoCache = !viaTest && r.Chance(1, 3)
		s := spec.Gen(r, pf)
		if !viaTest {
			RepeatDeps(r, s, run)
		}
		if viaTest {
			n := 0
			for _, t := range s.Targets {
				if strings.HasSuffix(t.Name, "test") {
					n++
				}
			}
			if n == 0 {
				viaTest = false
			} else {
				run.Count("histories_driven_through_grog_test", 1)
			}
		}
		buildOpts := BuildOpts{}
		if viaTest {
			buildOpts.Cmd = "test"
		}
		gcfg := randCfg(r)
		failFast := r.Chance(1, 3)
		gcfg.FailFast = failFast
		env, err := NewEnv(st.Base, fmt.Sprintf("c%d", i), st.Grog, st.Vctl, s, gcfg)
		if err != nil {
			run.Infra(err.Error())
			return
		}
		env.MaybeTTY(run, fmt.Sprint(i), 4)
		keep := false
		defer func() {
			if !keep {
				env.Cleanup()
			}
		}()
		hookLog := filepath.Join(env.Dir, "hooks.jsonl")
		env.M.ExtraEnv = append(env.M.ExtraEnv, "GROG_VERIF_LOG="+hookLog)
		timeoutPct := 0
		if !judge["exec"] {
			timeoutPct = 40 // termination is the subject: timeouts are the failure mode that involves the context machinery
		}
		kinds := injectFailures(r, s, env, timeoutPct)
		setFailureMarkers(env, s, true)
		// sometimes warm the cache first with a successful build, so that failing targets have
		// an older successful entry for a different state
		cfg := BuildCfg{EnableCache: true, FailFast: failFast}
		var fl []string
		for l, k := range kinds {
			fl = append(fl, l+"="+k)
		}
		sort.Strings(fl)
		for _, k := range kinds {
			run.Count("injected_failure_kind:"+k, 1)
		}
		env.Logf("failing: %v fail_fast=%v", fl, failFast)
		// In half of the histories the cache is warmed first by a build in which nothing fails:
		// every failing target then has a cached result for exactly its current state and only
		// executes because it is tainted (or its command changed). A failed execution must
		// neither consume the taint nor fall back to the older result.
		if r.Chance(1, 2) {
			setFailureMarkers(env, s, false)
			if _, obs, vs, err := env.Step(buildOpts, BuildCfg{EnableCache: true}, "warm", viaTest); err != nil || len(vs) > 0 || obs.Res.Exit != 0 {
				run.Count("histories_abandoned(warming build diverged)", 1)
				return
			}
			var tl []string
			for l := range kinds {
				if r.Chance(2, 3) {
					tl = append(tl, l)
				} else {
					t := s.Target(l)
					env.Apply(func() string { t.Salt = r.Word(4, 8); return "command-change" })
				}
			}
			sort.Strings(tl)
			if len(tl) > 0 {
				if env.RunTaint(tl).Exit != 0 {
					run.Infra("grog taint failed")
					return
				}
				for _, l := range tl {
					env.Taint[l] = true
				}
			}
			run.Count("histories_with_warm_cache_and_tainted_failing_targets", 1)
			setFailureMarkers(env, s, true)
		}
		report1 := func(v Violation, obs *Obs) {
			keep = !run.Violation(v.Sig, v.What, mkReplay(i, env, obs)) || keep
		}
		nontrivial := false
		for phase := 0; phase < 3; phase++ {
			if phase == 2 {
				setFailureMarkers(env, s, false)
				env.Logf("failure causes removed")
			} else if phase == 1 {
				setFailureMarkers(env, s, true) // conditions broken by commands hold again at the start
			}
			_ = os.Remove(hookLog)
			p, obs, vs, err := env.Step(buildOpts, cfg, fmt.Sprintf("phase%d", phase), viaTest)
			if err != nil {
				run.Infra(err.Error())
				return
			}
			if LoadTimeout(vs) {
				run.Count("histories_abandoned_after_load_induced_timeout", 1)
				if abandoned.Add(1) > 3 {
					run.Inconclusive("more than 3 histories hit a timeout attribute without an injected delay (machine too loaded to judge)")
				}
				return
			}
			run.Eval(1)
			run.Count("builds", 1)
			bad := false
			for _, v := range vs {
				switch {
				case judge[v.Kind]:
					report1(v, obs)
					bad = true
				default:
					run.Count("divergence_other_property:"+v.Kind, 1)
					Debugf("case %d: other-property divergence %s: %s | %s", i, v.Kind, v.Sig, v.What)
					bad = true
				}
			}
			// failed targets must be named in grog's output
			if p.ExpectFail && !bad && judge["exit"] {
				out := obs.Res.Stdout + obs.Res.Stderr
				nfail, nskip, nbuilt := 0, 0, 0
				for l := range p.Selected {
					switch {
					case p.Class[l] == MustExec && p.WillFail[l]:
						nfail++
						if obs.Started[l] > 0 && !strings.Contains(out, l) && !failFast {
							report1(Violation{"exit", "failed-target-not-named kind=" + kinds[l], fmt.Sprintf("%s failed (%s) but is not named in grog's output", l, kinds[l])}, obs)
							bad = true
						}
					case p.Class[l] == Skipped:
						nskip++
					case obs.Started[l] > 0 || p.Class[l] == MustNotExec:
						nbuilt++
					}
				}
				run.Count("targets_failed", nfail)
				run.Count("dependants_skipped", nskip)
				run.Count("unaffected_built", nbuilt)
				if nfail > 0 && nskip > 0 && nbuilt > 0 {
					nontrivial = true
				}
				if failFast {
					evs := ReadHookLog(hookLog)
					found, after := StartedAfter(evs, "walk.failfast", obs.Started)
					run.Count("hook_events", len(evs))
					if found {
						run.Count("failfast_observed", 1)
						for _, l := range after {
							report1(Violation{"exec", "started-after-failfast", fmt.Sprintf("%s was started after fail-fast cancelled the build", l)}, obs)
							bad = true
						}
					}
				}
			}
			if bad {
				break
			}
		}
		if nontrivial {
			run.Nontrivial(fmt.Sprintf("%s|%v|ff=%v", s.Shape(), fl, failFast))
		}
		run.Sample(map[string]any{"case": i, "shape": s.Shape(), "failing": fl, "fail_fast": failFast, "history": env.Log})
	})
}

// FailingRerunPart (C05, load_outputs=minimal): a cached dependency whose blobs are lost has
// to be re-run when its dependants execute; this time its command exits 0 without creating its
// declared outputs, i.e. it fails. None of its 2-4 dependants may execute - neither the first
// one that asks for it nor the later ones - the build must exit non-zero, and the next build
// (cause removed) must build everything.
func FailingRerunPart(run *report.Run, st *Setup, n int) {
	Parallel(n, func(i int) {
		r := rng.Derive(uint64(run.Seed), "C05-failing-rerun", fmt.Sprint(i))
		nd := r.Range(2, 4)
		s := &spec.Spec{Files: map[string]string{"p/d.txt": "d1\n", "p/u.txt": "u1\n"}}
		dep := &spec.Target{Pkg: "p", Name: "dep", Salt: r.Word(4, 8), Inputs: []string{"d.txt"},
			Outs: []spec.Out{{Kind: "file", Path: "dep.out"}}, OmitIf: "markers/omit_dep"}
		if r.Chance(1, 2) {
			dep.Outs = append(dep.Outs, spec.Out{Kind: "dir", Path: "dep.d"})
			if r.Chance(1, 2) {
				dep.Omit = "dep.d" // only one of the declared outputs goes missing
			}
		}
		dep.Dangle = r.Chance(1, 3)
		s.Targets = append(s.Targets, dep)
		for k := 0; k < nd; k++ {
			u := &spec.Target{Pkg: "p", Name: fmt.Sprintf("u%d", k), Salt: r.Word(4, 8), Inputs: []string{"u.txt"}, Deps: []string{"//p:dep"},
				Outs: []spec.Out{{Kind: "file", Path: fmt.Sprintf("u%d.out", k)}}, SleepMs: r.Intn(40)}
			s.Targets = append(s.Targets, u)
		}
		gcfg := grog.Config{NumWorkers: r.Range(1, 4), LoadOutputs: "minimal", FailFast: r.Chance(1, 4)}
		env, err := NewEnv(st.Base, fmt.Sprintf("fr%d", i), st.Grog, st.Vctl, s, gcfg)
		if err != nil {
			run.Infra(err.Error())
			return
		}
		keep := false
		defer func() {
			if !keep {
				env.Cleanup()
			}
		}()
		cfg := BuildCfg{EnableCache: true, Minimal: true, FailFast: gcfg.FailFast}
		if _, obs, vs, err := env.Step(BuildOpts{}, cfg, "cold", false); err != nil || len(vs) > 0 || obs.Res.Exit != 0 {
			run.Count("failing_rerun_cases_skipped_cold_build_diverged", 1)
			return
		}
		// the dependants change, the dependency stays cached but loses its blobs and its outputs
		env.Apply(func() string { s.Files["p/u.txt"] = "u2\n"; return "file-edit" })
		if err := env.Sync(); err != nil {
			run.Infra(err.Error())
			return
		}
		env.WipeOutputs()
		lost := 0
		if ents, err := os.ReadDir(filepath.Join(env.CacheDir(), "cas")); err == nil {
			for _, en := range ents {
				if os.Remove(filepath.Join(env.CacheDir(), "cas", en.Name())) == nil {
					lost++
				}
			}
		}
		env.SetMarker("markers/omit_dep", true)
		env.Logf("dependants edited, workspace wiped, %d blobs lost (results kept), the dependency's command will now leave a declared output missing", lost)
		obs := env.RunBuild(BuildOpts{})
		run.Eval(1)
		run.Count("failing_rerun_builds", 1)
		run.Count("dependency_reruns_that_failed", obs.Started["//p:dep"])
		if obs.Res.Crashed() != "" || obs.Res.TimedOut {
			run.Count("divergence_other_property:crash-or-hang", 1)
			return
		}
		var ran []string
		for k := 0; k < nd; k++ {
			if l := fmt.Sprintf("//p:u%d", k); obs.Started[l] > 0 {
				ran = append(ran, l)
			}
		}
		if obs.Started["//p:dep"] > 0 {
			run.Nontrivial(fmt.Sprintf("failing-rerun|%d|w%d|ff=%v|%d", nd, gcfg.NumWorkers, gcfg.FailFast, len(dep.Outs)))
		}
		if len(ran) > 0 {
			keep = !run.Violation("exec-after-dep-failure dependency-rerun-failed mode=minimal",
				fmt.Sprintf("the re-run of //p:dep failed (declared output missing) but its dependants %v executed", ran), mkReplay(i, env, obs)) || keep
			return
		}
		if obs.Started["//p:dep"] > 0 && obs.Res.Exit == 0 {
			keep = !run.Violation("exit-zero-despite-failure dependency-rerun-failed mode=minimal", "the re-run of //p:dep failed but grog exited 0", mkReplay(i, env, obs)) || keep
			return
		}
		// cause removed: everything is attempted again and built
		env.SetMarker("markers/omit_dep", false)
		obs2 := env.RunBuild(BuildOpts{})
		run.Eval(1)
		if obs2.Res.Exit != 0 {
			keep = !run.Violation("followup-build-fails dependency-rerun-failed mode=minimal", "after the failure cause was removed the next build still fails: "+tail(obs2.Res.Stdout+obs2.Res.Stderr, 300), mkReplay(i, env, obs2)) || keep
			return
		}
		for k := 0; k < nd; k++ {
			if l := fmt.Sprintf("//p:u%d", k); obs2.Started[l] == 0 {
				keep = !run.Violation("failed-dependant-not-attempted-again mode=minimal", fmt.Sprintf("%s was not built by the build in which its dependency failed, and the next build did not execute it either", l), mkReplay(i, env, obs2)) || keep
				return
			}
		}
		run.Sample(map[string]any{"failing_rerun_case": i, "dependants": nd, "history": env.Log})
	})
}

// UncachedOmitPart (C05, C14): a target that bypasses the cache (no-cache tag, or the whole
// build with --enable-cache=false) declares three or four outputs and leaves exactly one of them
// missing - the first, a middle one or the last, a file or a directory. Whether its outputs exist
// is established on a path of its own (they are hashed, not stored). The build must fail naming the
// target, and the dependant must not run.
func UncachedOmitPart(run *report.Run, st *Setup, n int) {
	Parallel(n, func(i int) {
		r := rng.Derive(uint64(run.Seed), run.Prop+"-uncached-omit", fmt.Sprint(i))
		s := &spec.Spec{Files: map[string]string{"p/g.txt": "g1\n", "p/u.txt": "u1\n"}}
		gen := &spec.Target{Pkg: "p", Name: "gen", Salt: r.Word(4, 8), Inputs: []string{"g.txt"},
			Outs: []spec.Out{{Kind: "file", Path: "o0.out"}, {Kind: "file", Path: "o1.out"}, {Kind: "dir", Path: "o2.d"}}}
		if r.Chance(1, 2) {
			gen.Outs = append(gen.Outs, spec.Out{Kind: "file", Path: "o3.out"})
		}
		viaTag := i%2 == 0
		if viaTag {
			gen.Tags = []string{"no-cache"}
		}
		gen.Omit = gen.Outs[i/2%len(gen.Outs)].Path
		gen.OmitIf = "markers/omit_gen"
		use := &spec.Target{Pkg: "p", Name: "use", Salt: r.Word(4, 8), Inputs: []string{"u.txt"}, Deps: []string{"//p:gen"}, Outs: []spec.Out{{Kind: "file", Path: "use.out"}}}
		other := &spec.Target{Pkg: "p", Name: "other", Salt: r.Word(4, 8), Inputs: []string{"u.txt"}, Outs: []spec.Out{{Kind: "file", Path: "other.out"}}}
		s.Targets = []*spec.Target{gen, use, other}
		gcfg := randCfg(r)
		env, err := NewEnv(st.Base, fmt.Sprintf("uo%d", i), st.Grog, st.Vctl, s, gcfg)
		if err != nil {
			run.Infra(err.Error())
			return
		}
		keep := false
		defer func() {
			if !keep {
				env.Cleanup()
			}
		}()
		env.SetMarker("markers/omit_gen", true)
		obs := env.RunBuild(BuildOpts{DisableCache: !viaTag})
		run.Eval(1)
		run.Count("uncached_targets_with_one_output_missing", 1)
		if obs.Res.Crashed() != "" || obs.Res.TimedOut {
			run.Count("divergence_other_property:crash-or-hang", 1)
			return
		}
		how := "no-cache tag"
		if !viaTag {
			how = "--enable-cache=false"
		}
		replay := map[string]any{"uncached_by": how, "declared_outputs": gen.Outs, "missing_output": gen.Omit, "started": obs.Started, "stdout": tail(obs.Res.Stdout, 1200), "stderr": tail(obs.Res.Stderr, 600)}
		switch {
		case obs.Res.Exit == 0:
			keep = !run.Violation("exit-zero-despite-failure uncached-target-missing-output", fmt.Sprintf("//p:gen (%s) left its declared output %s missing (of %d declared) and the build exited 0", how, gen.Omit, len(gen.Outs)), replay) || keep
		case obs.Started["//p:use"] > 0:
			keep = !run.Violation("exec-after-dep-failure uncached-target-missing-output", fmt.Sprintf("//p:use ran although its dependency //p:gen (%s) left %s missing", how, gen.Omit), replay) || keep
		case !strings.Contains(obs.Res.Stdout+obs.Res.Stderr, "//p:gen"):
			keep = !run.Violation("failed-target-not-named uncached-target-missing-output", "the failing build does not name //p:gen", replay) || keep
		default:
			run.Nontrivial(fmt.Sprintf("uncached-omit|%v|%s|%d", viaTag, gen.Omit, len(gen.Outs)))
		}
	})
}
