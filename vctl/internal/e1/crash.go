package e1

import (
	"fmt"
	"os"
	"path/filepath"
	"strings"
	"syscall"

	"vctl/internal/audit"
	"vctl/internal/grog"
	"vctl/internal/report"
	"vctl/internal/rng"
	"vctl/internal/spec"
)

// CrashPart enumerates crash points of a build: a counting run lists every hit of every hook
// point (between two file-system/backend operations of the local backend, the output handlers
// and the executor); then for each (sampled) K the pre-build snapshot of workspace and cache is
// restored and the build runs with the plan "*=kill:K" (SIGKILL self at the K-th point). After
// each crash the cache is audited at rest and a follow-up build must succeed with correct bytes.
func CrashPart(run *report.Run, st *Setup, cases, pointsPerCase int, randomKills int) {
	Parallel(cases, func(i int) {
		r := rng.Derive(uint64(run.Seed), run.Prop+"-crash", fmt.Sprint(i))
		pf := spec.DefaultProfile()
		pf.MinTargets, pf.MaxTargets = 3, 6
		s := spec.Gen(r, pf)
		for k, t := range s.Targets {
			if k%2 == 1 {
				t.Outs = append(t.Outs, spec.Out{Kind: "dir", Path: fmt.Sprintf("cr%d.d", k)})
			}
		}
		gcfg := randCfg(r)
		workers := 1
		if r.Chance(1, 3) {
			workers = 3
		}
		gcfg.NumWorkers = workers
		env, err := NewEnv(st.Base, fmt.Sprintf("k%d", i), st.Grog, st.Vctl, s, gcfg)
		if err != nil {
			run.Infra(err.Error())
			return
		}
		keep := false
		defer func() {
			if !keep {
				env.Cleanup()
			}
		}()
		cfg := BuildCfg{EnableCache: true}
		// a first build and an edit so that the crashing build mixes restores and executions
		if _, obs, vs, err := env.Step(BuildOpts{}, cfg, "cold", false); err != nil || len(vs) > 0 || obs.Res.Exit != 0 {
			run.Count("crash_cases_skipped_cold_build_diverged", 1)
			return
		}
		for j := 0; j < 2; j++ {
			env.Apply(func() string { return OpSalt(r, env) })
		}
		env.Apply(func() string { return OpEditFile(r, env) })
		if err := env.Sync(); err != nil {
			run.Infra(err.Error())
			return
		}
		env.WipeOutputs()
		cache := env.CacheDir()
		// some cached targets are tainted: their forced execution and the bookkeeping around it
		// (outputs, result, taint removal) are crash points too
		var tainted []string
		for _, t := range s.Targets {
			if r.Chance(1, 3) && len(t.AllOuts()) > 0 && !t.HasTag("no-cache") {
				tainted = append(tainted, t.Label())
			}
		}
		if len(tainted) > 0 {
			if env.RunTaint(tainted).Exit != 0 {
				tainted = nil
			}
		}
		rootDir := filepath.Dir(cache)
		snapRoot := filepath.Join(env.Dir, "snap-root")
		snapWS := filepath.Join(env.Dir, "snap-ws")
		if copyDir(rootDir, snapRoot) != nil || copyDir(env.WS, snapWS) != nil {
			run.Infra("snapshot failed")
			return
		}
		restore := func() bool {
			return copyDir(snapRoot, rootDir) == nil && copyDir(snapWS, env.WS) == nil
		}
		memoSnap := map[string]string{}
		for k, v := range env.Memo {
			memoSnap[k] = v
		}
		hookLog := filepath.Join(env.Dir, "hooks.jsonl")
		// counting run
		_ = os.Remove(hookLog)
		res := env.M.Run([]string{"build"}, grog.RunOpts{Build: "count", Env: []string{"GROG_VERIF_LOG=" + hookLog}})
		if res.Exit != 0 {
			run.Count("crash_cases_skipped_counting_run_failed", 1)
			return
		}
		var points []string
		for _, ev := range ReadHookLog(hookLog) {
			if ev.Kind == "point" || ev.Kind == "event" { // plan rules count hits of both
				points = append(points, ev.Name)
			}
		}
		total := len(points)
		run.Count("crash_points_listed", total)
		ks := make([]int, 0, total)
		for k := 1; k <= total; k++ {
			ks = append(ks, k)
		}
		if pointsPerCase > 0 && len(ks) > pointsPerCase {
			rng.Shuffle(r, ks)
			ks = ks[:pointsPerCase]
		}
		judge := func(what string, plan []string, at string) bool {
			if !restore() {
				run.Infra("restore failed")
				return false
			}
			_ = os.Remove(hookLog)
			inodeBefore := map[string]uint64{}
			if ents, err := os.ReadDir(filepath.Join(cache, "target")); err == nil {
				for _, en := range ents {
					if fi, err := os.Stat(filepath.Join(cache, "target", en.Name())); err == nil {
						if st, ok := fi.Sys().(*syscall.Stat_t); ok {
							inodeBefore[en.Name()] = st.Ino
						}
					}
				}
			}
			crashBuild := fmt.Sprintf("crash%d", len(env.Log))
			cr := env.M.Run([]string{"build"}, grog.RunOpts{Build: crashBuild, Env: append([]string{"GROG_VERIF_LOG=" + hookLog}, plan...)})
			env.Logf("%s -> exit %d signaled=%v", what, cr.Exit, cr.Signaled)
			run.Eval(1)
			if !cr.Signaled {
				run.Count("crash_runs_not_killed(point not reached)", 1)
			} else {
				run.Count("crash_runs_killed", 1)
				run.Count("crash_at:"+at, 1)
			}
			// a tainted target whose forced command ran to its end in the killed build: either the
			// taint is still there (the next build runs it again) or the result of that very
			// execution was recorded - never "taint gone, old result still in place"
			if cr.Signaled && len(tainted) > 0 {
				obsC := env.ReadTrace(crashBuild)
				hashes := ChangeHashes(ReadHookLog(hookLog))
				for _, l := range tainted {
					if obsC.Ended[l] == 0 || hashes[l] == "" {
						continue
					}
					run.Count("tainted_targets_whose_command_finished_in_a_killed_build", 1)
					_, terr := os.Stat(filepath.Join(cache, "taint", l))
					taintLeft := terr == nil
					rewritten := false
					if fi, err := os.Stat(filepath.Join(cache, "target", hashes[l])); err == nil {
						if st, ok := fi.Sys().(*syscall.Stat_t); ok {
							old, had := inodeBefore[hashes[l]]
							rewritten = !had || old != st.Ino
						}
					}
					if !taintLeft && !rewritten {
						keep = !run.Violation("taint-gone-but-result-of-the-forced-execution-not-recorded at="+at,
							fmt.Sprintf("after %s: %s was tainted, its command ran to the end, the taint has been removed, but the stored result is still the one from before the taint (the next build restores the old outputs instead of running it again)", what, l), mkReplay(i, env, nil)) || keep
						return false
					}
				}
			}
			store, _ := audit.LoadDir(cache)
			rep := audit.Audit(store)
			run.Count("cache_entries_audited", rep.CasOK+rep.TargetOK+len(rep.CasBad)+len(rep.TargetBad))
			if !rep.Clean() {
				kind := "cache-inconsistent-after-crash"
				detail := rep.Summary()
				switch {
				case len(rep.CasBad) > 0:
					kind += " blob-content-mismatch"
					detail += " " + rep.CasBad[0]
				case len(rep.TargetBad) > 0:
					kind += " target-result-undecodable"
					detail += " " + rep.TargetBad[0]
				default:
					kind += " dangling-reference"
					detail += " " + rep.Dangling[0]
				}
				keep = !run.Violation(kind+" at="+at, fmt.Sprintf("after %s the cache at rest is inconsistent: %s", what, detail), mkReplay(i, env, nil)) || keep
				return false
			}
			// follow-up build on the remains
			for mk := range env.Memo {
				env.Memo[mk] = "lost"
			}
			_, obs, vs, err := env.Step(BuildOpts{}, cfg, "after-crash", false)
			env.Memo = map[string]string{}
			for mk, mv := range memoSnap {
				env.Memo[mk] = mv
			}
			if err != nil {
				run.Infra(err.Error())
				return false
			}
			run.Count("followup_builds", 1)
			// the remains of the crash must not mislead the follow-up build into publishing
			// a result whose blobs were never stored
			if bad := auditAtRest(cache); bad != "" {
				keep = !run.Violation("followup-after-crash cache-inconsistent "+strings.Fields(bad)[0]+" at="+at, fmt.Sprintf("after %s and a follow-up build that exited %d the cache at rest is inconsistent: %s", what, obs.Res.Exit, bad), mkReplay(i, env, obs)) || keep
				return false
			}
			if cr.Signaled {
				run.Nontrivial(fmt.Sprintf("%s|w%d|%s|%d", s.Shape(), workers, at, len(obs.Started)))
			}
			for _, v := range vs {
				switch v.Kind {
				case "bytes", "restore", "exit", "crash", "hang":
					keep = !run.Violation("followup-after-crash "+v.Sig+" at="+at, fmt.Sprintf("after %s the follow-up build: %s", what, v.What), mkReplay(i, env, obs)) || keep
					return false
				default:
					run.Count("divergence_other_property:"+v.Kind, 1)
				}
			}
			return true
		}
		for _, k := range ks {
			if !judge(fmt.Sprintf("SIGKILL at hook point #%d (%s)", k, points[k-1]), []string{fmt.Sprintf("GROG_VERIF_PLAN=*=kill:%d", k)}, points[k-1]) {
				return
			}
		}
		// random kill -9 "times": a kill at the K-th point among a random subset of point names
		for j := 0; j < randomKills; j++ {
			names := []string{"fs.set.*", "dir.*", "file.*", "exec.*"}
			nm := rng.Pick(r, names)
			k := r.Range(1, 12)
			if !judge(fmt.Sprintf("SIGKILL at hit %d of %s (multi-worker)", k, nm), []string{fmt.Sprintf("GROG_VERIF_PLAN=%s=kill:%d;*=delay:%d", nm, k, r.Intn(300))}, strings.TrimSuffix(nm, "*")+"N") {
				return
			}
		}
		run.Sample(map[string]any{"crash_case": i, "shape": s.Shape(), "points": total, "first_points": points[:min(12, len(points))], "history": env.Log})
	})
}

// auditAtRest audits a cache directory; "" when clean, otherwise the kind and the first entry.
func auditAtRest(cache string) string {
	store, err := audit.LoadDir(cache)
	if err != nil {
		return ""
	}
	rep := audit.Audit(store)
	switch {
	case rep.Clean():
		return ""
	case len(rep.CasBad) > 0:
		return "blob-content-mismatch " + rep.CasBad[0]
	case len(rep.TargetBad) > 0:
		return "target-result-undecodable " + rep.TargetBad[0]
	default:
		return "dangling-reference " + rep.Dangling[0]
	}
}
