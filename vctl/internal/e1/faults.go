package e1

import (
	"fmt"
	"google.golang.org/protobuf/encoding/protowire"
	"os"
	"os/exec"
	"path/filepath"
	"sort"
	"strings"

	"vctl/internal/audit"
	"vctl/internal/report"
	"vctl/internal/rng"
	"vctl/internal/spec"
)

func copyDir(src, dst string) error {
	_ = os.RemoveAll(dst)
	return exec.Command("cp", "-a", src, dst).Run()
}

// RestoreFaultPart: build once, then for every (sampled) cache entry apply a read fault
// (entry missing / entry unreadable), wipe the workspace outputs and build again. The build
// must terminate (no hang, no crash) and, when it exits 0, leave correct bytes.
func RestoreFaultPart(run *report.Run, st *Setup, cases, faultsPerCase int, kinds map[string]bool, double bool) {
	restoreFaultPart(run, st, cases, faultsPerCase, kinds, double, false)
}

// LostEntryPart is RestoreFaultPart restricted to entries that are simply gone (evicted, lost
// in a crash, never uploaded): the build must re-execute what was lost - exit 0, reference
// bytes, nothing stale or incomplete restored.
func LostEntryPart(run *report.Run, st *Setup, cases, faultsPerCase int, kinds map[string]bool) {
	restoreFaultPart(run, st, cases, faultsPerCase, kinds, true, true)
}

func restoreFaultPart(run *report.Run, st *Setup, cases, faultsPerCase int, kinds map[string]bool, double, onlyMissing bool) {
	Parallel(cases, func(i int) {
		r := rng.Derive(uint64(run.Seed), run.Prop+"-faults", fmt.Sprint(i))
		pf := spec.DefaultProfile()
		pf.MinTargets, pf.MaxTargets = 3, 7
		s := spec.Gen(r, pf)
		// make sure there are directory outputs, flat and nested
		for k, t := range s.Targets {
			if k%2 == 0 {
				t.Outs = append(t.Outs, spec.Out{Kind: "dir", Path: fmt.Sprintf("flt%d.d", k)})
			} else if k%4 == 1 {
				t.Outs = append(t.Outs, spec.Out{Kind: "dir", Path: fmt.Sprintf("dup%d.d", k)})
			}
		}
		gcfg := randCfg(r)
		minimal := r.Chance(1, 3)
		if minimal {
			gcfg.LoadOutputs = "minimal"
		}
		env, err := NewEnv(st.Base, fmt.Sprintf("f%d", i), st.Grog, st.Vctl, s, gcfg)
		if err != nil {
			run.Infra(err.Error())
			return
		}
		env.MaybeTTY(run, fmt.Sprint(i), 4)
		keep := false
		defer func() {
			if !keep {
				env.Cleanup()
			}
		}()
		cfg := BuildCfg{EnableCache: true, Minimal: minimal}
		if _, obs, vs, err := env.Step(BuildOpts{}, cfg, "cold", false); err != nil || len(vs) > 0 || obs.Res.Exit != 0 {
			run.Count("fault_cases_skipped_cold_build_diverged", 1)
			return
		}
		cache := env.CacheDir()
		snap := filepath.Join(env.Dir, "cache-snapshot")
		if err := copyDir(cache, snap); err != nil {
			run.Infra(err.Error())
			return
		}
		store, _ := audit.LoadDir(cache)
		var keys []string
		for k := range store {
			if strings.HasPrefix(k, "cas/") || strings.HasPrefix(k, "target/") {
				keys = append(keys, k)
			}
		}
		sort.Strings(keys)
		rng.Shuffle(r, keys)
		if faultsPerCase > 0 && len(keys) > faultsPerCase {
			keys = keys[:faultsPerCase]
		}
		// a further fault kind: every file blob of one directory output is gone while its tree
		// blob (and the target result) are still there - what an LRU eviction of old blobs does
		var dirFileBlobs [][]string
		for k, b := range store {
			if !strings.HasPrefix(k, "target/") {
				continue
			}
			tr, err := audit.DecodeTargetResult(b)
			if err != nil {
				continue
			}
			for _, o := range tr.Outputs {
				if o.Kind != "dir" {
					continue
				}
				tb, ok := store["cas/"+o.Digest.Hash]
				if !ok {
					continue
				}
				t, err := audit.DecodeTree(tb)
				if err != nil {
					continue
				}
				set := map[string]bool{}
				for _, d := range append([]audit.Directory{t.Root}, t.Children...) {
					for _, f := range d.Files {
						set["cas/"+f.Digest.Hash] = true
					}
				}
				var fs []string
				for f := range set {
					fs = append(fs, f)
				}
				sort.Strings(fs)
				if len(fs) > 0 {
					dirFileBlobs = append(dirFileBlobs, fs)
				}
			}
		}
		sort.Slice(dirFileBlobs, func(a, b int) bool { return strings.Join(dirFileBlobs[a], ",") < strings.Join(dirFileBlobs[b], ",") })
		memoSnap := map[string]string{}
		for k, v := range env.Memo {
			memoSnap[k] = v
		}
		for fi, k := range keys {
			if err := copyDir(snap, cache); err != nil {
				run.Infra(err.Error())
				return
			}
			fkind := "missing"
			if r.Chance(1, 3) && !onlyMissing {
				fkind = "unreadable"
			}
			if r.Chance(1, 4) && !onlyMissing {
				// the entry is there and readable but is not what was stored: cut short, other
				// bytes, or - for structured entries (results, trees) - a message that still
				// decodes but lacks a field somewhere inside. The cache does not verify contents
				// on read, so this reaches the code that interprets the entry.
				fkind = rng.Pick(r, []string{"corrupt-truncated", "corrupt-garbage", "corrupt-field-dropped", "corrupt-field-dropped"})
				if fkind == "corrupt-field-dropped" {
					// aim at the structured entries: target results and directory trees
					var structured []string
					for sk, sb := range store {
						if strings.HasPrefix(sk, "target/") {
							structured = append(structured, sk)
						} else if strings.HasPrefix(sk, "cas/") {
							if tr, err := audit.DecodeTree(sb); err == nil && (len(tr.Root.Files)+len(tr.Root.Dirs)+len(tr.Children)) > 0 {
								structured = append(structured, sk)
							}
						}
					}
					sort.Strings(structured)
					if len(structured) > 0 {
						k = structured[r.Intn(len(structured))]
					}
				}
			}
			victims := []string{k}
			if double && r.Chance(1, 2) && len(keys) > 1 {
				victims = append(victims, keys[(fi+1)%len(keys)])
			}
			if len(dirFileBlobs) > 0 && r.Chance(1, 4) {
				fs := dirFileBlobs[r.Intn(len(dirFileBlobs))]
				victims = append([]string{}, fs...)
				if len(fs) > 2 && r.Chance(1, 2) {
					victims = victims[:len(fs)-1] // all but one
				}
				fkind = "missing"
				k = "cas/(all-file-blobs-of-a-dir-output)"
				run.Count("fault_builds_with_all_file_blobs_of_a_dir_output_lost", 1)
			}
			for _, v := range victims {
				p := filepath.Join(cache, filepath.FromSlash(v))
				orig, _ := os.ReadFile(p)
				_ = os.Remove(p)
				switch fkind {
				case "unreadable":
					_ = os.Mkdir(p, 0755) // a directory where a blob should be: open succeeds, read fails
				case "corrupt-truncated":
					_ = os.WriteFile(p, orig[:len(orig)/2], 0644)
				case "corrupt-garbage":
					g := make([]byte, len(orig))
					for gi := range g {
						g[gi] = byte(r.Intn(256))
					}
					_ = os.WriteFile(p, g, 0644)
				case "corrupt-field-dropped":
					m, ok := dropNestedField(r, orig, 0)
					if !ok {
						m = orig[:len(orig)/2]
					}
					_ = os.WriteFile(p, m, 0644)
				}
			}
			env.WipeOutputs()
			for mk := range env.Memo {
				env.Memo[mk] = "lost"
			}
			if r.Chance(1, 2) {
				// some targets become misses: in minimal mode they are the ones that load the
				// (possibly faulted) outputs of their dependencies
				for j := r.Range(1, 3); j > 0; j-- {
					env.Apply(func() string { return OpSalt(r, env) })
				}
				run.Count("fault_builds_with_changed_commands", 1)
			}
			env.Logf("fault %s on %v", fkind, victims)
			p, obs, vs, err := env.Step(BuildOpts{}, cfg, "cache-fault", false)
			if err != nil {
				run.Infra(err.Error())
				return
			}
			_ = p
			run.Eval(1)
			run.Count("fault_builds", 1)
			run.Count("fault:"+fkind+":"+strings.SplitN(k, "/", 2)[0], 1)
			if len(obs.Started) > 0 {
				run.Nontrivial(fmt.Sprintf("fault|%s|%s|%s|%d", s.Shape(), fkind, strings.SplitN(k, "/", 2)[0], len(obs.Started)))
			}
			bad := false
			for _, v := range vs {
				if kinds[v.Kind] {
					keep = !run.Violation("restore-fault "+v.Sig, fmt.Sprintf("after cache fault (%s %v): %s", fkind, victims, v.What), mkReplay(i, env, obs)) || keep
				} else {
					run.Count("divergence_other_property:"+v.Kind, 1)
					Debugf("case %d fault %s %v: %s: %s | %s", i, fkind, victims, v.Kind, v.Sig, v.What)
				}
				bad = true
			}
			if bad && (obs.Res.TimedOut || obs.Res.Crashed() != "") {
				break // do not pay the cap again and again for the same case
			}
			env.Memo = map[string]string{}
			for mk, mv := range memoSnap {
				env.Memo[mk] = mv
			}
		}
		run.Sample(map[string]any{"fault_case": i, "shape": s.Shape(), "minimal": minimal, "history": env.Log})
	})
}

// dropNestedField removes one field somewhere inside a protobuf message, at any depth
// (length-delimited fields that themselves parse as messages are descended into), so that the
// result still decodes but a sub-message or scalar the reader expects is absent. Every field of
// every nesting level is a candidate; one is drawn uniformly.
func dropNestedField(r *rng.R, b []byte, depth int) ([]byte, bool) {
	vs := dropVariants(b, 0)
	if len(vs) == 0 {
		return nil, false
	}
	return vs[r.Intn(len(vs))], true
}

func dropVariants(b []byte, depth int) [][]byte {
	type fld struct {
		start, end, valStart int
		typ                  protowire.Type
	}
	var fs []fld
	for off := 0; off < len(b); {
		num, typ, n := protowire.ConsumeTag(b[off:])
		if n < 0 || num <= 0 {
			return nil
		}
		m := protowire.ConsumeFieldValue(num, typ, b[off+n:])
		if m < 0 {
			return nil
		}
		fs = append(fs, fld{off, off + n + m, off + n, typ})
		off += n + m
	}
	var out [][]byte
	for _, f := range fs {
		// this field dropped
		v := append([]byte{}, b[:f.start]...)
		out = append(out, append(v, b[f.end:]...))
		// or something inside it
		if f.typ == protowire.BytesType && depth < 5 {
			inner, n := protowire.ConsumeBytes(b[f.valStart:f.end])
			if n > 0 && len(inner) > 1 {
				for _, iv := range dropVariants(inner, depth+1) {
					w := append([]byte{}, b[:f.valStart]...)
					w = protowire.AppendBytes(w, iv)
					out = append(out, append(w, b[f.end:]...))
				}
			}
		}
	}
	return out
}
