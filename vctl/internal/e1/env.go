// Package e1 is the history engine: it drives the real grog binary over generated workspaces
// and edit/build/taint/perturbation histories and compares what grog did (commands executed,
// bytes on disk, exit status) with a reference model of the documented caching rules.
package e1

import (
	"bufio"
	"crypto/sha256"
	"fmt"
	"os"
	"path/filepath"
	"sort"
	"strings"
	"sync"
	"time"

	"vctl/internal/audit"
	"vctl/internal/grog"
	"vctl/internal/report"
	"vctl/internal/rng"
	"vctl/internal/spec"
	"vctl/internal/tree"
)

type Env struct {
	Dir       string
	WS        string
	M         *grog.Machine
	Spec      *spec.Spec
	Cfg       grog.Config
	Memo      map[string]string // loose key -> "ok" | "lost"
	Strict    map[string]bool   // strict keys that were stored once
	DefSeen   map[string]bool   // loose key + spelling of the dependency list that was stored once
	Taint     map[string]bool
	Markers   map[string]bool
	LastViews map[string][]spec.DepView // dependency outputs as of each target's last execution
	Unsure    map[string]bool           // targets whose stored result was left by a cache-disabled build
	Pending   map[string][]string       // edit operators that changed a target's own state since its last execution
	Pty       bool                      // builds run on a pseudo terminal (interactive Bubble Tea UI path)

	prevFiles map[string]string
	prevPkgs  []string
	buildNo   int
	Log       []string // human-readable history (for replay files)
}

var ptyOnce sync.Once
var ptyOK bool

// MaybeTTY lets one history in `oneIn` run all its builds on a pseudo terminal, where grog
// starts its interactive UI (different logger, status updates from the worker pool, terminal
// raw mode): what is judged stays the same.
func (e *Env) MaybeTTY(run *report.Run, caseKey string, oneIn int) {
	ptyOnce.Do(func() { ptyOK = grog.PtyAvailable() })
	r := rng.Derive(uint64(run.Seed), "tty", run.Prop, caseKey)
	if ptyOK && r.Chance(1, oneIn) {
		e.Pty = true
		run.Count("histories_run_on_a_terminal(interactive UI)", 1)
	}
}

func Scratch() string {
	if s := os.Getenv("VERIF_SCRATCH"); s != "" {
		return s
	}
	return "/var/tmp"
}

// NewEnv creates a scratch case directory with a workspace and a machine.
func NewEnv(base, name, grogBin, vctlBin string, s *spec.Spec, cfg grog.Config) (*Env, error) {
	dir := filepath.Join(base, name)
	ws := filepath.Join(dir, "ws")
	for _, d := range []string{ws, filepath.Join(dir, "root"), filepath.Join(dir, "home")} {
		if err := os.MkdirAll(d, 0755); err != nil {
			return nil, err
		}
	}
	e := &Env{Dir: dir, WS: ws, Spec: s, Cfg: cfg, Memo: map[string]string{}, Strict: map[string]bool{}, DefSeen: map[string]bool{},
		Taint: map[string]bool{}, Markers: map[string]bool{}, LastViews: map[string][]spec.DepView{}, Pending: map[string][]string{}, Unsure: map[string]bool{}, prevFiles: map[string]string{}}
	e.M = &grog.Machine{Bin: grogBin, Workspace: ws, Root: filepath.Join(dir, "root"), Home: filepath.Join(dir, "home"),
		Trace: filepath.Join(dir, "trace"), Sidecar: filepath.Join(dir, "sidecar.json"), VctlBin: vctlBin}
	if err := e.Sync(); err != nil {
		return nil, err
	}
	return e, nil
}

// Sync writes sources, BUILD files, config and sidecar to disk.
func (e *Env) Sync() error {
	if err := e.Spec.WriteFiles(e.WS, e.prevFiles); err != nil {
		return err
	}
	e.prevFiles = map[string]string{}
	for k, v := range e.Spec.Files {
		e.prevFiles[k] = v
	}
	if err := e.Spec.WriteBuildFiles(e.WS, e.prevPkgs); err != nil {
		return err
	}
	e.prevPkgs = e.Spec.Packages()
	if err := e.M.WriteConfig(e.Cfg); err != nil {
		return err
	}
	return e.Spec.WriteSidecar(e.M.Sidecar)
}

func (e *Env) SetMarker(rel string, on bool) {
	p := filepath.Join(e.WS, filepath.FromSlash(rel))
	if on {
		_ = os.MkdirAll(filepath.Dir(p), 0755)
		content := "ok\n"
		if strings.HasPrefix(filepath.Base(p), "blank_") {
			content = "" // the condition of a check that expects no output at all
		}
		_ = os.WriteFile(p, []byte(content), 0644)
		e.Markers[rel] = true
	} else {
		_ = os.Remove(p)
		delete(e.Markers, rel)
	}
}

// checkHolds: would this output check pass now? An exit-status check passes iff its marker file
// exists; an expected_output check prints the marker's content, which must equal the expectation
// (surrounding white space aside): more lines, a longer word or nothing at all do not.
func (e *Env) checkHolds(c spec.Check) bool {
	b, err := os.ReadFile(filepath.Join(e.WS, filepath.FromSlash(c.Marker)))
	if err != nil {
		return false
	}
	if c.Expected == "" {
		return true
	}
	// (a white-space-only expectation demands that the check prints nothing)
	return strings.TrimSpace(string(b)) == strings.TrimSpace(c.Expected)
}

// SpoilMarker leaves the marker file in place with a content that an expected_output check must
// not accept.
func (e *Env) SpoilMarker(rel, content string) {
	p := filepath.Join(e.WS, filepath.FromSlash(rel))
	_ = os.MkdirAll(filepath.Dir(p), 0755)
	_ = os.WriteFile(p, []byte(content), 0644)
	e.Markers[rel] = true
}

func (e *Env) markerOn(rel string) bool {
	_, err := os.Stat(filepath.Join(e.WS, filepath.FromSlash(rel)))
	return err == nil
}

func (e *Env) Logf(f string, a ...any) { e.Log = append(e.Log, fmt.Sprintf(f, a...)) }

// Obs is what one grog invocation did, as seen at its boundary.
type Obs struct {
	Build     string
	Res       *grog.Result
	Started   map[string]int
	Ended     map[string]int
	Failed    map[string]int
	Views     map[string][]string // label -> views strings per successful execution
	Checks    map[string][]int    // label -> return codes of output checks, in order
	Anom      []string            // X lines (helper-level anomalies)
	Order     []string            // S/E lines in file order: "S label" / "E label" / "F label"
	ShellPids []int               // parent pids of the command helpers (the target shells)
	// Overlap: labels of which two executions, both of which ran to their end (E or F line),
	// overlapped in time (the second S line precedes the first execution's end line)
	Overlap map[string]int
}

// ReadTrace parses the trace lines of one build id.
func (e *Env) ReadTrace(build string) *Obs { return e.readTrace(build) }

func (e *Env) readTrace(build string) *Obs {
	o := &Obs{Build: build, Started: map[string]int{}, Ended: map[string]int{}, Failed: map[string]int{},
		Views: map[string][]string{}, Checks: map[string][]int{}}
	f, err := os.Open(e.M.Trace)
	if err != nil {
		return o
	}
	defer f.Close()
	sc := bufio.NewScanner(f)
	sc.Buffer(make([]byte, 1<<20), 1<<24)
	o.Overlap = map[string]int{}
	type iv struct {
		label string
		s, e  int
	}
	ivs := map[string]*iv{}
	line := 0
	defer func() {
		byLabel := map[string][]*iv{}
		for _, v := range ivs {
			if v.e > 0 {
				byLabel[v.label] = append(byLabel[v.label], v)
			}
		}
		for l, vs := range byLabel {
			for i := range vs {
				for j := i + 1; j < len(vs); j++ {
					if vs[i].s < vs[j].e && vs[j].s < vs[i].e {
						o.Overlap[l]++
					}
				}
			}
		}
	}()
	for sc.Scan() {
		fs := strings.Fields(sc.Text())
		if len(fs) < 3 || fs[1] != build {
			continue
		}
		line++
		if len(fs) > 3 {
			switch fs[0] {
			case "S":
				ivs[fs[3]] = &iv{label: fs[2], s: line}
			case "E", "F":
				if v := ivs[fs[3]]; v != nil && v.e == 0 {
					v.e = line
				}
			}
		}
		switch fs[0] {
		case "S":
			o.Started[fs[2]]++
			o.Order = append(o.Order, "S "+fs[2])
			if len(fs) > 4 {
				var sp int
				if _, err := fmt.Sscan(fs[4], &sp); err == nil {
					o.ShellPids = append(o.ShellPids, sp)
				}
			}
		case "E":
			o.Ended[fs[2]]++
			o.Order = append(o.Order, "E "+fs[2])
			for _, x := range fs[3:] {
				if strings.HasPrefix(x, "views=") {
					o.Views[fs[2]] = append(o.Views[fs[2]], strings.TrimPrefix(x, "views="))
				}
			}
		case "F":
			o.Failed[fs[2]]++
			o.Order = append(o.Order, "F "+fs[2])
		case "K":
			rc := 0
			if len(fs) > 4 {
				fmt.Sscanf(fs[4], "rc=%d", &rc)
			}
			o.Checks[fs[2]] = append(o.Checks[fs[2]], rc)
		case "X":
			o.Anom = append(o.Anom, strings.Join(fs[2:], " "))
		}
	}
	return o
}

type BuildOpts struct {
	Patterns     []string
	Cwd          string
	DisableCache bool
	Flags        []string
	Env          []string
	Cmd          string // "build" (default) or "test"
	Timeout      time.Duration
	Wrapper      []string // see grog.RunOpts.Wrapper
}

// RunBuild runs grog build and collects the observation.
func (e *Env) RunBuild(o BuildOpts) *Obs {
	e.buildNo++
	build := fmt.Sprintf("b%d", e.buildNo)
	cmd := o.Cmd
	if cmd == "" {
		cmd = "build"
	}
	args := []string{cmd}
	if o.DisableCache {
		args = append(args, "--enable-cache=false")
	}
	if e.Spec.Platform != "" {
		args = append(args, "--platform="+e.Spec.Platform)
	}
	args = append(args, o.Flags...)
	args = append(args, o.Patterns...)
	res := e.M.Run(args, grog.RunOpts{Cwd: o.Cwd, Build: build, Env: o.Env, Timeout: o.Timeout, Pty: e.Pty, Wrapper: o.Wrapper})
	obs := e.readTrace(build)
	obs.Res = res
	tty := ""
	if e.Pty {
		tty = " [on a terminal]"
	}
	e.Logf("%s: grog %s (cwd=%q)%s -> exit %d, executed %v", build, strings.Join(args, " "), o.Cwd, tty, res.Exit, keys(obs.Started))
	return obs
}

func (e *Env) RunTaint(patterns []string) *grog.Result { return e.RunTaintFrom("", patterns) }

// RunTaintFrom runs grog taint from a package directory (relative patterns resolve against it).
func (e *Env) RunTaintFrom(cwd string, patterns []string) *grog.Result {
	res := e.M.Run(append([]string{"taint"}, patterns...), grog.RunOpts{Build: "taint", Cwd: cwd})
	e.Logf("grog taint %v (cwd=%q) -> exit %d: %s", patterns, cwd, res.Exit, lastLine(res.Stdout+res.Stderr))
	return res
}

func lastLine(s string) string {
	ls := strings.Split(strings.TrimSpace(s), "\n")
	return ls[len(ls)-1]
}

func keys(m map[string]int) []string {
	var k []string
	for x, n := range m {
		if n > 1 {
			k = append(k, fmt.Sprintf("%s x%d", x, n))
		} else {
			k = append(k, x)
		}
	}
	sort.Strings(k)
	return k
}

// OutTree lists what is at an output path now.
func (e *Env) OutTree(t *spec.Target, o spec.Out) tree.Tree {
	tr, err := tree.FromDisk(spec.OutAbs(e.WS, t.Pkg, o.Path), true)
	if err != nil {
		return nil
	}
	return tr
}

// Provenance extracts the (salt, in, dep) lines embedded in an output tree.
func Provenance(tr tree.Tree) map[string]string {
	for _, en := range tr {
		if en.Type != "f" || len(en.Data) == 0 {
			continue
		}
		m := map[string]string{}
		for _, line := range strings.Split(string(en.Data), "\n") {
			if i := strings.Index(line, "="); i > 0 {
				k := line[:i]
				switch k {
				case "label", "salt", "out", "in", "dep":
					if _, ok := m[k]; !ok {
						m[k] = line[i+1:]
					}
				}
			}
		}
		if len(m) >= 3 {
			return m
		}
	}
	return nil
}

func (e *Env) Cleanup() { _ = os.RemoveAll(e.Dir) }

func ownState(s *spec.Spec, st *spec.TState) string {
	t := s.Target(st.Label)
	var defs []string
	for _, o := range t.AllOuts() {
		defs = append(defs, o.Def())
	}
	sort.Strings(defs)
	var fp []string
	for k, v := range t.Fingerprint {
		fp = append(fp, k+"="+v)
	}
	sort.Strings(fp)
	return spec.H(t.Command(), st.IN, strings.Join(defs, ","), strings.Join(fp, ","), strings.Join(st.DirectDeps, ","), strings.Join(t.Tags, ","))
}

// Apply runs an edit operator and records, per target, that it changed the target's own state.
func (e *Env) Apply(f func() string) string {
	before, _ := e.Spec.Eval()
	old := map[string]string{}
	for l, st := range before {
		old[l] = ownState(e.Spec, st)
	}
	name := f()
	if name == "" {
		return ""
	}
	after, err := e.Spec.Eval()
	if err != nil {
		return name
	}
	for l, st := range after {
		if old[l] != ownState(e.Spec, st) {
			e.Pending[l] = append(e.Pending[l], name)
		}
	}
	return name
}

// Cause names the edit operators pending for a target (sorted, unique).
func (e *Env) Cause(l string) string {
	set := map[string]bool{}
	for _, x := range e.Pending[l] {
		set[x] = true
	}
	if len(set) == 0 {
		return "none"
	}
	var xs []string
	for x := range set {
		xs = append(xs, x)
	}
	sort.Strings(xs)
	return strings.Join(xs, "+")
}

// CacheDir is the workspace cache directory grog derives from the workspace path.
func (e *Env) CacheDir() string {
	h := sha256.Sum256([]byte(e.WS))
	return filepath.Join(e.M.Root, fmt.Sprintf("%x", h)[:16]+"-"+filepath.Base(e.WS), "cache")
}

// EnableHookLog makes grog append its hook events to <case dir>/hooks.jsonl.
func (e *Env) EnableHookLog() string {
	p := filepath.Join(e.Dir, "hooks.jsonl")
	e.M.ExtraEnv = append(e.M.ExtraEnv, "GROG_VERIF_LOG="+p)
	return p
}

// ChangeHashes returns the latest change hash grog computed for every label (from the hook log).
func ChangeHashes(evs []HookEvent) map[string]string {
	m := map[string]string{}
	for _, ev := range evs {
		if (ev.Name == "cache.lookup" || ev.Name == "result.write") && len(ev.KV) >= 2 {
			m[ev.KV[0]] = ev.KV[1]
		}
	}
	return m
}

// DeleteBlobsOf removes from the local cache every blob referenced by the stored result of
// label (its latest change hash according to the hook log). Returns the number of blobs removed.
func (e *Env) DeleteBlobsOf(label string, hookLog string, which func(i, n int) bool) int {
	ch := ChangeHashes(ReadHookLog(hookLog))[label]
	if ch == "" {
		return 0
	}
	dir := e.CacheDir()
	b, err := os.ReadFile(filepath.Join(dir, "target", ch))
	if err != nil {
		return 0
	}
	tr, err := audit.DecodeTargetResult(b)
	if err != nil {
		return 0
	}
	st, _ := audit.LoadDir(dir)
	blobs := audit.BlobsOf(st, tr)
	n := 0
	for i, k := range blobs {
		if which != nil && !which(i, len(blobs)) {
			continue
		}
		if os.Remove(filepath.Join(dir, filepath.FromSlash(k))) == nil {
			n++
		}
	}
	return n
}
