package e1

import (
	"fmt"
	"os"
	"path/filepath"
	"strings"

	"vctl/internal/report"
	"vctl/internal/rng"
	"vctl/internal/spec"
)

// TraceOrderViolations checks dependencies-first and bounded concurrency on the O_APPEND
// trace of one build. S lines are written by a command before it does anything, E/F lines
// just before it exits, so [S,E] is contained in the command's lifetime.
func TraceOrderViolations(s *spec.Spec, p *Pred, o *Obs, workers int) (vs []Violation, maxOpen int) {
	ended := map[string]bool{}
	open := 0
	for _, line := range o.Order {
		f := strings.Fields(line)
		kind, l := f[0], f[1]
		switch kind {
		case "S":
			open++
			if open > maxOpen {
				maxOpen = open
			}
			if st := p.States[l]; st != nil {
				for d := range s.Closure([]string{l}) {
					if d == l {
						continue
					}
					// a dependency that executed in this build must have ended before; one that
					// was restored leaves no line (its presence is checked through the views)
					if o.Started[d] > 0 && !ended[d] {
						vs = append(vs, Violation{"order", "start-before-dependency-finished", fmt.Sprintf("%s started before its dependency %s finished", l, d)})
					}
				}
			}
		case "E":
			open--
			ended[l] = true
		case "F":
			open--
		}
	}
	if workers > 0 && maxOpen > workers {
		vs = append(vs, Violation{"width", "more-commands-than-workers", fmt.Sprintf("%d commands were running at once with num_workers=%d", maxOpen, workers)})
	}
	return
}

// sameNameFan: k packages each define a target with one and the same name and different
// latencies; one target depends directly on all of them (labels differ only in the package part)
// and must start after the slowest has finished.
func sameNameFan(r *rng.R) *spec.Spec {
	s := &spec.Spec{Files: map[string]string{}}
	pkgs := []string{"svc/auth", "svc/billing", "svc", "lib/x", ""}
	rng.Shuffle(r, pkgs)
	k := r.Range(2, 4)
	name := rng.Pick(r, []string{"build", "lib", "x"}) // "x" is also the shorthand name of //lib/x
	top := &spec.Target{Pkg: rng.Pick(r, []string{"app", "svc/auth/app"}), Name: "bundle", Salt: r.Word(4, 8), Outs: []spec.Out{{Kind: "file", Path: "bundle.out"}}}
	for j := 0; j < k; j++ {
		pre := ""
		if pkgs[j] != "" {
			pre = pkgs[j] + "/"
		}
		in := fmt.Sprintf("in%d.txt", j)
		s.Files[pre+in] = r.Word(3, 20) + "\n"
		t := &spec.Target{Pkg: pkgs[j], Name: name, Salt: r.Word(4, 8), Inputs: []string{in}, SleepMs: r.Range(10, 200),
			Outs: []spec.Out{{Kind: "file", Path: fmt.Sprintf("o%d.out", j)}}}
		s.Targets = append(s.Targets, t)
		top.Deps = append(top.Deps, t.Label())
	}
	rng.Shuffle(r, top.Deps)
	s.Targets = append(s.Targets, top)
	return s
}

// ProcessSchedPart drives the real binary on latency-shaped graphs and checks order, once,
// width and the dependency views recorded by the commands.
func ProcessSchedPart(run *report.Run, st *Setup, n int, kinds map[string]bool) {
	Parallel(n, func(i int) {
		r := rng.Derive(uint64(run.Seed), run.Prop+"-proc", fmt.Sprint(i))
		pf := spec.DefaultProfile()
		pf.MinTargets, pf.MaxTargets, pf.SleepMs, pf.EdgeProb = 6, 14, 60, 30
		pf.NoCache = true
		s := spec.Gen(r, pf)
		// directory outputs that hold nothing but sub-directories at their top level
		for k, t := range s.Targets {
			if k%2 == 0 && !t.HasTag("no-cache") {
				t.Outs = append(t.Outs, spec.Out{Kind: "dir", Path: fmt.Sprintf("sub%d.d", k)})
			}
		}
		RepeatDeps(r, s, run)
		gcfg := randCfg(r)
		gcfg.NumWorkers = r.Range(1, 8)
		if i%6 == 5 {
			s = sameNameFan(r)
			gcfg.NumWorkers = r.Range(2, 6)
			run.Count("process_cases_with_same_named_dependencies_in_several_packages", 1)
		}
		minimal := r.Chance(1, 2)
		if minimal {
			gcfg.LoadOutputs = "minimal"
		}
		env, err := NewEnv(st.Base, fmt.Sprintf("p%d", i), st.Grog, st.Vctl, s, gcfg)
		if err != nil {
			run.Infra(err.Error())
			return
		}
		env.MaybeTTY(run, fmt.Sprint(i), 4)
		keep := false
		defer func() {
			if !keep {
				env.Cleanup()
			}
		}()
		cfg := BuildCfg{EnableCache: true, Minimal: minimal}
		for k := 0; k < 3; k++ {
			if k > 0 {
				// invalidate a few targets so that executed and restored targets are mixed
				for j := 0; j < 2; j++ {
					env.Apply(func() string { return OpSalt(r, env) })
				}
			}
			p, obs, vs, err := env.Step(BuildOpts{}, cfg, "", false)
			if err != nil {
				run.Infra(err.Error())
				return
			}
			run.Eval(1)
			run.Count("process_builds", 1)
			ov, maxOpen := TraceOrderViolations(env.Spec, p, obs, gcfg.NumWorkers)
			vs = append(vs, ov...)
			run.Count("trace_lines", len(obs.Order))
			run.Count(fmt.Sprintf("max_concurrency_seen_with_%d_workers=%d", gcfg.NumWorkers, maxOpen), 1)
			if len(obs.Order) >= 4 {
				run.Nontrivial(fmt.Sprintf("proc|%s|w%d|%s", s.Shape(), gcfg.NumWorkers, spec.H(strings.Join(obs.Order, ";"))[:10]))
			}
			bad := false
			for _, v := range vs {
				if kinds[v.Kind] {
					keep = !run.Violation("process "+v.Sig, v.What, mkReplay(i, env, obs)) || keep
				} else {
					run.Count("divergence_other_property:"+v.Kind, 1)
					Debugf("case %d: other-property divergence %s: %s | %s", i, v.Kind, v.Sig, v.What)
				}
				bad = true
			}
			if bad {
				break
			}
		}
		// Several dependants of one restored dependency (load_outputs=minimal): the dependency
		// is a cache hit whose outputs are absent from the workspace, all its direct dependants
		// have to execute, and the restore of its outputs is slowed down at the handlers' hook
		// points, so that a dependant that did not wait for the restore sees a partial tree.
		if minimal && !keep && gcfg.NumWorkers >= 2 {
			states, err := env.Spec.Eval()
			var dep *spec.Target
			var dependants []*spec.Target
			if err == nil {
				for _, t := range env.Spec.Targets {
					if len(t.AllOuts()) == 0 || t.HasTag("no-cache") {
						continue
					}
					var ds []*spec.Target
					for _, u := range env.Spec.Targets {
						for _, d := range states[u.Label()].DirectDeps {
							if d == t.Label() {
								ds = append(ds, u)
							}
						}
					}
					hasSub := func(x *spec.Target) bool {
						for _, o := range x.AllOuts() {
							if o.Kind == "dir" && strings.HasPrefix(o.Path, "sub") {
								return true
							}
						}
						return false
					}
					// prefer a dependency whose directory output has only sub-directories at the top
					if len(ds) >= 2 && (dep == nil || (hasSub(t) && !hasSub(dep)) || (hasSub(t) == hasSub(dep) && len(ds) > len(dependants))) {
						dep, dependants = t, ds
					}
				}
			}
			if dep != nil && len(dependants) >= 2 {
				env.Apply(func() string {
					for _, u := range dependants {
						u.Salt = r.Word(4, 8)
					}
					env.Logf("change the commands of the %d direct dependants of %s", len(dependants), dep.Label())
					return "command-change"
				})
				env.WipeOutputs()
				plan := "file.load.*=delay:40000;dir.load.*=delay:40000;dir.load.create=delay:250000"
				env.Logf("GROG_VERIF_PLAN=%s", plan)
				p, obs, vs, err := env.Step(BuildOpts{Env: []string{"GROG_VERIF_PLAN=" + plan}}, cfg, "shared-dependency-restore", false)
				if err != nil {
					run.Infra(err.Error())
					return
				}
				run.Eval(1)
				run.Count("process_builds", 1)
				run.Count("builds_with_slowed_restore_of_a_shared_dependency", 1)
				ov, _ := TraceOrderViolations(env.Spec, p, obs, gcfg.NumWorkers)
				vs = append(vs, ov...)
				for _, v := range vs {
					if kinds[v.Kind] {
						keep = !run.Violation("process "+v.Sig, v.What, mkReplay(i, env, obs)) || keep
					} else {
						run.Count("divergence_other_property:"+v.Kind, 1)
						Debugf("case %d: other-property divergence %s: %s | %s", i, v.Kind, v.Sig, v.What)
					}
				}
			}
		}
		// A dependant whose cached dependencies have lost their blobs (load_outputs=minimal):
		// every such dependency has to be re-run before the dependant. However that is
		// organised, the commands running at one time must stay within num_workers and every
		// command must see current outputs of its direct dependencies. "once" is excused under
		// cache faults, and so is the start order read off the trace: a transitive dependency
		// that was a cache hit has finished (restored) as far as the walk is concerned, and may
		// be re-run later on behalf of another dependant.
		if minimal && !keep {
			states, err := env.Spec.Eval()
			var top *spec.Target
			nd := 0
			if err == nil {
				for _, u := range env.Spec.Targets {
					n := 0
					for _, d := range states[u.Label()].DirectDeps {
						if dt := env.Spec.Target(d); dt != nil && len(dt.AllOuts()) > 0 && !dt.HasTag("no-cache") {
							n++
						}
					}
					if n > nd {
						top, nd = u, n
					}
				}
			}
			if top != nil && nd >= 2 {
				env.Apply(func() string { top.Salt = r.Word(4, 8); return "command-change" })
				env.WipeOutputs()
				lost := 0
				if ents, err := os.ReadDir(filepath.Join(env.CacheDir(), "cas")); err == nil {
					for _, en := range ents {
						if os.Remove(filepath.Join(env.CacheDir(), "cas", en.Name())) == nil {
							lost++
						}
					}
				}
				for mk := range env.Memo {
					env.Memo[mk] = "lost"
				}
				env.Logf("command of %s changed (%d cached dependencies with outputs), workspace wiped, all %d blobs lost (results kept)", top.Label(), nd, lost)
				p, obs, vs, err := env.Step(BuildOpts{}, cfg, "dependencies-lost-their-blobs", false)
				if err != nil {
					run.Infra(err.Error())
					return
				}
				run.Eval(1)
				run.Count("process_builds", 1)
				run.Count("builds_after_all_blobs_were_lost(minimal)", 1)
				ov, maxOpen := TraceOrderViolations(env.Spec, p, obs, gcfg.NumWorkers)
				run.Count(fmt.Sprintf("max_concurrency_seen_with_%d_workers=%d", gcfg.NumWorkers, maxOpen), 1)
				for _, v := range append(vs, ov...) {
					if kinds[v.Kind] && v.Kind != "once" && v.Kind != "order" {
						keep = !run.Violation("process "+v.Sig+" after-lost-blobs", v.What, mkReplay(i, env, obs)) || keep
					} else {
						run.Count("divergence_other_property:"+v.Kind, 1)
					}
				}
			}
		}
		run.Sample(map[string]any{"process_case": i, "shape": s.Shape(), "num_workers": gcfg.NumWorkers, "history": env.Log})
	})
}

// RepeatDeps makes some targets list one of their dependencies two to four times (also through
// another spelling of the same label): grog accepts that, it is still one dependency, the target
// still runs once and the build still ends.
func RepeatDeps(r *rng.R, s *spec.Spec, run *report.Run) {
	for _, t := range s.Targets {
		if len(t.Deps) > 0 && r.Chance(1, 4) {
			d := t.Deps[r.Intn(len(t.Deps))]
			for k := r.Range(1, 3); k > 0; k-- {
				if r.Chance(1, 2) {
					t.Deps = append(t.Deps, d)
				} else {
					t.Deps = append([]string{d}, t.Deps...)
				}
			}
			run.Count("targets_listing_a_dependency_several_times", 1)
		}
	}
}
