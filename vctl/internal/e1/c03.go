package e1

import (
	"fmt"
	"strings"

	"vctl/internal/report"
	"vctl/internal/rng"
	"vctl/internal/spec"
)

// TraceOrderViolations checks dependencies-first and bounded concurrency on the O_APPEND
// trace of one build. S lines are written by a command before it does anything, E/F lines
// just before it exits, so [S,E] is contained in the command's lifetime.
func TraceOrderViolations(s *spec.Spec, p *Pred, o *Obs, workers int) (vs []Violation, maxOpen int) {
	ended := map[string]bool{}
	open := 0
	for _, line := range o.Order {
		f := strings.Fields(line)
		kind, l := f[0], f[1]
		switch kind {
		case "S":
			open++
			if open > maxOpen {
				maxOpen = open
			}
			if st := p.States[l]; st != nil {
				for d := range s.Closure([]string{l}) {
					if d == l {
						continue
					}
					// a dependency that executed in this build must have ended before; one that
					// was restored leaves no line (its presence is checked through the views)
					if o.Started[d] > 0 && !ended[d] {
						vs = append(vs, Violation{"order", "start-before-dependency-finished", fmt.Sprintf("%s started before its dependency %s finished", l, d)})
					}
				}
			}
		case "E":
			open--
			ended[l] = true
		case "F":
			open--
		}
	}
	if workers > 0 && maxOpen > workers {
		vs = append(vs, Violation{"width", "more-commands-than-workers", fmt.Sprintf("%d commands were running at once with num_workers=%d", maxOpen, workers)})
	}
	return
}

// ProcessSchedPart drives the real binary on latency-shaped graphs and checks order, once,
// width and the dependency views recorded by the commands.
func ProcessSchedPart(run *report.Run, st *Setup, n int, kinds map[string]bool) {
	Parallel(n, func(i int) {
		r := rng.Derive(uint64(run.Seed), run.Prop+"-proc", fmt.Sprint(i))
		pf := spec.DefaultProfile()
		pf.MinTargets, pf.MaxTargets, pf.SleepMs, pf.EdgeProb = 6, 14, 60, 30
		pf.NoCache = true
		s := spec.Gen(r, pf)
		gcfg := randCfg(r)
		gcfg.NumWorkers = r.Range(1, 8)
		minimal := r.Chance(1, 2)
		if minimal {
			gcfg.LoadOutputs = "minimal"
		}
		env, err := NewEnv(st.Base, fmt.Sprintf("p%d", i), st.Grog, st.Vctl, s, gcfg)
		if err != nil {
			run.Infra(err.Error())
			return
		}
		keep := false
		defer func() {
			if !keep {
				env.Cleanup()
			}
		}()
		cfg := BuildCfg{EnableCache: true, Minimal: minimal}
		for k := 0; k < 3; k++ {
			if k > 0 {
				// invalidate a few targets so that executed and restored targets are mixed
				for j := 0; j < 2; j++ {
					env.Apply(func() string { return OpSalt(r, env) })
				}
			}
			p, obs, vs, err := env.Step(BuildOpts{}, cfg, "", false)
			if err != nil {
				run.Infra(err.Error())
				return
			}
			run.Eval(1)
			run.Count("process_builds", 1)
			ov, maxOpen := TraceOrderViolations(env.Spec, p, obs, gcfg.NumWorkers)
			vs = append(vs, ov...)
			run.Count("trace_lines", len(obs.Order))
			run.Count(fmt.Sprintf("max_concurrency_seen_with_%d_workers=%d", gcfg.NumWorkers, maxOpen), 1)
			if len(obs.Order) >= 4 {
				run.Nontrivial(fmt.Sprintf("proc|%s|w%d|%s", s.Shape(), gcfg.NumWorkers, spec.H(strings.Join(obs.Order, ";"))[:10]))
			}
			bad := false
			for _, v := range vs {
				if kinds[v.Kind] {
					keep = !run.Violation("process "+v.Sig, v.What, mkReplay(i, env, obs)) || keep
				} else {
					run.Count("divergence_other_property:"+v.Kind, 1)
					Debugf("case %d: other-property divergence %s: %s | %s", i, v.Kind, v.Sig, v.What)
				}
				bad = true
			}
			if bad {
				break
			}
		}
		run.Sample(map[string]any{"process_case": i, "shape": s.Shape(), "num_workers": gcfg.NumWorkers, "history": env.Log})
	})
}
