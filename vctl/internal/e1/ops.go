package e1

import (
	"path"
	"fmt"
	"sort"
	"strings"

	"vctl/internal/rng"
	"vctl/internal/spec"
)

// Op is an edit operator applied to the workspace between builds. It returns the name of
// the operator actually applied ("" if not applicable in this state).
type Op func(r *rng.R, e *Env) string

func pickTarget(r *rng.R, s *spec.Spec, pred func(*spec.Target) bool) *spec.Target {
	var c []*spec.Target
	for _, t := range s.Targets {
		if pred == nil || pred(t) {
			c = append(c, t)
		}
	}
	if len(c) == 0 {
		return nil
	}
	return rng.Pick(r, c)
}

func pre(t *spec.Target) string {
	if t.Pkg == "" {
		return ""
	}
	return t.Pkg + "/"
}

// ownedFiles returns workspace paths of the resolved inputs of t that exist.
func ownedFiles(s *spec.Spec, t *spec.Target) []string {
	var fs []string
	for _, in := range s.ResolveInputsVirtual(t) {
		if !in.Missing {
			fs = append(fs, pre(t)+in.Path)
		}
	}
	sort.Strings(fs)
	return fs
}

func OpEditFile(r *rng.R, e *Env) string {
	t := pickTarget(r, e.Spec, func(t *spec.Target) bool { return len(ownedFiles(e.Spec, t)) > 0 })
	if t == nil {
		return ""
	}
	f := rng.Pick(r, ownedFiles(e.Spec, t))
	switch r.Intn(4) {
	case 0:
		e.Spec.Files[f] = e.Spec.Files[f] + r.Word(1, 5)
		e.Logf("append to %s", f)
		return "file-append"
	case 1:
		e.Spec.Files[f] = ""
		e.Logf("truncate %s", f)
		return "file-truncate"
	case 2:
		c := []byte(e.Spec.Files[f])
		if len(c) == 0 {
			e.Spec.Files[f] = "x"
		} else {
			i := r.Intn(len(c))
			c[i] = byte('A' + r.Intn(26))
			e.Spec.Files[f] = string(c)
		}
		e.Logf("flip byte in %s", f)
		return "file-flip"
	default:
		e.Spec.Files[f] = r.Word(1, 60)
		e.Logf("rewrite %s", f)
		return "file-rewrite"
	}
}

func globInputs(t *spec.Target) []string {
	var g []string
	for _, in := range t.Inputs {
		if strings.ContainsAny(in, "*{") {
			g = append(g, in)
		}
	}
	return g
}

// OpAddFileUnderGlob adds a new file matched by one of a target's globs.
func OpAddFileUnderGlob(r *rng.R, e *Env) string {
	t := pickTarget(r, e.Spec, func(t *spec.Target) bool { return len(globInputs(t)) > 0 })
	if t == nil {
		return ""
	}
	g := rng.Pick(r, globInputs(t))
	var name string
	switch {
	case strings.HasSuffix(g, "/**/*.txt"):
		d := strings.TrimSuffix(g, "/**/*.txt")
		name = fmt.Sprintf("%s/%s/%s.txt", d, r.Word(1, 3), r.Word(2, 4))
	case strings.HasPrefix(g, "{m,n}"):
		name = strings.Replace(strings.Replace(g, "{m,n}", "n", 1), "*", r.Word(2, 4), 1)
	default:
		name = strings.Replace(g, "*", r.Word(2, 5), 1)
	}
	e.Spec.Files[pre(t)+name] = r.Word(0, 20)
	e.Logf("add %s (matched by %s of %s)", pre(t)+name, g, t.Label())
	return "glob-add-file"
}

func OpRemoveFile(r *rng.R, e *Env) string {
	t := pickTarget(r, e.Spec, func(t *spec.Target) bool { return len(ownedFiles(e.Spec, t)) > 1 })
	if t == nil {
		return ""
	}
	f := rng.Pick(r, ownedFiles(e.Spec, t))
	explicit := false
	for _, in := range t.Inputs {
		if path.Clean(pre(t)+in) == f {
			explicit = true
		}
	}
	delete(e.Spec.Files, f)
	e.Logf("remove %s", f)
	if explicit {
		return "remove-explicit-input"
	}
	return "glob-remove-file"
}

func OpRenameFile(r *rng.R, e *Env) string {
	t := pickTarget(r, e.Spec, func(t *spec.Target) bool { return len(globInputs(t)) > 0 && len(ownedFiles(e.Spec, t)) > 0 })
	if t == nil {
		return ""
	}
	var cands []string
	for _, f := range ownedFiles(e.Spec, t) {
		if strings.Contains(f, "/g") || strings.HasPrefix(f, "g") {
			cands = append(cands, f)
		}
	}
	if len(cands) == 0 {
		return ""
	}
	f := rng.Pick(r, cands)
	nf := strings.TrimSuffix(f, ".txt") + r.Word(1, 2) + ".txt"
	e.Spec.Files[nf] = e.Spec.Files[f]
	delete(e.Spec.Files, f)
	e.Logf("rename %s -> %s", f, nf)
	return "glob-rename-file"
}

// OpAddExcludedFile adds a file matched only by an exclude pattern: no key may change.
func OpAddExcludedFile(r *rng.R, e *Env) string {
	t := pickTarget(r, e.Spec, func(t *spec.Target) bool { return len(t.Excludes) > 0 })
	if t == nil {
		return ""
	}
	var globs []string
	for _, ex := range t.Excludes {
		if strings.HasSuffix(ex, "/**/skip*.txt") {
			globs = append(globs, ex)
		}
	}
	if len(globs) == 0 {
		return ""
	}
	ex := rng.Pick(r, globs)
	d := strings.TrimSuffix(ex, "/**/skip*.txt")
	name := fmt.Sprintf("%s/skip%s.txt", d, r.Word(2, 4))
	e.Spec.Files[pre(t)+name] = r.Word(1, 10)
	e.Logf("add excluded file %s", pre(t)+name)
	return "add-excluded-file"
}

func OpSalt(r *rng.R, e *Env) string {
	t := pickTarget(r, e.Spec, nil)
	t.Salt = r.Word(4, 8)
	e.Logf("change command of %s", t.Label())
	return "command-change"
}

// OpQuiet changes the command text without changing what the command produces.
func OpQuiet(r *rng.R, e *Env) string {
	t := pickTarget(r, e.Spec, func(t *spec.Target) bool { return len(t.AllOuts()) > 0 })
	if t == nil {
		return ""
	}
	t.Quiet = r.Word(3, 6)
	e.Logf("quiet command change of %s", t.Label())
	return "quiet-command-change"
}

func OpFingerprint(r *rng.R, e *Env) string {
	t := pickTarget(r, e.Spec, nil)
	if t.Fingerprint == nil {
		t.Fingerprint = map[string]string{}
	}
	switch r.Intn(3) {
	case 0:
		t.Fingerprint["v"] = r.Word(1, 4)
	case 1:
		t.Fingerprint[r.Word(1, 3)] = r.Word(1, 3)
	default:
		if len(t.Fingerprint) > 0 {
			for k := range t.Fingerprint {
				delete(t.Fingerprint, k)
				break
			}
		} else {
			t.Fingerprint["v"] = r.Word(1, 4)
		}
	}
	e.Logf("fingerprint change of %s", t.Label())
	return "fingerprint-change"
}

func outExists(s *spec.Spec, pkg, p string) bool {
	for _, t := range s.Targets {
		for _, o := range t.AllOuts() {
			if t.Pkg == pkg && o.Path == p {
				return true
			}
		}
	}
	return false
}

func OpOutputs(r *rng.R, e *Env) string {
	t := pickTarget(r, e.Spec, nil)
	switch r.Intn(4) {
	case 0: // add an output
		p := fmt.Sprintf("%s_x%s.out", t.Name, r.Word(2, 3))
		if outExists(e.Spec, t.Pkg, p) {
			return ""
		}
		t.Outs = append(t.Outs, spec.Out{Kind: "file", Path: p})
		e.Logf("add output %s to %s", p, t.Label())
		return "output-add"
	case 1: // drop an output
		if len(t.Outs) < 2 {
			return ""
		}
		i := r.Intn(len(t.Outs))
		e.Logf("drop output %s of %s", t.Outs[i].Path, t.Label())
		t.Outs = append(t.Outs[:i], t.Outs[i+1:]...)
		return "output-drop"
	case 2: // rename an output
		if len(t.Outs) == 0 {
			return ""
		}
		i := r.Intn(len(t.Outs))
		old := t.Outs[i].Path
		np := strings.TrimSuffix(strings.TrimSuffix(old, ".out"), ".d") + r.Word(1, 2)
		if t.Outs[i].Kind == "dir" {
			np += ".d"
		} else {
			np += ".out"
		}
		if outExists(e.Spec, t.Pkg, np) {
			return ""
		}
		t.Outs[i].Path = np
		e.Logf("rename output %s -> %s of %s", old, np, t.Label())
		return "output-rename"
	default: // switch kind at the same path
		if len(t.Outs) == 0 {
			return ""
		}
		i := r.Intn(len(t.Outs))
		if strings.HasPrefix(t.Outs[i].Path, "../") || strings.Contains(t.Outs[i].Path, "/") {
			return ""
		}
		if t.Outs[i].Kind == "dir" {
			t.Outs[i].Kind = "file"
		} else {
			t.Outs[i].Kind = "dir"
		}
		e.Logf("switch output kind of %s:%s to %s", t.Label(), t.Outs[i].Path, t.Outs[i].Kind)
		return "output-kind-switch"
	}
}

func reaches(s *spec.Spec, from, to string) bool {
	return s.Closure([]string{from})[to]
}

// restricted: a test or testonly target - only test / testonly targets may depend on it (an edit
// must keep the graph valid, invalid graphs are C11's subject).
func restricted(t *spec.Target) bool {
	return strings.HasSuffix(t.Name, "test") || t.HasTag("testonly")
}

// OpDepEdge adds or removes a dependency edge, directly or through an alias.
func OpDepEdge(r *rng.R, e *Env, aliases bool) string {
	s := e.Spec
	t := pickTarget(r, s, nil)
	if len(t.Deps) > 0 && r.Chance(1, 2) {
		i := r.Intn(len(t.Deps))
		e.Logf("remove dependency %s of %s", t.Deps[i], t.Label())
		via := ""
		if s.Target(t.Deps[i]) == nil {
			via = "-via-alias"
		}
		t.Deps = append(t.Deps[:i], t.Deps[i+1:]...)
		return "dep-remove" + via
	}
	d := pickTarget(r, s, func(d *spec.Target) bool {
		if d == t || reaches(s, d.Label(), t.Label()) {
			return false
		}
		if restricted(d) && !restricted(t) {
			return false
		}
		for _, x := range t.Deps {
			if s.Resolve(x) == d.Label() {
				return false
			}
		}
		return true
	})
	if d == nil {
		return ""
	}
	ref := d.Label()
	via := ""
	if aliases && r.Chance(1, 2) {
		al := &spec.Alias{Pkg: t.Pkg, Name: fmt.Sprintf("nal%s", r.Word(3, 5)), Actual: ref}
		s.Aliases = append(s.Aliases, al)
		ref = al.Label()
		via = "-via-alias"
	}
	t.Deps = append(t.Deps, ref)
	e.Logf("add dependency %s -> %s", t.Label(), ref)
	return "dep-add" + via
}

// OpRetargetAlias points an alias at another target.
func OpRetargetAlias(r *rng.R, e *Env) string {
	s := e.Spec
	if len(s.Aliases) == 0 {
		return ""
	}
	var used []*spec.Alias
	for _, a := range s.Aliases {
		for _, t := range s.Targets {
			for _, d := range t.Deps {
				if d == a.Label() {
					used = append(used, a)
				}
			}
		}
	}
	if len(used) == 0 {
		return ""
	}
	a := rng.Pick(r, used)
	// users of the alias must not be reachable from the new actual
	d := pickTarget(r, s, func(d *spec.Target) bool {
		if s.Resolve(a.Actual) == d.Label() {
			return false
		}
		for _, t := range s.Targets {
			for _, x := range t.Deps {
				if s.Resolve(x) == s.Resolve(a.Label()) || x == a.Label() {
					if t == d || reaches(s, d.Label(), t.Label()) {
						return false
					}
					if restricted(d) && !restricted(t) {
						return false
					}
				}
			}
		}
		// other aliases pointing to a
		for _, b := range s.Aliases {
			if b.Actual == a.Label() {
				return false
			}
		}
		return true
	})
	if d == nil {
		return ""
	}
	e.Logf("retarget alias %s: %s -> %s", a.Label(), a.Actual, d.Label())
	a.Actual = d.Label()
	return "alias-retarget"
}

// OpAdjacentShift moves bytes from the end of one input to the start of the next one (in
// sorted order) of the same target.
func OpAdjacentShift(r *rng.R, e *Env) string {
	t := pickTarget(r, e.Spec, func(t *spec.Target) bool { return len(ownedFiles(e.Spec, t)) >= 2 })
	if t == nil {
		return ""
	}
	fs := ownedFiles(e.Spec, t) // sorted by workspace path == sorted by package-relative path
	i := r.Intn(len(fs) - 1)
	a, b := fs[i], fs[i+1]
	ca := e.Spec.Files[a]
	if len(ca) == 0 {
		ca = r.Word(2, 4)
		e.Spec.Files[a] = ca
		return "file-rewrite"
	}
	k := r.Range(1, len(ca))
	e.Spec.Files[a] = ca[:len(ca)-k]
	e.Spec.Files[b] = ca[len(ca)-k:] + e.Spec.Files[b]
	e.Logf("move last %d bytes of %s to the front of %s", k, a, b)
	return "adjacent-input-content-shift"
}

// OpSwapContents swaps the contents of two inputs of one target.
func OpSwapContents(r *rng.R, e *Env) string {
	t := pickTarget(r, e.Spec, func(t *spec.Target) bool { return len(ownedFiles(e.Spec, t)) >= 2 })
	if t == nil {
		return ""
	}
	fs := ownedFiles(e.Spec, t)
	i := r.Intn(len(fs) - 1)
	a, b := fs[i], fs[i+1]
	if e.Spec.Files[a] == e.Spec.Files[b] {
		return ""
	}
	e.Spec.Files[a], e.Spec.Files[b] = e.Spec.Files[b], e.Spec.Files[a]
	e.Logf("swap contents of %s and %s", a, b)
	return "swap-input-contents"
}

// OpMissingVsEmpty turns an explicitly listed empty input into a missing one or back.
func OpMissingVsEmpty(r *rng.R, e *Env) string {
	t := pickTarget(r, e.Spec, func(t *spec.Target) bool {
		for _, in := range t.Inputs {
			if !strings.ContainsAny(in, "*{") {
				return true
			}
		}
		return false
	})
	if t == nil {
		return ""
	}
	var ex []string
	for _, in := range t.Inputs {
		if !strings.ContainsAny(in, "*{") {
			ex = append(ex, in)
		}
	}
	f := path.Clean(pre(t) + rng.Pick(r, ex)) // the file a literal input names, however it is spelled
	if c, ok := e.Spec.Files[f]; ok {
		if c == "" {
			delete(e.Spec.Files, f)
			e.Logf("delete empty explicit input %s", f)
			return "explicit-input-empty-to-missing"
		}
		e.Spec.Files[f] = ""
		return "file-truncate"
	}
	e.Spec.Files[f] = ""
	e.Logf("create empty explicit input %s", f)
	return "explicit-input-missing-to-empty"
}
