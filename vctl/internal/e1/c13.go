package e1

import (
	"fmt"
	"sort"
	"strings"
	"time"
	"vctl/internal/grog"

	"vctl/internal/report"
	"vctl/internal/rng"
	"vctl/internal/spec"
)

// RunC13: taint, no-cache and enable_cache=false force execution precisely.
func RunC13(tier string) int {
	run := report.New("C13", tier, "exploration",
		"seeded random workspaces with no-cache targets at random positions x histories mixing edits, `grog taint <labels>`, builds with and without --enable-cache=false and no-op rebuilds; "+
			"the executed set of every build is compared with the reference model (tainted/no-cache/cache-disabled => must execute; taint consumed by a successful execution; dependants restored when the forced target reproduced identical outputs); "+
			"non-trivial = the history had a forced execution whose dependants were all restored and a build after taint consumption with zero executions of the formerly tainted target; distinct = shape + step sequence")
	st, err := Prepare(run, false)
	if err != nil {
		run.Infra(err.Error())
		return run.Finish()
	}
	defer st.Cleanup()
	n := tierN(tier, 40, 500)
	Parallel(n, func(i int) {
		r := rng.Derive(uint64(run.Seed), "C13", fmt.Sprint(i))
		pf := spec.DefaultProfile()
		pf.NoCache = true
		pf.MinTargets, pf.MaxTargets = 4, 9
		if r.Chance(1, 2) {
			// package paths that differ only in their separators (a/b next to a_b), with the same
			// target names in both: whatever is keyed on a label must keep them apart
			pf.ExtraPkgs = []string{"a_b", "a_b", "lib_x", "a_b_c", "a-b"}
			pf.MaxPackages = 5
		}
		s := spec.Gen(r, pf)
		// no-cache targets whose only output is a bin output, with cacheable dependants: the
		// output hash of a forced target has to cover the bin output as well
		for k, t := range s.Targets {
			if len(s.Dependants(t.Label())) == 0 {
				continue
			}
			if (t.HasTag("no-cache") && r.Chance(1, 2)) || (k == 0 && r.Chance(1, 3)) {
				if !t.HasTag("no-cache") {
					t.Tags = append(t.Tags, "no-cache")
				}
				t.Outs = nil
				t.Bin = fmt.Sprintf("t%d.bin", k)
				for _, u := range s.Targets {
					if s.Dependants(t.Label())[u.Label()] && u.HasTag("no-cache") && r.Chance(1, 2) {
						u.Tags = nil
					}
				}
			}
		}
		// external failure causes of three kinds: the command exits non-zero, it exits 0 but
		// leaves its declared outputs missing, or it exits 0 but destroys the condition its own
		// output check asserts (the check passed before the execution). A failed execution of a
		// tainted target must not use up the taint, whatever the failure looks like.
		var checkMarkers []string
		for _, t := range s.Targets {
			if r.Chance(1, 3) && !t.HasTag("no-cache") {
				switch k := r.Intn(3); {
				case k == 1 && len(t.AllOuts()) > 0:
					t.OmitIf = "markers/omit_" + t.MID()
				case k == 2:
					m := "markers/ok_" + t.MID()
					t.Checks = append(t.Checks, spec.Check{Marker: m})
					t.Untouch, t.UntouchIf = m, "markers/break_"+t.MID()
					checkMarkers = append(checkMarkers, m)
				default:
					t.FailIf = "markers/fail_" + t.MID()
				}
			}
		}
		failCtl := func(t *spec.Target) string {
			switch {
			case t.FailIf != "":
				return t.FailIf
			case t.OmitIf != "":
				return t.OmitIf
			}
			return t.UntouchIf
		}
		gcfg := randCfg(r)
		minimal := r.Chance(1, 3)
		if minimal {
			gcfg.LoadOutputs = "minimal"
		}
		env, err := NewEnv(st.Base, fmt.Sprintf("c%d", i), st.Grog, st.Vctl, s, gcfg)
		if err != nil {
			run.Infra(err.Error())
			return
		}
		env.MaybeTTY(run, fmt.Sprint(i), 6)
		env.EnableHookLog()
		for _, m := range checkMarkers {
			env.SetMarker(m, true)
		}
		keep := false
		defer func() {
			if !keep {
				env.Cleanup()
			}
		}()
		ops := c01Ops(pf.Aliases)
		steps := r.Range(8, 14)
		var names []string
		forcedWithRestoredDependants, consumed := false, false
		lastTainted := map[string]bool{}
		for k := 0; k <= steps; k++ {
			cfg := BuildCfg{EnableCache: true, Minimal: minimal}
			bo := BuildOpts{}
			name := "cold"
			if k > 0 {
				name = ""
				switch x := r.Intn(10); {
				case x < 3: // taint some targets
					var ls []string
					for _, t := range env.Spec.Targets {
						ls = append(ls, t.Label())
					}
					rng.Shuffle(r, ls)
					if r.Chance(1, 2) {
						// taint by pattern: package wildcard, recursive wildcard, name in every
						// package below, relative forms from a package directory, shorthand
						t := env.Spec.Target(ls[0])
						var pat, cwd, abs string
						switch r.Intn(6) {
						case 0:
							abs = "//" + t.Pkg + ":all"
							pat = abs
						case 1:
							abs = "//" + t.Pkg + "/..."
							if t.Pkg == "" {
								abs = "//..."
							}
							pat = abs
						case 2:
							abs = "//...:" + t.Name
							pat = abs
						case 3:
							cwd, pat, abs = t.Pkg, ":"+t.Name, t.Label()
						case 4:
							cwd, pat, abs = t.Pkg, ":all", "//"+t.Pkg+":all"
						default:
							abs = t.Label()
							pat = abs
							if parts := strings.Split(t.Pkg, "/"); t.Pkg != "" && parts[len(parts)-1] == t.Name {
								pat = "//" + t.Pkg // shorthand
							}
						}
						res := env.RunTaintFrom(cwd, []string{pat})
						if res.Exit != 0 {
							run.Infra("grog taint failed: " + tail(res.Stderr+res.Stdout, 300))
							return
						}
						n := 0
						for _, u := range env.Spec.Targets {
							if MatchPattern(abs, u.Pkg, u.Name) {
								env.Taint[u.Label()] = true
								n++
							}
						}
						run.Count("taints_by_pattern", 1)
						run.Count("targets_tainted_by_pattern", n)
						// grog says how many targets it tainted: compare with the reference matcher
						if want := fmt.Sprintf("Tainted %d target", n); !strings.Contains(res.Stdout+res.Stderr, want) {
							keep = !run.Violation("taint-pattern-matches-differ", fmt.Sprintf("grog taint %s (from %q) reports %q, the reference matcher finds %d targets", pat, cwd, lastLineOf(res.Stdout+res.Stderr), n), mkReplay(i, env, nil)) || keep
							return
						}
						name = "taint-pattern"
						break
					}
					ls = ls[:r.Range(1, min(2, len(ls)))]
					sort.Strings(ls)
					res := env.RunTaint(ls)
					if res.Exit != 0 {
						run.Infra("grog taint failed: " + tail(res.Stderr+res.Stdout, 300))
						return
					}
					for _, l := range ls {
						env.Taint[l] = true
					}
					name = "taint"
				case x < 4:
					name = "noop"
				case x < 5: // toggle an external failure cause of a (possibly tainted) target
					var cands []*spec.Target
					for _, t := range env.Spec.Targets {
						if failCtl(t) != "" {
							cands = append(cands, t)
						}
					}
					if len(cands) == 0 {
						name = "noop"
						break
					}
					t := rng.Pick(r, cands)
					ctl := failCtl(t)
					on := env.markerOn(ctl)
					env.SetMarker(ctl, !on)
					if t.Untouch != "" {
						env.SetMarker(t.Untouch, true) // the checked condition holds (again) when the build starts
					}
					name = map[bool]string{true: "failure-cause-removed", false: "failure-cause-set"}[on]
					env.Logf("%s: %s", name, ctl)
					run.Count("failure_cause_toggled:"+strings.SplitN(strings.TrimPrefix(ctl, "markers/"), "_", 2)[0], 1)
					if !on && r.Chance(1, 2) {
						res := env.RunTaint([]string{t.Label()})
						if res.Exit != 0 {
							run.Infra("grog taint failed")
							return
						}
						env.Taint[t.Label()] = true
						name += "+taint"
					}
				case x < 6:
					name = "cache-disabled-build"
					cfg.EnableCache = false
					bo.DisableCache = true
				default:
					for try := 0; try < 6 && name == ""; try++ {
						op := pickOp(r, ops)
						name = env.Apply(func() string { return op(r, env) })
					}
					if name == "" {
						name = "noop"
					}
					bo.Patterns = somePatterns(r, env.Spec)
				}
				if _, err := env.Spec.Eval(); err != nil {
					return
				}
			}
			names = append(names, name)
			tainted := map[string]bool{}
			for l := range env.Taint {
				tainted[l] = true
			}
			p, obs, vs, err := env.Step(bo, cfg, "", false)
			if err != nil {
				run.Infra(err.Error())
				return
			}
			run.Eval(1)
			run.Count("builds", 1)
			run.Count("step:"+name, 1)
			for l := range p.Selected {
				if p.Class[l] == MustExec && (p.Reason[l] == "tainted" || p.Reason[l] == "no-cache" || p.Reason[l] == "cache-disabled") {
					run.Count("forced:"+p.Reason[l], 1)
					if obs.Started[l] > 0 && p.Reason[l] != "cache-disabled" {
						all, any := true, false
						for d := range env.Spec.Dependants(l) {
							if p.Selected[d] && p.Class[d] == MustNotExec {
								any = true
								if obs.Started[d] > 0 {
									all = false
								}
							}
						}
						if all && any {
							forcedWithRestoredDependants = true
						}
					}
				}
				if lastTainted[l] && p.Class[l] == MustNotExec && obs.Started[l] == 0 {
					consumed = true
				}
			}
			lastTainted = map[string]bool{}
			for l := range tainted {
				if p.Selected[l] && obs.Ended[l] > 0 {
					lastTainted[l] = true
				}
			}
			reported := false
			for _, v := range vs {
				if v.Kind == "exec" && !reported {
					keep = !run.Violation(v.Sig, v.What, mkReplay(i, env, obs))
					reported = true
				} else if v.Kind != "exec" {
					run.Count("divergence_other_property:"+v.Kind, 1)
					Debugf("case %d: other-property divergence %s: %s | %s", i, v.Kind, v.Sig, v.What)
				}
			}
			if len(vs) > 0 {
				break
			}
		}
		if forcedWithRestoredDependants && consumed {
			run.Nontrivial(s.Shape() + "|" + strings.Join(names, ","))
		}
		run.Sample(map[string]any{"case": i, "shape": s.Shape(), "history": env.Log})
	})
	// The taint is consumed by the successful execution - also when whatever removes it is slow:
	// every target is tainted (by pattern), the build that executes them all runs with a delay
	// injected at the hook point in front of the taint removal (plain and on a terminal, where
	// grog exits as soon as the build is done), and the next build must execute nothing.
	if report.Part("taintconsumed") {
		Parallel(tierN(tier, 10, 80), func(i int) {
			r := rng.Derive(uint64(run.Seed), "C13-consumed", fmt.Sprint(i))
			pf := spec.DefaultProfile()
			pf.MinTargets, pf.MaxTargets = 2, 6
			pf.NoCache = false
			s := spec.Gen(r, pf)
			env, err := NewEnv(st.Base, fmt.Sprintf("tc%d", i), st.Grog, st.Vctl, s, randCfg(r))
			if err != nil {
				run.Infra(err.Error())
				return
			}
			keep := false
			defer func() {
				if !keep {
					env.Cleanup()
				}
			}()
			env.MaybeTTY(run, "consumed"+fmt.Sprint(i), 2)
			cfg := BuildCfg{EnableCache: true}
			if _, obs, vs, err := env.Step(BuildOpts{}, cfg, "cold", false); err != nil || len(vs) > 0 || obs.Res.Exit != 0 {
				return
			}
			if env.RunTaint([]string{"//..."}).Exit != 0 {
				run.Infra("grog taint failed")
				return
			}
			for _, t := range env.Spec.Targets {
				env.Taint[t.Label()] = true
			}
			delay := rng.Pick(r, []int{0, 20000, 150000, 600000})
			bo := BuildOpts{Env: []string{fmt.Sprintf("GROG_VERIF_PLAN=taint.clear=delay:%d", delay)}}
			env.Logf("every target tainted; taint removal delayed by %d us at its hook point", delay)
			_, obs, vs, err := env.Step(bo, cfg, "all-tainted", false)
			if err != nil {
				run.Infra(err.Error())
				return
			}
			run.Eval(1)
			run.Count("builds_with_every_target_tainted", 1)
			if len(vs) > 0 || obs.Res.Exit != 0 {
				for _, v := range vs {
					if v.Kind == "exec" {
						keep = !run.Violation(v.Sig, v.What, mkReplay(i, env, obs)) || keep
						return
					}
				}
				return
			}
			_, obs2, vs2, err := env.Step(BuildOpts{}, cfg, "after-all-tainted", false)
			if err != nil {
				run.Infra(err.Error())
				return
			}
			run.Eval(1)
			run.Count("builds_after_every_taint_was_consumed", 1)
			run.Nontrivial(fmt.Sprintf("consumed|%s|%d|tty=%v", s.Shape(), delay, env.Pty))
			if len(obs2.Started) > 0 {
				keep = !run.Violation("taint-not-consumed-by-the-successful-execution",
					fmt.Sprintf("every target was tainted and executed successfully (exit 0); the next build executed %v again (terminal: %v, taint removal delayed by %d us)", keys(obs2.Started), env.Pty, delay),
					mkReplay(i, env, obs2)) || keep
				return
			}
			_ = vs2
		})
	}
	// A taint placed while a build is already executing the target (grog taint takes no
	// workspace lock) belongs to the NEXT build: the build in flight decided to run the target
	// before the taint existed and must not consume it.
	if report.Part("taintduring") {
		Parallel(tierN(tier, 6, 40), func(i int) {
			r := rng.Derive(uint64(run.Seed), "C13-during", fmt.Sprint(i))
			s := &spec.Spec{Files: map[string]string{"p/t.txt": "t1\n", "p/u.txt": "u1\n"}}
			t := &spec.Target{Pkg: "p", Name: "gen", Salt: r.Word(4, 8), Inputs: []string{"t.txt"}, Outs: []spec.Out{{Kind: "file", Path: "gen.out"}}, SleepMs: 1500}
			u := &spec.Target{Pkg: "p", Name: "use", Salt: r.Word(4, 8), Inputs: []string{"u.txt"}, Deps: []string{"//p:gen"}, Outs: []spec.Out{{Kind: "file", Path: "use.out"}}}
			s.Targets = []*spec.Target{t, u}
			gcfg := randCfg(r)
			if r.Chance(1, 3) {
				gcfg.LoadOutputs = "minimal"
			}
			env, err := NewEnv(st.Base, fmt.Sprintf("td%d", i), st.Grog, st.Vctl, s, gcfg)
			if err != nil {
				run.Infra(err.Error())
				return
			}
			keep := false
			defer func() {
				if !keep {
					env.Cleanup()
				}
			}()
			if obs := env.RunBuild(BuildOpts{}); obs.Res.Exit != 0 {
				return
			}
			why := rng.Pick(r, []string{"edit", "cache-disabled"})
			bo := BuildOpts{}
			if why == "edit" {
				s.Files["p/t.txt"] = "t2\n"
				if err := env.Sync(); err != nil {
					run.Infra(err.Error())
					return
				}
			} else {
				bo.DisableCache = true
			}
			done := make(chan *Obs, 1)
			go func() { done <- env.RunBuild(bo) }()
			// wait until the command of //p:gen has started in the build in flight (b2)
			started := false
			for w := 0; w < 300 && !started; w++ {
				time.Sleep(10 * time.Millisecond)
				started = env.ReadTrace("b2").Started["//p:gen"] > 0
			}
			var tres *grog.Result
			if started {
				tres = env.M.Run([]string{"taint", "//p:gen"}, grog.RunOpts{Build: "taint"})
			}
			obs2 := <-done
			if !started || tres == nil || tres.Exit != 0 || obs2.Res.Exit != 0 || obs2.Ended["//p:gen"] == 0 {
				run.Count("taint_during_build_cases_not_judged(timing)", 1)
				return
			}
			env.Logf("grog taint //p:gen completed while b2 (%s) was executing //p:gen", why)
			obs3 := env.RunBuild(BuildOpts{})
			run.Eval(1)
			run.Count("taints_placed_while_the_target_was_executing", 1)
			run.Nontrivial(fmt.Sprintf("taint-during|%s|%s", why, gcfg.LoadOutputs))
			if obs3.Res.Exit != 0 {
				return
			}
			if obs3.Started["//p:gen"] == 0 {
				keep = !run.Violation("taint-placed-during-a-build-is-lost why="+why,
					fmt.Sprintf("grog taint //p:gen completed while a build (%s) was executing //p:gen; that build finished successfully and the next build did not execute //p:gen: the taint was consumed by an execution that was decided before it existed", why),
					mkReplay(i, env, obs3)) || keep
			}
		})
	}
	run.Assume("what a cache-disabled build leaves behind in the cache is not fixed by the statement: the following build of those targets is may-exec")
	return run.Finish()
}

func lastLineOf(s string) string {
	ls := strings.Split(strings.TrimSpace(s), "\n")
	return ls[len(ls)-1]
}
