package e1

import (
	"fmt"
	"sort"
	"strings"

	"vctl/internal/report"
	"vctl/internal/rng"
	"vctl/internal/spec"
)

func startedSet(o *Obs) string {
	var ks []string
	for l := range o.Started {
		ks = append(ks, l)
	}
	sort.Strings(ks)
	return strings.Join(ks, " ")
}

// RunC15: load_outputs=minimal is observationally equivalent for what gets built.
func RunC15(tier string) int {
	run := report.New("C15", tier, "exploration",
		"lock-step runs of the same seeded history in two separate workspaces and caches (load_outputs=all vs minimal): edits, no-op rebuilds, partial selections, and cache faults (blobs of a cached dependency deleted in both caches); "+
			"judged per build: equal exit status, equal executed set (without faults), every command that executed under minimal recorded dependency outputs that are present and current (also through aliases), outputs of executed targets byte-equal to the reference; "+
			"non-trivial = a minimal-mode build in which a command executed while at least one of its dependencies was a cache hit; distinct = shape + step sequence")
	st, err := Prepare(run, false)
	if err != nil {
		run.Infra(err.Error())
		return run.Finish()
	}
	defer st.Cleanup()
	n := tierN(tier, 30, 400)
	Parallel(n, func(i int) {
		pf := spec.DefaultProfile()
		pf.MinTargets, pf.MaxTargets = 4, 10
		pf.NoCache = true
		mk := func(tag, mode string) (*Env, *rng.R, string) {
			r := rng.Derive(uint64(run.Seed), "C15", fmt.Sprint(i))
			s := spec.Gen(r, pf)
			gcfg := randCfg(r)
			gcfg.LoadOutputs = mode
			env, err := NewEnv(st.Base, fmt.Sprintf("c%d%s", i, tag), st.Grog, st.Vctl, s, gcfg)
			if err != nil {
				run.Infra(err.Error())
				return nil, nil, ""
			}
			return env, r, env.EnableHookLog()
		}
		a, ra, logA := mk("a", "all")
		b, rb, logB := mk("m", "minimal")
		if a == nil || b == nil {
			return
		}
		keep := false
		defer func() {
			if !keep {
				a.Cleanup()
				b.Cleanup()
			}
		}()
		ops := c01Ops(pf.Aliases)
		steps := ra.Range(6, 12)
		_ = rb.Range(6, 12)
		var names []string
		nontrivial := false
		snapsA, snapsB := []*spec.Spec{a.Spec.Clone()}, []*spec.Spec{b.Spec.Clone()}
		fault := false // sticky: once blobs were deleted, later builds may legitimately differ in what they re-run
		for k := 0; k <= steps; k++ {
			name := "cold"
			var patterns []string
			if k > 0 {
				name = ""
				x := ra.Intn(10)
				_ = rb.Intn(10)
				switch {
				case x < 1:
					name = "noop"
				case x < 2:
					switch y := ra.Intn(3); {
					case y == 0: // fresh checkout with a warm cache
						_ = rb.Intn(3)
						a.WipeOutputs()
						b.WipeOutputs()
						name = "wipe-outputs"
					case y == 1 && len(snapsA) > 1: // revert both to an earlier state
						_ = rb.Intn(3)
						j := ra.Intn(len(snapsA) - 1)
						_ = rb.Intn(len(snapsB) - 1)
						name = a.Apply(func() string { a.Spec = snapsA[j].Clone(); return "revert-to-earlier-state" })
						b.Apply(func() string { b.Spec = snapsB[j].Clone(); return "revert-to-earlier-state" })
						a.Logf("revert to source state %d", j)
						b.Logf("revert to source state %d", j)
					default: // taint the same target in both
						_ = rb.Intn(3)
						var ls []string
						for _, t := range a.Spec.Targets {
							ls = append(ls, t.Label())
						}
						sort.Strings(ls)
						l := ls[ra.Intn(len(ls))]
						_ = rb.Intn(len(ls))
						if a.RunTaint([]string{l}).Exit != 0 || b.RunTaint([]string{l}).Exit != 0 {
							run.Infra("grog taint failed")
							return
						}
						a.Taint[l], b.Taint[l] = true, true
						name = "taint"
					}
				case x < 4: // cache fault on a cached target, same target in both caches
					ts := a.CachedTargetsWithOutputs()
					if len(ts) == 0 {
						name = "noop"
						break
					}
					sort.Slice(ts, func(p, q int) bool { return ts[p].Label() < ts[q].Label() })
					t := ts[ra.Intn(len(ts))]
					_ = rb.Intn(len(ts))
					whichSeed := ra.U64()
					_ = rb.U64()
					sel := func(idx, n int) bool { return (whichSeed>>uint(idx%60))&1 == 1 || n == 1 }
					na := a.DeleteBlobsOf(t.Label(), logA, sel)
					nb := b.DeleteBlobsOf(t.Label(), logB, sel)
					name = "cache-fault-blobs-deleted"
					a.Logf("deleted %d blobs of %s from the cache", na, t.Label())
					b.Logf("deleted %d blobs of %s from the cache", nb, t.Label())
					run.Count("blobs_deleted", na+nb)
					fault = true
					if ra.Chance(1, 2) {
						a.WipeOutputs()
						b.WipeOutputs()
					}
					_ = rb.Chance(1, 2)
					// also invalidate a dependant so that the dependency's outputs are needed
					deps := a.Spec.Dependants(t.Label())
					var dl []string
					for d := range deps {
						dl = append(dl, d)
					}
					sort.Strings(dl)
					if len(dl) > 0 {
						// one dependant, or all of them at once (they then ask for the lost
						// outputs concurrently)
						pick := dl[ra.Intn(len(dl)):]
						_ = rb.Intn(len(dl))
						if all := ra.Chance(1, 2); !all {
							pick = pick[:1]
						} else {
							pick = dl
							run.Count("faults_with_all_dependants_invalidated", 1)
						}
						_ = rb.Chance(1, 2)
						w := ra.Word(4, 8)
						_ = rb.Word(4, 8)
						for _, d := range pick {
							d := d
							a.Apply(func() string { a.Spec.Target(d).Salt = w; return "command-change" })
							b.Apply(func() string { b.Spec.Target(d).Salt = w; return "command-change" })
						}
					}
					for l, st := range a.Memo {
						_ = l
						_ = st
					}
				default:
					for try := 0; try < 6 && name == ""; try++ {
						opA := pickOp(ra, ops)
						opB := pickOp(rb, ops)
						name = a.Apply(func() string { return opA(ra, a) })
						nb := b.Apply(func() string { return opB(rb, b) })
						if nb != name {
							run.Infra(fmt.Sprintf("lock-step histories diverged: %q vs %q", name, nb))
							return
						}
					}
					if name == "" {
						name = "noop"
					}
					patterns = somePatterns(ra, a.Spec)
					_ = somePatterns(rb, b.Spec)
				}
				if _, err := a.Spec.Eval(); err != nil {
					return
				}
			}
			names = append(names, name)
			snapsA, snapsB = append(snapsA, a.Spec.Clone()), append(snapsB, b.Spec.Clone())
			// mark faulted entries as not fixed by the model
			if fault {
				for k := range a.Memo {
					a.Memo[k] = "lost"
				}
				for k := range b.Memo {
					b.Memo[k] = "lost"
				}
			}
			pa, oa, va, err := a.Step(BuildOpts{Patterns: patterns}, BuildCfg{EnableCache: true}, "", false)
			if err != nil {
				run.Infra(err.Error())
				return
			}
			pb, ob, vb, err := b.Step(BuildOpts{Patterns: patterns}, BuildCfg{EnableCache: true, Minimal: true}, "", false)
			if err != nil {
				run.Infra(err.Error())
				return
			}
			_ = pa
			run.Eval(1)
			run.Count("lockstep_builds", 1)
			run.Count("step:"+name, 1)
			stop := false
			for _, v := range va {
				run.Count("mode_all_divergence_other_property:"+v.Kind, 1)
				Debugf("case %d (all): %s: %s | %s", i, v.Kind, v.Sig, v.What)
				stop = true
			}
			if stop {
				break
			}
			rep := func(sig, what string) {
				keep = !run.Violation(sig, what, map[string]any{"case": i, "history_all": a.Log, "history_minimal": b.Log,
					"stdout_minimal": tail(ob.Res.Stdout, 1500), "stderr_minimal": tail(ob.Res.Stderr, 800)}) || keep
				stop = true
			}
			if (oa.Res.Exit == 0) != (ob.Res.Exit == 0) {
				f := ""
				if fault {
					f = " under-cache-fault"
				}
				rep("exit-status-differs"+f, fmt.Sprintf("mode all exited %d, mode minimal exited %d; minimal stderr tail: %s", oa.Res.Exit, ob.Res.Exit, tail(ob.Res.Stdout+ob.Res.Stderr, 500)))
			} else if !fault && startedSet(oa) != startedSet(ob) {
				rep("executed-set-differs "+setDiffKind(b.Spec, oa, ob), fmt.Sprintf("mode all executed [%s], mode minimal executed [%s]", startedSet(oa), startedSet(ob)))
			}
			// with or without faults: under minimal a dependency is loaded or re-run once, whoever
			// asks for it - two executions of one target that overlap, or that both succeed in one
			// build, mean that two dependants re-ran it independently
			if !stop {
				var twice []string
				for l, n := range ob.Ended {
					if n > 1 || ob.Overlap[l] > 0 {
						twice = append(twice, l)
					}
				}
				for l := range ob.Overlap {
					if ob.Ended[l] <= 1 {
						twice = append(twice, l)
					}
				}
				sort.Strings(twice)
				if len(twice) > 0 {
					f := ""
					if fault {
						f = " under-cache-fault"
					}
					rep("dependency-executed-twice-in-one-build"+f, fmt.Sprintf("mode minimal ran %v more than once in one build (executions: %v, overlapping pairs: %v); mode all executed [%s]", twice, ob.Ended, ob.Overlap, startedSet(oa)))
				}
			}
			if !stop {
				for _, v := range vb {
					switch v.Kind {
					case "view", "bytes":
						rep(v.Sig, "minimal mode: "+v.What)
					case "crash", "hang":
						run.Count("divergence_other_property:"+v.Kind, 1)
						stop = true
					case "exec", "once", "exit":
						if fault {
							continue // lost entries: the executed set is not fixed
						}
						run.Count("mode_minimal_divergence_other_property:"+v.Kind, 1)
						Debugf("case %d (minimal): %s: %s | %s", i, v.Kind, v.Sig, v.What)
					}
					if stop {
						break
					}
				}
			}
			// non-triviality: a command executed under minimal while one of its deps was a cache hit
			for l := range ob.Started {
				if st := pb.States[l]; st != nil {
					for _, d := range st.DirectDeps {
						if ob.Started[d] == 0 {
							nontrivial = true
							run.Count("minimal_executions_with_restored_dependency", 1)
						}
					}
				}
			}
			if stop {
				break
			}
		}
		if nontrivial {
			run.Nontrivial(a.Spec.Shape() + "|" + strings.Join(names, ","))
		}
		run.Sample(map[string]any{"case": i, "shape": a.Spec.Shape(), "history_minimal": b.Log})
	})
	// directed: one cached dependency, several dependants that all miss the cache at once while
	// the dependency's blobs are gone and the workspace is a fresh checkout - every dependant asks
	// for the lost outputs at the same moment; the dependency must be re-run once, by one of them
	Parallel(tierN(tier, 16, 160), func(i int) {
		r := rng.Derive(uint64(run.Seed), "C15-fan", fmt.Sprint(i))
		k := r.Range(2, 4)
		s := &spec.Spec{Files: map[string]string{"gen.in": r.Word(3, 20) + "\n"}}
		gen := &spec.Target{Name: "gen", Salt: r.Word(4, 8), Inputs: []string{"gen.in"}, SleepMs: r.Range(60, 250),
			Outs: []spec.Out{{Kind: "file", Path: "gen.out"}}}
		if r.Chance(1, 2) {
			gen.Outs = append(gen.Outs, spec.Out{Kind: "dir", Path: rng.Pick(r, []string{"gen.d", "fltgen.d", "dupgen.d"})})
		}
		if r.Chance(1, 3) {
			gen.Pkg = "lib"
			s.Files = map[string]string{"lib/gen.in": r.Word(3, 20) + "\n"}
		}
		s.Targets = append(s.Targets, gen)
		for j := 0; j < k; j++ {
			ref := gen.Label()
			if r.Chance(1, 3) {
				al := &spec.Alias{Name: fmt.Sprintf("al%d", j), Actual: ref}
				s.Aliases = append(s.Aliases, al)
				ref = al.Label()
			}
			in := fmt.Sprintf("d%d.in", j)
			s.Files[in] = r.Word(3, 20) + "\n"
			s.Targets = append(s.Targets, &spec.Target{Name: fmt.Sprintf("d%d", j), Salt: r.Word(4, 8), Deps: []string{ref}, Inputs: []string{in},
				Outs: []spec.Out{{Kind: "file", Path: fmt.Sprintf("d%d.out", j)}}})
		}
		gcfg := grogCfgWorkers(r.Range(k, k+2))
		gcfg.LoadOutputs = "minimal"
		env, err := NewEnv(st.Base, fmt.Sprintf("fan%d", i), st.Grog, st.Vctl, s, gcfg)
		if err != nil {
			run.Infra(err.Error())
			return
		}
		keep := false
		defer func() {
			if !keep {
				env.Cleanup()
			}
		}()
		hookLog := env.EnableHookLog()
		cfg := BuildCfg{EnableCache: true, Minimal: true}
		if _, obs, vs, err := env.Step(BuildOpts{}, cfg, "cold", false); err != nil || obs.Res.Exit != 0 || len(vs) > 0 {
			run.Count("fan_cases_skipped_cold_build_diverged", 1)
			return
		}
		env.WipeOutputs()
		n := env.DeleteBlobsOf(gen.Label(), hookLog, func(idx, n int) bool { return true })
		env.Logf("deleted %d blobs of %s from the cache", n, gen.Label())
		for _, t := range s.Targets[1:] {
			t := t
			env.Apply(func() string { t.Salt = r.Word(4, 8); return "command-change" })
		}
		for k := range env.Memo {
			env.Memo[k] = "lost"
		}
		_, ob, vs, err := env.Step(BuildOpts{}, cfg, "fan-fault", false)
		if err != nil {
			run.Infra(err.Error())
			return
		}
		run.Eval(1)
		run.Count("fan_fault_builds", 1)
		run.Count("fan_dependants_asking_at_once", k)
		if ob.Started[gen.Label()] > 0 {
			run.Nontrivial(fmt.Sprintf("fan|k=%d|outs=%d", k, len(gen.Outs)))
		}
		rep := func(sig, what string) {
			keep = !run.Violation(sig, what, map[string]any{"case": i, "history_minimal": env.Log, "stdout_minimal": tail(ob.Res.Stdout, 1500), "trace": ob.Order}) || keep
		}
		switch {
		case ob.Res.Exit != 0:
			rep("exit-status-differs under-cache-fault", fmt.Sprintf("mode minimal failed (exit %d) where mode all re-runs the dependency and succeeds: %s", ob.Res.Exit, tail(ob.Res.Stdout+ob.Res.Stderr, 400)))
		case ob.Ended[gen.Label()] > 1 || ob.Overlap[gen.Label()] > 0:
			rep("dependency-executed-twice-in-one-build under-cache-fault", fmt.Sprintf("%s was re-run %d times (overlapping pairs: %d) for %d dependants asking for its lost outputs", gen.Label(), ob.Started[gen.Label()], ob.Overlap[gen.Label()], k))
		default:
			for _, v := range vs {
				if v.Kind == "view" || v.Kind == "bytes" {
					rep(v.Sig, "minimal mode: "+v.What)
					break
				}
			}
		}
	})
	// transient read faults while dependency outputs are being loaded: every command that
	// still runs must find its direct dependencies' outputs present and current, and a build
	// that exits 0 must have left reference bytes
	if report.Part("bintool") {
		BinToolPart(run, st, tierN(tier, 12, 120))
	}
	if report.Part("reexport") {
		ReExportPart(run, st, tierN(tier, 12, 120))
	}
	if report.Part("getfault") {
		GetFaultPart(run, st, tierN(tier, 16, 120), tierN(tier, 8, 40), true, map[string]bool{"view": true, "bytes": true})
	}
	if report.Part("sysfault") {
		SysFaultPart(run, st, tierN(tier, 6, 40), tierN(tier, 8, 30), map[string]bool{"read": true}, map[string]bool{"view": true, "bytes": true}, true)
	}
	run.Assume("under injected cache faults the executed sets may legitimately differ (a dependency whose outputs are irretrievable must be re-run under minimal, while under all they are already in the workspace): only exit status, dependency views and bytes are judged there")
	return run.Finish()
}

func setDiffKind(s *spec.Spec, oa, ob *Obs) string {
	kinds := map[string]bool{}
	for l := range ob.Started {
		if oa.Started[l] == 0 {
			k := "extra-in-minimal"
			if t := s.Target(l); t != nil && t.HasTag("no-cache") {
				k += "(no-cache)"
			}
			kinds[k] = true
		}
	}
	for l := range oa.Started {
		if ob.Started[l] == 0 {
			kinds["missing-in-minimal"] = true
		}
	}
	var ks []string
	for k := range kinds {
		ks = append(ks, k)
	}
	sort.Strings(ks)
	return strings.Join(ks, "+")
}
