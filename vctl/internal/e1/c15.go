package e1

import (
	"fmt"
	"sort"
	"strings"

	"vctl/internal/report"
	"vctl/internal/rng"
	"vctl/internal/spec"
)

func startedSet(o *Obs) string {
	var ks []string
	for l := range o.Started {
		ks = append(ks, l)
	}
	sort.Strings(ks)
	return strings.Join(ks, " ")
}

// RunC15: load_outputs=minimal is observationally equivalent for what gets built.
func RunC15(tier string) int {
	run := report.New("C15", tier, "exploration",
		"lock-step runs of the same seeded history in two separate workspaces and caches (load_outputs=all vs minimal): edits, no-op rebuilds, partial selections, and cache faults (blobs of a cached dependency deleted in both caches); "+
			"judged per build: equal exit status, equal executed set (without faults), every command that executed under minimal recorded dependency outputs that are present and current (also through aliases), outputs of executed targets byte-equal to the reference; "+
			"non-trivial = a minimal-mode build in which a command executed while at least one of its dependencies was a cache hit; distinct = shape + step sequence")
	st, err := Prepare(run, false)
	if err != nil {
		run.Infra(err.Error())
		return run.Finish()
	}
	defer st.Cleanup()
	n := tierN(tier, 30, 400)
	Parallel(n, func(i int) {
		pf := spec.DefaultProfile()
		pf.MinTargets, pf.MaxTargets = 4, 10
		pf.NoCache = true
		mk := func(tag, mode string) (*Env, *rng.R, string) {
			r := rng.Derive(uint64(run.Seed), "C15", fmt.Sprint(i))
			s := spec.Gen(r, pf)
			gcfg := randCfg(r)
			gcfg.LoadOutputs = mode
			env, err := NewEnv(st.Base, fmt.Sprintf("c%d%s", i, tag), st.Grog, st.Vctl, s, gcfg)
			if err != nil {
				run.Infra(err.Error())
				return nil, nil, ""
			}
			return env, r, env.EnableHookLog()
		}
		a, ra, logA := mk("a", "all")
		b, rb, logB := mk("m", "minimal")
		if a == nil || b == nil {
			return
		}
		keep := false
		defer func() {
			if !keep {
				a.Cleanup()
				b.Cleanup()
			}
		}()
		ops := c01Ops(pf.Aliases)
		steps := ra.Range(6, 12)
		_ = rb.Range(6, 12)
		var names []string
		nontrivial := false
		snapsA, snapsB := []*spec.Spec{a.Spec.Clone()}, []*spec.Spec{b.Spec.Clone()}
		fault := false // sticky: once blobs were deleted, later builds may legitimately differ in what they re-run
		for k := 0; k <= steps; k++ {
			name := "cold"
			var patterns []string
			if k > 0 {
				name = ""
				x := ra.Intn(10)
				_ = rb.Intn(10)
				switch {
				case x < 1:
					name = "noop"
				case x < 2:
					switch y := ra.Intn(3); {
					case y == 0: // fresh checkout with a warm cache
						_ = rb.Intn(3)
						a.WipeOutputs()
						b.WipeOutputs()
						name = "wipe-outputs"
					case y == 1 && len(snapsA) > 1: // revert both to an earlier state
						_ = rb.Intn(3)
						j := ra.Intn(len(snapsA) - 1)
						_ = rb.Intn(len(snapsB) - 1)
						name = a.Apply(func() string { a.Spec = snapsA[j].Clone(); return "revert-to-earlier-state" })
						b.Apply(func() string { b.Spec = snapsB[j].Clone(); return "revert-to-earlier-state" })
						a.Logf("revert to source state %d", j)
						b.Logf("revert to source state %d", j)
					default: // taint the same target in both
						_ = rb.Intn(3)
						var ls []string
						for _, t := range a.Spec.Targets {
							ls = append(ls, t.Label())
						}
						sort.Strings(ls)
						l := ls[ra.Intn(len(ls))]
						_ = rb.Intn(len(ls))
						if a.RunTaint([]string{l}).Exit != 0 || b.RunTaint([]string{l}).Exit != 0 {
							run.Infra("grog taint failed")
							return
						}
						a.Taint[l], b.Taint[l] = true, true
						name = "taint"
					}
				case x < 4: // cache fault on a cached target, same target in both caches
					ts := a.CachedTargetsWithOutputs()
					if len(ts) == 0 {
						name = "noop"
						break
					}
					sort.Slice(ts, func(p, q int) bool { return ts[p].Label() < ts[q].Label() })
					t := ts[ra.Intn(len(ts))]
					_ = rb.Intn(len(ts))
					whichSeed := ra.U64()
					_ = rb.U64()
					sel := func(idx, n int) bool { return (whichSeed>>uint(idx%60))&1 == 1 || n == 1 }
					na := a.DeleteBlobsOf(t.Label(), logA, sel)
					nb := b.DeleteBlobsOf(t.Label(), logB, sel)
					name = "cache-fault-blobs-deleted"
					a.Logf("deleted %d blobs of %s from the cache", na, t.Label())
					b.Logf("deleted %d blobs of %s from the cache", nb, t.Label())
					run.Count("blobs_deleted", na+nb)
					fault = true
					if ra.Chance(1, 2) {
						a.WipeOutputs()
						b.WipeOutputs()
					}
					_ = rb.Chance(1, 2)
					// also invalidate a dependant so that the dependency's outputs are needed
					deps := a.Spec.Dependants(t.Label())
					var dl []string
					for d := range deps {
						dl = append(dl, d)
					}
					sort.Strings(dl)
					if len(dl) > 0 {
						// one dependant, or all of them at once (they then ask for the lost
						// outputs concurrently)
						pick := dl[ra.Intn(len(dl)):]
						_ = rb.Intn(len(dl))
						if all := ra.Chance(1, 2); !all {
							pick = pick[:1]
						} else {
							pick = dl
							run.Count("faults_with_all_dependants_invalidated", 1)
						}
						_ = rb.Chance(1, 2)
						w := ra.Word(4, 8)
						_ = rb.Word(4, 8)
						for _, d := range pick {
							d := d
							a.Apply(func() string { a.Spec.Target(d).Salt = w; return "command-change" })
							b.Apply(func() string { b.Spec.Target(d).Salt = w; return "command-change" })
						}
					}
					for l, st := range a.Memo {
						_ = l
						_ = st
					}
				default:
					for try := 0; try < 6 && name == ""; try++ {
						opA := pickOp(ra, ops)
						opB := pickOp(rb, ops)
						name = a.Apply(func() string { return opA(ra, a) })
						nb := b.Apply(func() string { return opB(rb, b) })
						if nb != name {
							run.Infra(fmt.Sprintf("lock-step histories diverged: %q vs %q", name, nb))
							return
						}
					}
					if name == "" {
						name = "noop"
					}
					patterns = somePatterns(ra, a.Spec)
					_ = somePatterns(rb, b.Spec)
				}
				if _, err := a.Spec.Eval(); err != nil {
					return
				}
			}
			names = append(names, name)
			snapsA, snapsB = append(snapsA, a.Spec.Clone()), append(snapsB, b.Spec.Clone())
			// mark faulted entries as not fixed by the model
			if fault {
				for k := range a.Memo {
					a.Memo[k] = "lost"
				}
				for k := range b.Memo {
					b.Memo[k] = "lost"
				}
			}
			pa, oa, va, err := a.Step(BuildOpts{Patterns: patterns}, BuildCfg{EnableCache: true}, "", false)
			if err != nil {
				run.Infra(err.Error())
				return
			}
			pb, ob, vb, err := b.Step(BuildOpts{Patterns: patterns}, BuildCfg{EnableCache: true, Minimal: true}, "", false)
			if err != nil {
				run.Infra(err.Error())
				return
			}
			_ = pa
			run.Eval(1)
			run.Count("lockstep_builds", 1)
			run.Count("step:"+name, 1)
			stop := false
			for _, v := range va {
				run.Count("mode_all_divergence_other_property:"+v.Kind, 1)
				Debugf("case %d (all): %s: %s | %s", i, v.Kind, v.Sig, v.What)
				stop = true
			}
			if stop {
				break
			}
			rep := func(sig, what string) {
				keep = !run.Violation(sig, what, map[string]any{"case": i, "history_all": a.Log, "history_minimal": b.Log,
					"stdout_minimal": tail(ob.Res.Stdout, 1500), "stderr_minimal": tail(ob.Res.Stderr, 800)}) || keep
				stop = true
			}
			if (oa.Res.Exit == 0) != (ob.Res.Exit == 0) {
				f := ""
				if fault {
					f = " under-cache-fault"
				}
				rep("exit-status-differs"+f, fmt.Sprintf("mode all exited %d, mode minimal exited %d; minimal stderr tail: %s", oa.Res.Exit, ob.Res.Exit, tail(ob.Res.Stdout+ob.Res.Stderr, 500)))
			} else if !fault && startedSet(oa) != startedSet(ob) {
				rep("executed-set-differs "+setDiffKind(b.Spec, oa, ob), fmt.Sprintf("mode all executed [%s], mode minimal executed [%s]", startedSet(oa), startedSet(ob)))
			}
			// with or without faults: under minimal a dependency is loaded or re-run once, whoever
			// asks for it - two executions of one target that overlap, or that both succeed in one
			// build, mean that two dependants re-ran it independently
			if !stop {
				var twice []string
				for l, n := range ob.Ended {
					if n > 1 || ob.Overlap[l] > 0 {
						twice = append(twice, l)
					}
				}
				for l := range ob.Overlap {
					if ob.Ended[l] <= 1 {
						twice = append(twice, l)
					}
				}
				sort.Strings(twice)
				if len(twice) > 0 {
					f := ""
					if fault {
						f = " under-cache-fault"
					}
					rep("dependency-executed-twice-in-one-build"+f, fmt.Sprintf("mode minimal ran %v more than once in one build (executions: %v, overlapping pairs: %v); mode all executed [%s]", twice, ob.Ended, ob.Overlap, startedSet(oa)))
				}
			}
			if !stop {
				for _, v := range vb {
					switch v.Kind {
					case "view", "bytes":
						rep(v.Sig, "minimal mode: "+v.What)
					case "crash", "hang":
						run.Count("divergence_other_property:"+v.Kind, 1)
						stop = true
					case "exec", "once", "exit":
						if fault {
							continue // lost entries: the executed set is not fixed
						}
						run.Count("mode_minimal_divergence_other_property:"+v.Kind, 1)
						Debugf("case %d (minimal): %s: %s | %s", i, v.Kind, v.Sig, v.What)
					}
					if stop {
						break
					}
				}
			}
			// non-triviality: a command executed under minimal while one of its deps was a cache hit
			for l := range ob.Started {
				if st := pb.States[l]; st != nil {
					for _, d := range st.DirectDeps {
						if ob.Started[d] == 0 {
							nontrivial = true
							run.Count("minimal_executions_with_restored_dependency", 1)
						}
					}
				}
			}
			if stop {
				break
			}
		}
		if nontrivial {
			run.Nontrivial(a.Spec.Shape() + "|" + strings.Join(names, ","))
		}
		run.Sample(map[string]any{"case": i, "shape": a.Spec.Shape(), "history_minimal": b.Log})
	})
	run.Assume("under injected cache faults the executed sets may legitimately differ (a dependency whose outputs are irretrievable must be re-run under minimal, while under all they are already in the workspace): only exit status, dependency views and bytes are judged there")
	return run.Finish()
}

func setDiffKind(s *spec.Spec, oa, ob *Obs) string {
	kinds := map[string]bool{}
	for l := range ob.Started {
		if oa.Started[l] == 0 {
			k := "extra-in-minimal"
			if t := s.Target(l); t != nil && t.HasTag("no-cache") {
				k += "(no-cache)"
			}
			kinds[k] = true
		}
	}
	for l := range oa.Started {
		if ob.Started[l] == 0 {
			kinds["missing-in-minimal"] = true
		}
	}
	var ks []string
	for k := range kinds {
		ks = append(ks, k)
	}
	sort.Strings(ks)
	return strings.Join(ks, "+")
}
