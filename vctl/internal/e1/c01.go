package e1

import (
	"fmt"
	"strings"

	"vctl/internal/report"
	"vctl/internal/rng"
	"vctl/internal/spec"
)

// tierN picks a case count by tier.
func tierN(tier string, quick, thorough int) int {
	if tier == "thorough" {
		return thorough
	}
	return quick
}

type opEntry struct {
	w  int
	op Op
}

func pickOp(r *rng.R, ops []opEntry) Op {
	tot := 0
	for _, o := range ops {
		tot += o.w
	}
	x := r.Intn(tot)
	for _, o := range ops {
		if x < o.w {
			return o.op
		}
		x -= o.w
	}
	return ops[0].op
}

func c01Ops(aliases bool) []opEntry {
	return []opEntry{
		{6, OpEditFile}, {3, OpAddFileUnderGlob}, {2, OpRemoveFile}, {2, OpRenameFile}, {1, OpAddExcludedFile},
		{3, OpSalt}, {1, OpQuiet}, {2, OpFingerprint}, {3, OpOutputs},
		{3, func(r *rng.R, e *Env) string { return OpDepEdge(r, e, aliases) }}, {2, OpRetargetAlias},
		{2, OpAdjacentShift}, {2, OpSwapContents}, {2, OpMissingVsEmpty},
	}
}

// RunC01: incremental builds equal clean builds for every edit history.
func RunC01(tier string) int {
	run := report.New("C01", tier, "exploration",
		"seeded random workspaces (targets, aliases, globs, file/dir/bin outputs) x histories of 6-14 edit+build steps over one cache; "+
			"a case is non-trivial when its history contained at least one verified restore and one re-execution after an edit; distinct = workspace shape + operator sequence")
	st, err := Prepare(run, false)
	if err != nil {
		run.Infra(err.Error())
		return run.Finish()
	}
	defer st.Cleanup()
	n := tierN(tier, 32, 400)
	Parallel(n, func(i int) {
		r := rng.Derive(uint64(run.Seed), "C01", fmt.Sprint(i))
		pf := spec.DefaultProfile()
		s := spec.Gen(r, pf)
		// twins: two targets of one package declare the very same inputs list, one of them with an
		// exclude_inputs entry that removes a file the other one keeps; histories with twins also
		// edit exactly that file
		twinFile := ""
		if r.Chance(1, 2) {
			for _, t1 := range s.Targets {
				res := s.ResolveInputsVirtual(t1)
				if len(res) < 2 {
					continue
				}
				var t2 *spec.Target
				for _, c := range s.Targets {
					if c != t1 && c.Pkg == t1.Pkg {
						t2 = c
					}
				}
				if t2 == nil {
					continue
				}
				victim := res[r.Intn(len(res)-1)].Path // never the last one in sorted order
				t2.Inputs = append([]string{}, t1.Inputs...)
				t2.Excludes = []string{victim}
				twinFile = victim
				if t1.Pkg != "" {
					twinFile = t1.Pkg + "/" + victim
				}
				run.Count("workspaces_with_twin_input_lists", 1)
				break
			}
		}
		env, err := NewEnv(st.Base, fmt.Sprintf("c%d", i), st.Grog, st.Vctl, s, randCfg(r))
		if err != nil {
			run.Infra(err.Error())
			return
		}
		env.MaybeTTY(run, fmt.Sprint(i), 5)
		keep := false
		defer func() {
			if !keep {
				env.Cleanup()
			}
		}()
		cfg := BuildCfg{EnableCache: true}
		snaps := []*spec.Spec{s.Clone()}
		ops := c01Ops(pf.Aliases)
		steps := r.Range(6, 14)
		var opNames []string
		restored, executedAfterEdit := 0, 0
		for k := 0; k <= steps; k++ {
			if k > 0 {
				name := ""
				if r.Chance(1, 8) && len(snaps) > 1 {
					sn := rng.Pick(r, snaps[:len(snaps)-1])
					name = env.Apply(func() string { env.Spec = sn.Clone(); return "revert-to-earlier-state" })
					env.Logf("revert to an earlier source state")
				} else if _, ok := env.Spec.Files[twinFile]; ok && twinFile != "" && r.Chance(1, 4) {
					name = env.Apply(func() string {
						env.Spec.Files[twinFile] += "edited " + r.Word(3, 8) + "\n"
						env.Logf("edit %s (excluded by one twin, an input of the other)", twinFile)
						return "edit-file-excluded-by-the-twin"
					})
				} else {
					for try := 0; try < 6 && name == ""; try++ {
						op := pickOp(r, ops)
						name = env.Apply(func() string { return op(r, env) })
					}
				}
				if name == "" {
					continue
				}
				if _, err := env.Spec.Eval(); err != nil {
					// an operator produced an invalid graph: undo
					env.Spec = snaps[len(snaps)-1].Clone()
					continue
				}
				opNames = append(opNames, name)
				snaps = append(snaps, env.Spec.Clone())
			}
			p, obs, vs, err := env.Step(BuildOpts{Patterns: somePatterns(r, env.Spec)}, cfg, "", false)
			if err != nil {
				run.Infra(err.Error())
				return
			}
			run.Eval(1)
			run.Count("builds", 1)
			re, ex := count(p, obs)
			run.Count("targets_restored", re)
			run.Count("targets_executed", ex)
			restored += re
			if k > 0 {
				executedAfterEdit += ex
			}
			reported := false
			for _, v := range vs {
				switch v.Kind {
				case "bytes":
					if !reported {
						keep = !run.Violation(v.Sig, v.What, mkReplay(i, env, obs))
						reported = true
					}
				default:
					run.Count("divergence_other_property:"+v.Kind, 1)
					Debugf("case %d: other-property divergence %s: %s | %s", i, v.Kind, v.Sig, v.What)
				}
			}
			if len(vs) > 0 {
				break
			}
		}
		for _, o := range opNames {
			run.Count("op:"+o, 1)
		}
		if restored > 0 && executedAfterEdit > 0 {
			run.Nontrivial(s.Shape() + "|" + strings.Join(opNames, ","))
		}
		run.Sample(map[string]any{"case": i, "shape": s.Shape(), "history": env.Log})
	})
	run.Assume("generated commands are deterministic functions of declared inputs and dependency outputs (by construction)")
	run.Assume("the reference bytes come from vctl's pure Produce function, which is also what the commands execute")
	// dependency outputs whose contents do not say which output they are (they exchange
	// contents, the multiset stays the same): see outperm.go
	if report.Part("outperm") {
		OutputPermutationPart(run, st, tierN(tier, 16, 200))
	}
	// several dependencies with equal output digests (same relative path, same bytes, different
	// packages): see equalouts.go
	if report.Part("equalouts") {
		EqualOutputsPart(run, st, tierN(tier, 12, 150))
	}
	return run.Finish()
}
