package e1

import (
	"fmt"
	"os"
	"path/filepath"
	"sort"
	"strings"
	"sync"

	"vctl/internal/grog"
	"vctl/internal/report"
	"vctl/internal/rng"
	"vctl/internal/spec"
)

// Case is one generated history.
type Case struct {
	Idx  int
	R    *rng.R
	Base string
	Grog string
	Vctl string
}

type Stats struct {
	Builds, Restored, Executed, Ops int
	OpNames                         []string
	Shape                           string
	Ended                           string // "" | kind of the divergence that ended the history
}

// Parallel runs n cases on up to 16 workers.
func Parallel(n int, f func(i int)) {
	w := 16
	if v := os.Getenv("VERIF_JOBS"); v != "" {
		fmt.Sscan(v, &w)
	}
	if w > n {
		w = n
	}
	var wg sync.WaitGroup
	ch := make(chan int)
	for k := 0; k < w; k++ {
		wg.Add(1)
		go func() {
			defer wg.Done()
			for i := range ch {
				f(i)
			}
		}()
	}
	for i := 0; i < n; i++ {
		ch <- i
	}
	close(ch)
	wg.Wait()
}

type Setup struct {
	Run   *report.Run
	Base  string
	Grog  string
	GrogR string
	Vctl  string
}

// Prepare builds the binaries and creates the scratch base directory.
func Prepare(run *report.Run, race bool) (*Setup, error) {
	g, err := grog.Binary("v")
	if err != nil {
		return nil, err
	}
	s := &Setup{Run: run, Grog: g}
	if race {
		gr, err := grog.Binary("vr")
		if err != nil {
			return nil, err
		}
		s.GrogR = gr
	}
	self, err := os.Executable()
	if err != nil {
		return nil, err
	}
	s.Vctl = self
	base, err := os.MkdirTemp(Scratch(), "verif-"+run.Prop+"-")
	if err != nil {
		return nil, err
	}
	// canonical path (grog derives the cache prefix from the workspace path it sees)
	if rp, err := filepath.EvalSymlinks(base); err == nil {
		base = rp
	}
	s.Base = base
	return s, nil
}

func (s *Setup) Cleanup() {
	if os.Getenv("VERIF_KEEP") != "" {
		fmt.Fprintln(os.Stderr, "kept scratch:", s.Base)
		return
	}
	_ = os.RemoveAll(s.Base)
}

func randCfg(r *rng.R) grog.Config {
	c := grog.Config{NumWorkers: r.Range(1, 4)}
	if r.Chance(1, 3) {
		c.HashAlgorithm = "sha256"
	}
	return c
}

func somePatterns(r *rng.R, s *spec.Spec) []string {
	if r.Chance(1, 2) {
		return nil
	}
	var ls []string
	for _, t := range s.Targets {
		if !strings.HasSuffix(t.Name, "test") {
			ls = append(ls, t.Label())
		}
	}
	rng.Shuffle(r, ls)
	n := r.Range(1, min(3, len(ls)))
	ls = ls[:n]
	sort.Strings(ls)
	return ls
}

// Step runs one build with prediction, judgement and memo update.
func (e *Env) Step(o BuildOpts, cfg BuildCfg, cause string, test bool) (*Pred, *Obs, []Violation, error) {
	if err := e.Sync(); err != nil {
		return nil, nil, nil, err
	}
	sel := SelectionFor(e.Spec, o.Patterns, test)
	p, err := e.Predict(sel, cfg)
	if err != nil {
		return nil, nil, nil, err
	}
	obs := e.RunBuild(o)
	vs := e.Judge(p, obs, cfg, cause)
	e.Commit(p, obs, cfg)
	return p, obs, vs, nil
}

func count(p *Pred, o *Obs) (restored, executed int) {
	for l := range p.Selected {
		if o.Started[l] > 0 {
			executed++
		} else if p.Class[l] == MustNotExec {
			restored++
		}
	}
	return
}

// Replay is what a violation's replay file contains.
type Replay struct {
	Case    int      `json:"case"`
	History []string `json:"history"`
	Stdout  string   `json:"stdout_tail,omitempty"`
	Stderr  string   `json:"stderr_tail,omitempty"`
	Kept    string   `json:"scratch_dir,omitempty"`
	Graph   []string `json:"graph,omitempty"`
}

func mkReplay(idx int, e *Env, o *Obs) Replay {
	r := Replay{Case: idx, History: e.Log}
	for _, t := range e.Spec.Targets {
		r.Graph = append(r.Graph, fmt.Sprintf("%s deps=%v tags=%v checks=%d outs=%d", t.Label(), t.Deps, t.Tags, len(t.Checks), len(t.AllOuts())))
	}
	for _, a := range e.Spec.Aliases {
		r.Graph = append(r.Graph, fmt.Sprintf("alias //%s:%s -> %s", a.Pkg, a.Name, a.Actual))
	}
	if o != nil && o.Res != nil {
		r.Stdout = tail(o.Res.Stdout, 1500)
		r.Stderr = tail(o.Res.Stderr, 1500)
	}
	return r
}

// Debugf prints when VERIF_DEBUG is set.
func Debugf(f string, a ...any) {
	if os.Getenv("VERIF_DEBUG") != "" {
		fmt.Fprintf(os.Stderr, "DEBUG "+f+"\n", a...)
	}
}

func grogCfgWorkers(n int) grog.Config { return grog.Config{NumWorkers: n} }
