package e1

import (
	"fmt"
	"os"
	"path/filepath"
	"sort"
	"strings"

	"vctl/internal/audit"
	"vctl/internal/report"
	"vctl/internal/rng"
	"vctl/internal/spec"
)

func isGlobPat(s string) bool { return strings.ContainsAny(s, "*?[{") }

// DeclOrderPart (C09 at process level): the cache key must not depend on the order in which
// things are declared. A generated workspace - with overlapping input patterns on purpose: a
// file listed explicitly and matched by a glob of the same target, two globs matching the same
// files - is built; then the order of every declaration list (inputs, exclude_inputs, outputs,
// dependencies, tags, targets and aliases within a BUILD file) is permuted, nothing else, and it
// is built again, with one worker and with many, and finally with the BUILD files read by the
// YAML loader instead of the JSON loader. Observed at the boundary: the names under
// cache/target (the keys themselves) must be the same set, and no command may run.
func DeclOrderPart(run *report.Run, st *Setup, n int) {
	Parallel(n, func(i int) {
		r := rng.Derive(uint64(run.Seed), run.Prop+"-declorder", fmt.Sprint(i))
		pf := spec.DefaultProfile()
		pf.MinTargets, pf.MaxTargets = 3, 8
		pf.NoCache = false
		s := spec.Gen(r, pf)
		overl := 0
		for _, t := range s.Targets {
			hasGlob := false
			for _, in := range t.Inputs {
				if isGlobPat(in) {
					hasGlob = true
				}
			}
			if !hasGlob {
				continue
			}
			res := s.ResolveInputsVirtual(t)
			if len(res) == 0 {
				continue
			}
			switch r.Intn(3) {
			case 0: // a file named explicitly that a glob of the same target matches as well
				t.Inputs = append(t.Inputs, res[r.Intn(len(res))].Path)
				overl++
			case 1: // a second glob matching (some of) the same files, declared first
				for _, in := range t.Inputs {
					if isGlobPat(in) {
						t.Inputs = append([]string{in}, t.Inputs...)
						overl++
						break
					}
				}
			}
		}
		gcfg := randCfg(r)
		env, err := NewEnv(st.Base, fmt.Sprintf("do%d", i), st.Grog, st.Vctl, s, gcfg)
		if err != nil {
			run.Infra(err.Error())
			return
		}
		keep := false
		defer func() {
			if !keep {
				env.Cleanup()
			}
		}()
		keysOf := func() []string {
			stor, _ := audit.LoadDir(env.CacheDir())
			var ks []string
			for k := range stor {
				if strings.HasPrefix(k, "target/") {
					ks = append(ks, k)
				}
			}
			sort.Strings(ks)
			return ks
		}
		cold := env.RunBuild(BuildOpts{})
		if cold.Res.Exit != 0 || cold.Res.Crashed() != "" {
			run.Count("declorder_cases_skipped_cold_build_failed", 1)
			return
		}
		k1 := keysOf()
		for round := 0; round < 3; round++ {
			changed := 0
			sh := func(xs []string) {
				if len(xs) > 1 {
					before := strings.Join(xs, "\x00")
					rng.Shuffle(r, xs)
					if strings.Join(xs, "\x00") != before {
						changed++
					}
				}
			}
			for _, t := range s.Targets {
				sh(t.Inputs)
				sh(t.Excludes)
				sh(t.Deps)
				sh(t.Tags)
				if len(t.Outs) > 1 {
					rng.Shuffle(r, t.Outs)
					changed++
				}
			}
			rng.Shuffle(r, s.Targets)
			rng.Shuffle(r, s.Aliases)
			if err := env.Sync(); err != nil {
				run.Infra(err.Error())
				return
			}
			if round == 1 {
				env.Cfg.NumWorkers = 1 + (env.Cfg.NumWorkers % 8)
				_ = env.M.WriteConfig(env.Cfg)
			}
			if round == 2 {
				// the same definitions in another BUILD-file format: JSON is YAML (flow style), so
				// the files are simply handed to the YAML loader under their YAML name
				for _, pkg := range s.Packages() {
					d := filepath.Join(env.WS, filepath.FromSlash(pkg))
					if os.Rename(filepath.Join(d, "BUILD.json"), filepath.Join(d, "BUILD.yaml")) == nil {
						run.Count("build_files_moved_to_the_yaml_loader", 1)
					}
				}
			}
			obs := env.RunBuild(BuildOpts{})
			run.Eval(1)
			run.Count("declorder_rebuilds_after_permutation", 1)
			run.Count("declaration_lists_permuted", changed)
			if obs.Res.Crashed() != "" || obs.Res.Exit != 0 {
				run.Count("declorder_rebuild_failed(other property)", 1)
				return
			}
			k2 := keysOf()
			run.Count("target_keys_compared", len(k2))
			if overl > 0 {
				run.Nontrivial(fmt.Sprintf("declorder|%s|%d|%d", s.Shape(), overl, round))
			}
			if strings.Join(k1, ",") != strings.Join(k2, ",") || len(obs.Started) > 0 {
				var extra []string
				set := map[string]bool{}
				for _, k := range k1 {
					set[k] = true
				}
				for _, k := range k2 {
					if !set[k] {
						extra = append(extra, k)
					}
				}
				withOverlap := "no"
				for l := range obs.Started {
					if t := s.Target(l); t != nil {
						seen := map[string]int{}
						for _, in := range t.Inputs {
							seen[in]++
						}
						rs := len(s.ResolveInputsVirtual(t))
						_ = rs
						for _, in := range t.Inputs {
							if seen[in] > 1 || (!isGlobPat(in) && hasMatchingGlob(t, in)) {
								withOverlap = "yes"
							}
						}
					}
				}
				keep = !run.Violation("key-depends-on-declaration-order overlapping-input-patterns="+withOverlap,
					fmt.Sprintf("after permuting only the order of declaration lists the rebuild executed %v and the cache holds %d key(s) it did not hold before (%v)", keys(obs.Started), len(extra), extra),
					mkReplay(i, env, obs)) || keep
				return
			}
		}
		run.Sample(map[string]any{"declorder_case": i, "shape": s.Shape(), "overlapping_patterns": overl, "history": env.Log})
	})
}

func hasMatchingGlob(t *spec.Target, file string) bool {
	for _, in := range t.Inputs {
		if isGlobPat(in) && spec.GlobMatch(in, file) {
			return true
		}
	}
	return false
}
