package e1

import (
	"fmt"
	"time"

	"vctl/internal/grog"
	"vctl/internal/report"
	"vctl/internal/rng"
	"vctl/internal/spec"
)

// InterruptWidePart: builds with many more ready targets than workers (the worker pool's queue
// is full and further targets are parked in front of it) are interrupted from inside the
// process right after the K-th command was spawned. Termination is what is judged: a process
// that is quiescent and still there when the cap fires is a hang.
func InterruptWidePart(run *report.Run, st *Setup, n int) {
	Parallel(n, func(i int) {
		r := rng.Derive(uint64(run.Seed), run.Prop, "interrupt-wide", fmt.Sprint(i))
		workers := r.Range(1, 4)
		s := &spec.Spec{Files: map[string]string{}}
		width := workers*2 + r.Range(2, 4*workers)
		layers := r.Range(1, 2)
		id := 0
		var prev []string
		for l := 0; l < layers; l++ {
			var cur []string
			for w := 0; w < width; w++ {
				t := &spec.Target{Pkg: "w", Name: fmt.Sprintf("t%d", id), SleepMs: r.Range(150, 500)}
				id++
				t.Inputs = []string{fmt.Sprintf("in%d.txt", id)}
				s.Files["w/"+t.Inputs[0]] = r.Word(3, 10)
				t.Outs = []spec.Out{{Kind: "file", Path: t.Name + ".out"}}
				if l > 0 {
					t.Deps = []string{prev[r.Intn(len(prev))]}
				}
				cur = append(cur, t.Label())
				s.Targets = append(s.Targets, t)
			}
			prev = cur
		}
		// every fourth case: very many quick targets, interrupted on a terminal (the interactive
		// UI has its own signal handling and a bounded status channel that somebody must drain)
		manyOnTTY := i%4 == 3 && grog.PtyAvailable()
		if manyOnTTY {
			workers = 2
			s = &spec.Spec{Files: map[string]string{}}
			for w := 0; w < r.Range(140, 220); w++ {
				t := &spec.Target{Pkg: "w", Name: fmt.Sprintf("q%d", w), SleepMs: r.Range(15, 40)}
				t.Inputs = []string{fmt.Sprintf("qin%d.txt", w)}
				s.Files["w/"+t.Inputs[0]] = r.Word(3, 10)
				t.Outs = []spec.Out{{Kind: "file", Path: t.Name + ".out"}}
				s.Targets = append(s.Targets, t)
			}
			width, layers = len(s.Targets), 1
			run.Count("wide_builds_interrupted_on_a_terminal(>=140 quick targets)", 1)
		}
		gcfg := grog.Config{NumWorkers: workers, FailFast: r.Chance(1, 3)}
		env, err := NewEnv(st.Base, fmt.Sprintf("iw%d", i), st.Grog, st.Vctl, s, gcfg)
		if err != nil {
			run.Infra(err.Error())
			return
		}
		keep := false
		defer func() {
			if !keep {
				env.Cleanup()
			}
		}()
		hookLog := env.EnableHookLog()
		sig := rng.Pick(r, []string{"INT", "TERM"})
		hit := r.Range(workers, workers*2)
		point := rng.Pick(r, []string{"cmd.attempt", "pool.task.begin", "exec.begin"})
		plan := fmt.Sprintf("%s=sig:%d:%s", point, hit, sig)
		env.Logf("width=%d layers=%d num_workers=%d GROG_VERIF_PLAN=%s", width, layers, workers, plan)
		if err := env.Sync(); err != nil {
			run.Infra(err.Error())
			return
		}
		res := env.M.Run([]string{"build"}, grog.RunOpts{Build: "b1", Timeout: 30 * time.Second, Env: []string{"GROG_VERIF_PLAN=" + plan}, Pty: manyOnTTY})
		run.Eval(1)
		run.Count("wide_builds_interrupted", 1)
		evs := ReadHookLog(hookLog)
		observed, begun, ended := false, 0, 0
		sent, begunAfterSend := false, 0
		for _, ev := range evs {
			if ev.Kind == "action" && ev.Name == "sig" {
				sent = true // the signal was raised (whether or not grog's handler ever saw it)
				continue
			}
			if sent && ev.Name == "pool.task.begin" {
				begunAfterSend++
			}
			switch ev.Name {
			case "signal.cancelled":
				observed = true
			case "pool.task.begin":
				if !observed {
					begun++
				}
			case "pool.task.end":
				if !observed {
					ended++
				}
			}
		}
		obs := env.ReadTrace("b1")
		replay := map[string]any{"plan": plan, "history": env.Log, "num_workers": workers, "width": width, "stdout": tail(res.Stdout, 1200), "stderr": tail(res.Stderr, 800), "trace": obs.Order}
		if c := res.Crashed(); c != "" {
			keep = !run.Violation("crash-on-interrupt "+crashSite(res.Stderr, c), "grog crashed while a wide build was interrupted: "+c, replay) || keep
			return
		}
		if res.TimedOut {
			if sent && !observed && res.Hang {
				replay["goroutines"] = tail(res.Dump, 6000)
				keep = !run.Violation("hang-after-interrupt signal-never-handled "+hangSite(res.Dump), fmt.Sprintf("%s was raised (after the %d-th %s), grog never cancelled the build and was quiescent but still running when the 30 s cap fired (terminal: %v)", sig, hit, point, manyOnTTY), replay) || keep
				return
			}
			if observed && res.Hang {
				replay["goroutines"] = tail(res.Dump, 6000)
				keep = !run.Violation("hang-after-interrupt "+hangSite(res.Dump), fmt.Sprintf("grog had observed %s (after the %d-th %s) and was quiescent but still running when the 30 s cap fired; %d targets, %d workers", sig, hit, point, len(s.Targets), workers), replay) || keep
			} else {
				run.Inconclusive("interrupted wide build hit the wall-clock cap while not quiescent")
			}
			return
		}
		if !observed {
			run.Count("signal_not_observed", 1)
			// raised but never handled: the build must not simply carry on and report success
			if sent && res.Exit == 0 && begunAfterSend > 2*workers+4 {
				keep = !run.Violation("signal-ignored exit-zero", fmt.Sprintf("%s was raised inside the process after the %d-th %s; %d further tasks were started afterwards and grog exited 0 (terminal: %v)", sig, hit, point, begunAfterSend, manyOnTTY), replay) || keep
			}
			return
		}
		run.Count("wide_builds_interrupted_with_signal_observed", 1)
		run.Count("tasks_in_flight_at_signal", begun-ended)
		if len(s.Targets)-begun > workers {
			run.Count("wide_builds_interrupted_with_queue_full", 1)
		}
		run.Nontrivial(fmt.Sprintf("interrupt-wide|w%d|n%d|%s|%s|inflight%d", workers, len(s.Targets), point, sig, begun-ended))
		if res.Exit == 0 {
			keep = !run.Violation("exit-zero-after-interrupt wide", fmt.Sprintf("grog exited 0 although %d of %d targets had not started when %s arrived", len(s.Targets)-begun, len(s.Targets), sig), replay) || keep
		}
	})
}
