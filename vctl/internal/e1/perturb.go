package e1

import (
	"crypto/sha256"
	"fmt"
	"os"
	"path/filepath"
	"strings"

	"vctl/internal/rng"
	"vctl/internal/spec"
)

// Perturb changes what sits at an output path of a cached target (never the cache) and returns
// the perturbation name, or "" if not applicable. The perturbation is recorded as pending
// cause for that target.
func (e *Env) Perturb(r *rng.R, t *spec.Target, o spec.Out, kind string) string {
	abs := spec.OutAbs(e.WS, t.Pkg, o.Path)
	name := ""
	switch kind {
	case "deleted":
		_ = os.RemoveAll(abs)
		name = "out-deleted"
	case "parent-dir-deleted":
		dir := filepath.Dir(o.Path)
		if dir == "." || strings.HasPrefix(o.Path, "../") {
			return ""
		}
		top := strings.Split(filepath.ToSlash(dir), "/")[0]
		_ = os.RemoveAll(spec.OutAbs(e.WS, t.Pkg, top))
		name = "out-parent-dir-deleted"
		for _, ot := range e.Spec.Targets {
			if ot == t || ot.Pkg != t.Pkg {
				continue
			}
			for _, oo := range ot.AllOuts() {
				if strings.HasPrefix(oo.Path, top+"/") {
					e.Pending[ot.Label()] = append(e.Pending[ot.Label()], name)
					break
				}
			}
		}
	case "modified":
		if o.Kind == "file" {
			b, err := os.ReadFile(abs)
			if err != nil {
				return ""
			}
			if r.Chance(1, 2) {
				b = append(b, []byte(strings.Repeat("JUNK", r.Range(1, 200)))...)
			} else if len(b) > 2 {
				b = b[:len(b)/2]
			}
			_ = os.WriteFile(abs, b, 0644)
			name = "out-modified"
		} else {
			var files []string
			_ = filepath.Walk(abs, func(p string, fi os.FileInfo, err error) error {
				if err == nil && fi.Mode().IsRegular() {
					files = append(files, p)
				}
				return nil
			})
			if len(files) == 0 {
				return ""
			}
			f := rng.Pick(r, files)
			_ = os.WriteFile(f, []byte("modified by harness\n"), 0644)
			name = "dir-out-file-modified"
		}
	case "truncated":
		if o.Kind != "file" {
			return ""
		}
		if _, err := os.Stat(abs); err != nil {
			return ""
		}
		_ = os.WriteFile(abs, nil, 0644)
		name = "out-truncated"
	case "extra":
		if o.Kind != "dir" {
			return ""
		}
		if _, err := os.Stat(abs); err != nil {
			return ""
		}
		_ = os.MkdirAll(filepath.Join(abs, "stale_dir", "deep"), 0755)
		_ = os.WriteFile(filepath.Join(abs, "stale_dir", "deep", "old.dat"), []byte("stale"), 0644)
		_ = os.WriteFile(filepath.Join(abs, "stale_file.dat"), []byte("stale"), 0755)
		name = "dir-out-extra-entries"
	case "file-where-dir":
		if o.Kind != "dir" {
			return ""
		}
		_ = os.RemoveAll(abs)
		_ = os.WriteFile(abs, []byte("i am a file\n"), 0644)
		name = "file-where-dir-should-be"
	case "modified+chmod":
		if o.Kind != "file" {
			return ""
		}
		fi, err := os.Stat(abs)
		if err != nil {
			return ""
		}
		_ = os.WriteFile(abs, []byte("modified by harness, mode flipped\n"), fi.Mode())
		_ = os.Chmod(abs, fi.Mode()^0111)
		name = "out-modified-and-exec-bit-flipped"
	case "symlink":
		// a symbolic link sits where the file output should be: dangling, or pointing at a file
		// with other content (the link target lives outside the workspace, in the case directory)
		if o.Kind != "file" {
			return ""
		}
		if _, err := os.Lstat(abs); err != nil {
			return ""
		}
		dst := filepath.Join(e.Dir, "link-targets", fmt.Sprintf("%x", sha256.Sum256([]byte(abs)))[:12])
		_ = os.MkdirAll(filepath.Dir(dst), 0755)
		_ = os.Remove(dst)
		name = "out-is-a-dangling-symlink"
		if r.Chance(1, 2) {
			_ = os.WriteFile(dst, []byte("content of the link target\n"), 0644)
			name = "out-is-a-symlink-to-another-file"
		}
		_ = os.RemoveAll(abs)
		if os.Symlink(dst, abs) != nil {
			return ""
		}
	case "chmod":
		if o.Kind != "file" {
			return ""
		}
		fi, err := os.Stat(abs)
		if err != nil {
			return ""
		}
		_ = os.Chmod(abs, fi.Mode()^0111)
		name = "out-exec-bit-flipped"
	default:
		return ""
	}
	e.Pending[t.Label()] = append(e.Pending[t.Label()], name)
	e.Logf("perturb %s output %s: %s", t.Label(), o.Path, name)
	return name
}

var PerturbKinds = []string{"deleted", "parent-dir-deleted", "modified", "truncated", "extra", "file-where-dir"}

// PerturbKindsExec adds states of an output path that only the executed-set oracle (C02) judges:
// how a restore deals with a symlink at the path is not part of C06's statement.
var PerturbKindsExec = append([]string{"symlink"}, PerturbKinds...)

// CachedTargetsWithOutputs lists targets that the model will restore on the next full build.
func (e *Env) CachedTargetsWithOutputs() []*spec.Target {
	states, err := e.Spec.Eval()
	if err != nil {
		return nil
	}
	var ts []*spec.Target
	for _, t := range e.Spec.Targets {
		if len(t.AllOuts()) == 0 || t.HasTag("no-cache") || e.Taint[t.Label()] {
			continue
		}
		if e.Memo[states[t.Label()].LooseKey] == "ok" {
			ts = append(ts, t)
		}
	}
	return ts
}

// Relocate moves the workspace to a new absolute path and carries the cache directory to the
// prefix grog derives from the new path (what a shared cache does for a second checkout).
func (e *Env) Relocate(newName string) error {
	oldWS := e.WS
	newWS := filepath.Join(e.Dir, newName)
	if err := os.Rename(oldWS, newWS); err != nil {
		return err
	}
	prefix := func(ws string) string {
		h := sha256.Sum256([]byte(ws))
		return fmt.Sprintf("%x", h)[:16] + "-" + filepath.Base(ws)
	}
	oldC := filepath.Join(e.M.Root, prefix(oldWS))
	newC := filepath.Join(e.M.Root, prefix(newWS))
	if _, err := os.Stat(oldC); err == nil {
		if err := os.Rename(oldC, newC); err != nil {
			return err
		}
	}
	e.WS = newWS
	e.M.Workspace = newWS
	e.Logf("relocate workspace %s -> %s (cache carried to the new prefix)", filepath.Base(oldWS), newName)
	return nil
}

// WipeOutputs removes every declared output from the workspace (a fresh checkout with a warm cache).
func (e *Env) WipeOutputs() {
	for _, t := range e.Spec.Targets {
		for _, o := range t.AllOuts() {
			_ = os.RemoveAll(spec.OutAbs(e.WS, t.Pkg, o.Path))
		}
	}
	e.Logf("wipe all declared outputs from the workspace")
}
