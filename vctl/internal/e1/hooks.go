package e1

import (
	"bufio"
	"encoding/json"
	"os"
)

// HookEvent is one line of the GROG_VERIF_LOG event log.
type HookEvent struct {
	Seq  int64    `json:"seq"`
	Mono int64    `json:"mono"`
	Pid  int      `json:"pid"`
	Kind string   `json:"kind"`
	Name string   `json:"name"`
	KV   []string `json:"kv"`
}

func ReadHookLog(path string) []HookEvent {
	f, err := os.Open(path)
	if err != nil {
		return nil
	}
	defer f.Close()
	var evs []HookEvent
	sc := bufio.NewScanner(f)
	sc.Buffer(make([]byte, 1<<20), 1<<24)
	for sc.Scan() {
		var e HookEvent
		if json.Unmarshal(sc.Bytes(), &e) == nil {
			evs = append(evs, e)
		}
	}
	return evs
}

// AttemptsAfter returns labels whose cmd.attempt event has a larger seq than the first event
// named marker (same process), or nil if the marker never occurred.
func AttemptsAfter(evs []HookEvent, marker string) (found bool, labels []string) {
	var mseq int64 = -1
	pid := 0
	for _, e := range evs {
		if e.Name == marker {
			mseq, pid, found = e.Seq, e.Pid, true
			break
		}
	}
	if !found {
		return false, nil
	}
	for _, e := range evs {
		if e.Pid == pid && e.Name == "cmd.attempt" && e.Seq > mseq && len(e.KV) > 0 {
			labels = append(labels, e.KV[0])
		}
	}
	return true, labels
}

// StartedAfter returns the labels that must have been started after the first event named
// marker: more commands of the label left a start line than were attempted before the marker.
// (cmd.attempt is logged for every shell command of a target, output checks included, and an
// attempt made before the marker may legitimately still start, so this is the sound direction.)
func StartedAfter(evs []HookEvent, marker string, started map[string]int) (found bool, labels []string) {
	var mseq int64 = -1
	pid := 0
	for _, e := range evs {
		if e.Name == marker {
			mseq, pid, found = e.Seq, e.Pid, true
			break
		}
	}
	if !found {
		return false, nil
	}
	before := map[string]int{}
	for _, e := range evs {
		if e.Pid == pid && e.Name == "cmd.attempt" && e.Seq < mseq && len(e.KV) > 0 {
			before[e.KV[0]]++
		}
	}
	for l, n := range started {
		if n > before[l] {
			labels = append(labels, l)
		}
	}
	return true, labels
}
