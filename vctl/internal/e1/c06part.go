package e1

import (
	"fmt"
	"strings"

	"vctl/internal/grog"
	"vctl/internal/report"
	"vctl/internal/rng"
	"vctl/internal/spec"
)

// RestorePart drives the real binary: build (everything cached), perturb what sits at the
// output paths of cached targets, build again (cache hits) and compare every declared output
// with the reference listing; bin outputs are additionally run through `grog run`.
func RestorePart(run *report.Run, st *Setup, n int) {
	Parallel(n, func(i int) {
		r := rng.Derive(uint64(run.Seed), run.Prop+"-restore", fmt.Sprint(i))
		pf := spec.DefaultProfile()
		pf.MinTargets, pf.MaxTargets = 3, 7
		s := spec.Gen(r, pf)
		hasBin := false
		for k, t := range s.Targets {
			if k%3 == 0 && t.Bin == "" {
				t.Bin = fmt.Sprintf("t%d.bin", k)
			}
			if t.Bin != "" {
				hasBin = true
			}
		}
		_ = hasBin
		env, err := NewEnv(st.Base, fmt.Sprintf("r%d", i), st.Grog, st.Vctl, s, randCfg(r))
		if err != nil {
			run.Infra(err.Error())
			return
		}
		keep := false
		defer func() {
			if !keep {
				env.Cleanup()
			}
		}()
		cfg := BuildCfg{EnableCache: true}
		kinds := append([]string{"chmod", "modified+chmod", "modified+chmod"}, PerturbKinds...)
		for k := 0; k < 6; k++ {
			name := "cold"
			if k > 0 {
				ts := env.CachedTargetsWithOutputs()
				if len(ts) == 0 {
					break
				}
				name = ""
				for try := 0; try < 8 && name == ""; try++ {
					t := rng.Pick(r, ts)
					o := rng.Pick(r, t.AllOuts())
					name = env.Perturb(r, t, o, rng.Pick(r, kinds))
				}
				if name == "" {
					continue
				}
				if r.Chance(1, 4) {
					env.WipeOutputs()
					name += "+wipe-all"
				}
			}
			p, obs, vs, err := env.Step(BuildOpts{}, cfg, "", false)
			if err != nil {
				run.Infra(err.Error())
				return
			}
			run.Eval(1)
			run.Count("process_builds", 1)
			run.Count("pre_state:"+name, 1)
			re, _ := count(p, obs)
			run.Count("process_targets_restored_and_compared", re)
			if k > 0 && re > 0 {
				run.Nontrivial("proc|" + s.Shape() + "|" + name)
			}
			bad := false
			for _, v := range vs {
				if v.Kind == "restore" || (v.Kind == "bytes" && strings.HasPrefix(v.Sig, "stale-output") == false && strings.Contains(v.Sig, "wrong-output") == false) {
					keep = !run.Violation("process "+v.Sig, v.What, mkReplay(i, env, obs)) || keep
				} else {
					run.Count("divergence_other_property:"+v.Kind, 1)
					Debugf("case %d: other-property divergence %s: %s | %s", i, v.Kind, v.Sig, v.What)
				}
				bad = true
			}
			if bad {
				return
			}
		}
		// a restored binary output must still be runnable
		env.WipeOutputs()
		for _, t := range env.Spec.Targets {
			if t.Bin == "" || strings.HasSuffix(t.Name, "test") {
				continue
			}
			res := env.M.Run([]string{"run", t.Label()}, grog.RunOpts{Build: "run"})
			env.Logf("grog run %s -> exit %d", t.Label(), res.Exit)
			run.Eval(1)
			run.Count("grog_run_of_restored_bin_output", 1)
			if res.Exit != 0 || !strings.Contains(res.Stdout, "label="+t.Label()) {
				keep = !run.Violation("process restored-bin-output-not-runnable", fmt.Sprintf("`grog run %s` after the outputs were wiped (restore from cache) exited %d: %s", t.Label(), res.Exit, tail(res.Stdout+res.Stderr, 400)), mkReplay(i, env, nil)) || keep
				return
			}
			break
		}
		run.Sample(map[string]any{"process_case": i, "shape": s.Shape(), "history": env.Log})
	})
}
