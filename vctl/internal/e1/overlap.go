package e1

import (
	"fmt"
	"os"
	"path/filepath"
	"sort"
	"strings"

	"vctl/internal/audit"
	"vctl/internal/report"
	"vctl/internal/rng"
	"vctl/internal/spec"
)

// RestoreOverlapPart: one output of a cached target cannot be restored (its blob is gone) while
// the restore of the target's other outputs is still under way. Every target has a file output
// and a directory output and keeps running for a while after it has written them; the build with
// the lost blob runs with delays injected at the restore steps of directory outputs (before the
// old directory is removed, before each file is created), so that a restore that is still
// running when grog falls back to executing the command removes what the command wrote. The
// build must end with reference bytes (or fail), the cache must audit clean, and the next build
// from a wiped workspace must restore reference bytes.
func RestoreOverlapPart(run *report.Run, st *Setup, cases int) {
	Parallel(cases, func(i int) {
		r := rng.Derive(uint64(run.Seed), run.Prop+"-overlap", fmt.Sprint(i))
		pf := spec.DefaultProfile()
		pf.MinTargets, pf.MaxTargets = 2, 4
		pf.Outputless, pf.NoCache = false, false
		s := spec.Gen(r, pf)
		for k, t := range s.Targets {
			t.Outs = append(t.Outs, spec.Out{Kind: "file", Path: fmt.Sprintf("ov%d.out", k)},
				spec.Out{Kind: "dir", Path: fmt.Sprintf("%s%d.d", rng.Pick(r, []string{"ov", "flt", "dup"}), k)})
			t.SleepAfterMs = 250
		}
		gcfg := randCfg(r)
		gcfg.NumWorkers = r.Range(2, 4)
		env, err := NewEnv(st.Base, fmt.Sprintf("ov%d", i), st.Grog, st.Vctl, s, gcfg)
		if err != nil {
			run.Infra(err.Error())
			return
		}
		keep := false
		defer func() {
			if !keep {
				env.Cleanup()
			}
		}()
		cfg := BuildCfg{EnableCache: true}
		if _, obs, vs, err := env.Step(BuildOpts{}, cfg, "cold", false); err != nil || len(vs) > 0 || obs.Res.Exit != 0 {
			run.Count("overlap_cases_skipped_cold_build_diverged", 1)
			return
		}
		cache := env.CacheDir()
		snap := filepath.Join(env.Dir, "cache-snapshot")
		if err := copyDir(cache, snap); err != nil {
			run.Infra(err.Error())
			return
		}
		store, _ := audit.LoadDir(cache)
		// victims: the blob of a file output of a result that also has a directory output, as
		// long as no other output of any result shares that blob
		uses := map[string]int{}
		type cand struct{ key, blob string }
		var cands []cand
		var results []string
		for k := range store {
			if strings.HasPrefix(k, "target/") {
				results = append(results, k)
			}
		}
		sort.Strings(results)
		for _, k := range results {
			tr, err := audit.DecodeTargetResult(store[k])
			if err != nil {
				continue
			}
			hasDir := false
			for _, o := range tr.Outputs {
				if o.Kind == "dir" {
					hasDir = true
				}
				uses["cas/"+o.Digest.Hash]++
			}
			if !hasDir {
				continue
			}
			for _, o := range tr.Outputs {
				if o.Kind == "file" {
					cands = append(cands, cand{k, "cas/" + o.Digest.Hash})
				}
			}
		}
		if len(cands) == 0 {
			run.Count("overlap_cases_without_candidate", 1)
			return
		}
		memoSnap := map[string]string{}
		for k, v := range env.Memo {
			memoSnap[k] = v
		}
		rng.Shuffle(r, cands)
		if len(cands) > 3 {
			cands = cands[:3]
		}
		for _, c := range cands {
			if err := copyDir(snap, cache); err != nil {
				run.Infra(err.Error())
				return
			}
			_ = os.Remove(filepath.Join(cache, filepath.FromSlash(c.blob)))
			env.WipeOutputs()
			for mk := range env.Memo {
				env.Memo[mk] = "lost"
			}
			rmDelay := r.Range(60, 200) * 1000
			plan := fmt.Sprintf("GROG_VERIF_PLAN=dir.load.removeall=delay:%d;dir.load.create=delay:%d", rmDelay, 700000)
			env.Logf("blob %s of a file output lost; restore steps of directory outputs delayed (%s)", c.blob, plan)
			_, obs, vs, err := env.Step(BuildOpts{Env: []string{plan}}, cfg, "lost-blob+slow-restore", false)
			if err != nil {
				run.Infra(err.Error())
				return
			}
			run.Eval(1)
			run.Count("overlap_builds", 1)
			if len(obs.Started) > 0 {
				run.Count("overlap_builds_that_fell_back_to_execution", 1)
				run.Nontrivial(fmt.Sprintf("overlap|%s|%d|%d", s.Shape(), rmDelay/20000, len(obs.Started)))
			}
			judge := func(stage string, obs *Obs, vs []Violation) bool {
				for _, v := range vs {
					switch v.Kind {
					case "bytes", "restore", "crash", "hang":
						keep = !run.Violation("restore-overlap "+stage+" "+v.Sig, fmt.Sprintf("a file output's blob is lost while the target's directory output is still being restored (slowed down): %s: %s", stage, v.What), mkReplay(i, env, obs)) || keep
						return false
					case "exit":
						if stage == "next-build" {
							keep = !run.Violation("restore-overlap "+stage+" "+v.Sig, fmt.Sprintf("after a build in which a restore failed half way: %s", v.What), mkReplay(i, env, obs)) || keep
							return false
						}
						run.Count("overlap_builds_that_failed(allowed)", 1)
					default:
						run.Count("divergence_other_property:"+v.Kind, 1)
					}
				}
				return true
			}
			if !judge("faulty-build", obs, vs) {
				return
			}
			stor2, _ := audit.LoadDir(cache)
			if rep := audit.Audit(stor2); !rep.Clean() {
				keep = !run.Violation("restore-overlap cache-inconsistent", "after the build the cache at rest is inconsistent: "+rep.Summary(), mkReplay(i, env, obs)) || keep
				return
			}
			env.WipeOutputs()
			for mk := range env.Memo {
				env.Memo[mk] = "lost"
			}
			_, obs2, vs2, err := env.Step(BuildOpts{}, cfg, "after-lost-blob+slow-restore", false)
			if err != nil {
				run.Infra(err.Error())
				return
			}
			run.Count("overlap_followup_builds", 1)
			if !judge("next-build", obs2, vs2) {
				return
			}
			env.Memo = map[string]string{}
			for mk, mv := range memoSnap {
				env.Memo[mk] = mv
			}
		}
		run.Sample(map[string]any{"overlap_case": i, "shape": s.Shape(), "history": env.Log})
	})
}
