package e1

import (
	"fmt"
	"os"
	"path/filepath"
	"sort"
	"strings"

	"vctl/internal/grog"
	"vctl/internal/report"
	"vctl/internal/rng"
)

// EqualOutputsPart (C02, C01): dependencies in different packages that declare the same relative
// output path and, at times, produce the same bytes - so that several dependencies of one target
// have equal output digests. //a:gen, //b:gen, //c:gen (and //d:gen) copy their one input to
// out.txt; //t:top depends on all of them (some listed through an alias or twice) and concatenates.
// Histories move the inputs between two or three values, so the multiset of dependency digests
// changes while its set stays the same ({1,1,2} -> {1,2,2}) and returns to earlier states.
// Judged: a dependency whose input changed runs, top runs when any dependency output changed
// (never-seen-before state), a step that changes nothing runs nothing, and top.txt equals what the
// current inputs give after every build.
func EqualOutputsPart(run *report.Run, st *Setup, n int) {
	Parallel(n, func(i int) {
		r := rng.Derive(uint64(run.Seed), run.Prop+"-equalouts", fmt.Sprint(i))
		pkgs := []string{"a", "b", "c", "d"}[:r.Range(3, 4)]
		base := filepath.Join(st.Base, fmt.Sprintf("eq%d", i))
		keep := false
		defer func() {
			if !keep {
				_ = os.RemoveAll(base)
			}
		}()
		ws := filepath.Join(base, "ws")
		m := &grog.Machine{Bin: st.Grog, Workspace: ws, Root: filepath.Join(base, "root"), Home: filepath.Join(base, "home"), Trace: filepath.Join(base, "trace"), VctlBin: st.Vctl}
		for _, x := range append([]string{"t"}, pkgs...) {
			_ = os.MkdirAll(filepath.Join(ws, x), 0755)
		}
		_ = os.MkdirAll(m.Home, 0755)
		mode := rng.Pick(r, []string{"all", "all", "minimal"})
		_ = m.WriteConfig(grog.Config{NumWorkers: r.Range(1, 4), LoadOutputs: mode, HashAlgorithm: rng.Pick(r, []string{"", "sha256"})})
		var deps, cats []string
		for _, p := range pkgs {
			alias := ""
			d := "//" + p + ":gen"
			if r.Chance(1, 4) {
				alias = `,"aliases":[{"name":"g","actual":":gen"}]`
				d = "//" + p + ":g"
			}
			_ = os.WriteFile(filepath.Join(ws, p, "BUILD.json"), []byte(fmt.Sprintf(`{"targets":[{"name":"gen","inputs":["v.txt"],"command":"cp v.txt out.txt; echo \"R $VBUILD %s\" >> \"$VTRACE\"","outputs":["out.txt"]}]%s}`, p, alias)), 0644)
			deps = append(deps, fmt.Sprintf("%q", d))
			if r.Chance(1, 5) {
				deps = append(deps, fmt.Sprintf("%q", "//"+p+":gen"))
			}
			cats = append(cats, "../"+p+"/out.txt")
		}
		_ = os.WriteFile(filepath.Join(ws, "t", "BUILD.json"), []byte(fmt.Sprintf(`{"targets":[{"name":"top","dependencies":[%s],"command":"cat %s > top.txt; echo \"R $VBUILD top\" >> \"$VTRACE\"","outputs":["top.txt"]}]}`, strings.Join(deps, ","), strings.Join(cats, " "))), 0644)
		vals := map[string]int{}
		for _, p := range pkgs {
			vals[p] = 1
		}
		nv := r.Range(2, 3)
		seen := map[string]bool{}
		var hist []string
		steps := r.Range(5, 9)
		for k := 0; k <= steps; k++ {
			changed := map[string]bool{}
			prev := map[string]int{}
			for p, v := range vals {
				prev[p] = v
			}
			if k > 0 && !r.Chance(1, 6) {
				for c := r.Range(1, 2); c > 0; c-- {
					vals[pkgs[r.Intn(len(pkgs))]] = r.Range(1, nv)
				}
			}
			for p, v := range vals {
				if prev[p] != v {
					changed[p] = true
				}
			}
			want, state := "", ""
			for _, p := range pkgs {
				_ = os.WriteFile(filepath.Join(ws, p, "v.txt"), []byte(fmt.Sprintf("value %d\n", vals[p])), 0644)
				want += fmt.Sprintf("value %d\n", vals[p])
				state += fmt.Sprint(vals[p])
			}
			bid := fmt.Sprintf("b%d", k)
			res := m.Run([]string{"build"}, grog.RunOpts{Build: bid})
			run.Eval(1)
			run.Count("equal_output_builds", 1)
			ran := map[string]bool{}
			if b, err := os.ReadFile(m.Trace); err == nil {
				for _, l := range strings.Split(string(b), "\n") {
					if f := strings.Fields(l); len(f) == 3 && f[1] == bid {
						ran[f[2]] = true
					}
				}
			}
			hist = append(hist, fmt.Sprintf("step %d: inputs %s (changed: %v), load_outputs=%s: exit %d, ran %v", k, state, keysOf(changed), mode, res.Exit, keysOf(ran)))
			if res.Crashed() != "" || res.TimedOut || res.Exit != 0 {
				run.Count("divergence_other_property:crash-hang-or-failure", 1)
				return
			}
			got, _ := os.ReadFile(filepath.Join(ws, "t", "top.txt"))
			extra := map[string]any{"history": hist, "stdout": tail(res.Stdout, 1200)}
			flat := func(s string) string { return strings.ReplaceAll(strings.TrimSpace(s), "\n", " | ") }
			switch {
			case string(got) != want && (mode == "all" || ran["top"]):
				keep = !run.Violation("equal-dependency-outputs stale-output", fmt.Sprintf("t/top.txt is %q after the build, the current inputs give %q (dependencies with equal output digests)", flat(string(got)), flat(want)), extra) || keep
				return
			case !seen[state] && !ran["top"]:
				keep = !run.Violation("equal-dependency-outputs missing-exec", fmt.Sprintf("the outputs of %v changed (state %s was never built before) but //t:top was not executed", keysOf(changed), state), extra) || keep
				return
			case k > 0 && len(changed) == 0 && len(ran) > 0:
				keep = !run.Violation("equal-dependency-outputs unexpected-exec cause=none", fmt.Sprintf("nothing changed since the previous build but %v ran", keysOf(ran)), extra) || keep
				return
			}
			seen[state] = true
		}
		run.Nontrivial(fmt.Sprintf("equalouts|%d|%s|%d", len(pkgs), mode, steps))
		run.Sample(map[string]any{"equal_outputs_case": i, "history": hist})
	})
}

func keysOf(m map[string]bool) []string {
	var out []string
	for k := range m {
		out = append(out, k)
	}
	sort.Strings(out)
	return out
}
