package e1

import (
	"fmt"
	"os"
	"path/filepath"
	"strings"

	"vctl/internal/grog"
	"vctl/internal/report"
	"vctl/internal/rng"
)

// BinToolPart (C15): commands that call tools through $(bin //label). //tools:fmt produces a
// script (bin_output), //lib:gen runs it over its input, //app:top consumes gen's output and does
// NOT depend on the tool itself. Histories edit the three inputs (with returns to earlier
// versions) and lose cache blobs (gen's output; everything) together with the outputs in the
// workspace, so that under load_outputs=minimal gen has to be re-run from inside the loading of
// top's dependencies - with its own tools. Lock-step under all / minimal, judged against the
// reference (computed from the inputs) whenever top ran, and on equal exit status.
func BinToolPart(run *report.Run, st *Setup, n int) {
	Parallel(n, func(i int) {
		r := rng.Derive(uint64(run.Seed), run.Prop+"-bintool", fmt.Sprint(i))
		viaAlias := r.Chance(1, 3)
		toolRef := "//tools:fmt"
		aliasDef := ""
		if viaAlias {
			toolRef = "//tools:format"
			aliasDef = `,"aliases":[{"name":"format","actual":":fmt"}]`
		}
		tools := fmt.Sprintf(`{"targets":[{"name":"fmt","inputs":["tool.src"],"command":"printf '#!/bin/sh\\necho \"fmt-v%%s: $(cat)\"\\n' \"$(cat tool.src)\" > fmt.sh; chmod +x fmt.sh; echo \"R $VBUILD fmt\" >> \"$VTRACE\"","bin_output":"fmt.sh"}]%s}`, aliasDef)
		lib := fmt.Sprintf(`{"targets":[{"name":"gen","dependencies":[%q],"inputs":["g.txt"],"command":"$(bin %s) < g.txt > gen.out; echo \"R $VBUILD gen\" >> \"$VTRACE\"","outputs":["gen.out"]}]}`, toolRef, toolRef)
		app := `{"targets":[{"name":"top","dependencies":["//lib:gen"],"inputs":["t.txt"],"command":"cat ../lib/gen.out t.txt > top.out; echo \"R $VBUILD top\" >> \"$VTRACE\"","outputs":["top.out"]}]}`
		type machine struct {
			mode string
			m    *grog.Machine
			ws   string
		}
		var ms []*machine
		base := filepath.Join(st.Base, fmt.Sprintf("bt%d", i))
		keep := false
		defer func() {
			if !keep {
				_ = os.RemoveAll(base)
			}
		}()
		for _, mode := range []string{"all", "minimal"} {
			d := filepath.Join(base, mode)
			ws := filepath.Join(d, "ws")
			for _, x := range []string{filepath.Join(ws, "tools"), filepath.Join(ws, "lib"), filepath.Join(ws, "app"), filepath.Join(d, "root"), filepath.Join(d, "home")} {
				_ = os.MkdirAll(x, 0755)
			}
			m := &grog.Machine{Bin: st.Grog, Workspace: ws, Root: filepath.Join(d, "root"), Home: filepath.Join(d, "home"), Trace: filepath.Join(d, "trace"), VctlBin: st.Vctl}
			_ = m.WriteConfig(grog.Config{NumWorkers: r.Range(1, 4), LoadOutputs: mode})
			_ = os.WriteFile(filepath.Join(ws, "tools", "BUILD.json"), []byte(tools), 0644)
			_ = os.WriteFile(filepath.Join(ws, "lib", "BUILD.json"), []byte(lib), 0644)
			_ = os.WriteFile(filepath.Join(ws, "app", "BUILD.json"), []byte(app), 0644)
			ms = append(ms, &machine{mode, m, ws})
		}
		toolV, gV, tV := 1, 1, 1
		var hist []string
		steps := r.Range(4, 8)
		for k := 0; k <= steps; k++ {
			fault := ""
			if k > 0 {
				switch r.Intn(6) {
				case 0:
					toolV = r.Range(1, 3)
				case 1:
					gV = r.Range(1, 3)
				case 2:
					tV++
				case 3, 4:
					tV++
					fault = rng.Pick(r, []string{"gen-blob", "all-blobs"})
				default:
					toolV, gV = r.Range(1, 3), r.Range(1, 3)
					tV++
				}
			}
			genOut := fmt.Sprintf("fmt-v%d: g text %d\n", toolV, gV)
			want := genOut + fmt.Sprintf("t text %d\n", tV)
			for _, mc := range ms {
				_ = os.WriteFile(filepath.Join(mc.ws, "tools", "tool.src"), []byte(fmt.Sprint(toolV)), 0644)
				_ = os.WriteFile(filepath.Join(mc.ws, "lib", "g.txt"), []byte(fmt.Sprintf("g text %d\n", gV)), 0644)
				_ = os.WriteFile(filepath.Join(mc.ws, "app", "t.txt"), []byte(fmt.Sprintf("t text %d\n", tV)), 0644)
				if fault != "" {
					// outputs gone from the workspace, blobs gone from the cache (results kept)
					_ = os.Remove(filepath.Join(mc.ws, "lib", "gen.out"))
					_ = os.Remove(filepath.Join(mc.ws, "app", "top.out"))
					if fault == "all-blobs" {
						_ = os.Remove(filepath.Join(mc.ws, "tools", "fmt.sh"))
					}
					_ = filepath.Walk(mc.m.Root, func(p string, fi os.FileInfo, err error) error {
						if err != nil || !fi.Mode().IsRegular() || !strings.Contains(p, string(filepath.Separator)+"cas"+string(filepath.Separator)) {
							return nil
						}
						if fault == "all-blobs" {
							_ = os.Remove(p)
						} else if b, err := os.ReadFile(p); err == nil && strings.HasPrefix(string(b), "fmt-v") {
							_ = os.Remove(p)
						}
						return nil
					})
				}
			}
			hist = append(hist, fmt.Sprintf("step %d: tool v%d, g v%d, t v%d, fault: %q", k, toolV, gV, tV, fault))
			exits := map[string]int{}
			for _, mc := range ms {
				bid := fmt.Sprintf("b%d", k)
				res := mc.m.Run([]string{"build"}, grog.RunOpts{Build: bid})
				run.Eval(1)
				run.Count("bintool_builds", 1)
				exits[mc.mode] = res.Exit
				if res.Crashed() != "" || res.TimedOut {
					run.Count("divergence_other_property:crash-or-hang", 1)
					return
				}
				ranTop := false
				if b, err := os.ReadFile(mc.m.Trace); err == nil {
					ranTop = strings.Contains(string(b), "R "+bid+" top")
				}
				hist = append(hist, fmt.Sprintf("  load_outputs=%s: exit %d, top ran: %v; %s", mc.mode, res.Exit, ranTop, lastLine(res.Stdout+res.Stderr)))
				if fault != "" {
					run.Count("bintool_builds_after_lost_blobs:"+mc.mode, 1)
				}
				if res.Exit != 0 {
					continue
				}
				if ranTop || mc.mode == "all" {
					b, err := os.ReadFile(filepath.Join(mc.ws, "app", "top.out"))
					if err != nil || string(b) != want {
						got := "absent"
						if err == nil {
							got = strings.ReplaceAll(strings.TrimSpace(string(b)), "\n", " | ")
						}
						keep = !run.Violation(fmt.Sprintf("bintool wrong-consumer-output mode=%s fault=%s", mc.mode, orDash(fault)),
							fmt.Sprintf("load_outputs=%s: app/top.out is %q, the current sources give %q", mc.mode, got, strings.ReplaceAll(strings.TrimSpace(want), "\n", " | ")),
							map[string]any{"history": hist, "stdout": tail(res.Stdout, 1500)}) || keep
						return
					}
				}
			}
			if exits["all"] != exits["minimal"] {
				keep = !run.Violation(fmt.Sprintf("bintool exit-status-differs all=%d minimal=%d fault=%s", exits["all"], exits["minimal"], orDash(fault)),
					fmt.Sprintf("the same history ends with exit %d under load_outputs=all and %d under minimal", exits["all"], exits["minimal"]),
					map[string]any{"history": hist}) || keep
				return
			}
		}
		run.Nontrivial(fmt.Sprintf("bintool|alias=%v|%d", viaAlias, steps))
		run.Sample(map[string]any{"bintool_case": i, "history": hist})
	})
}

func orDash(s string) string {
	if s == "" {
		return "none"
	}
	return s
}
