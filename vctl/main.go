package main

import (
	"fmt"
	"os"

	"vctl/internal/act"
	"vctl/internal/e1"
	"vctl/internal/e2"
	"vctl/internal/e5"
	"vctl/internal/e6"
	"vctl/internal/grog"
)

var checks = map[string]func(string) int{
	"C01": e1.RunC01,
	"C02": e1.RunC02,
	"C03": e2.RunC03,
	"C04": e2.RunC04,
	"C05": e2.RunC05,
	"C06": e2.RunC06,
	"C07": e2.RunC07,
	"C08": e5.RunC08,
	"C09": e2.RunC09,
	"C10": e5.RunC10,
	"C11": e6.RunC11,
	"C12": e6.RunC12,
	"C13": e1.RunC13,
	"C16": e6.RunC16,
	"C17": e2.RunC17,
	"C18": e5.RunC18,
	"C19": e2.RunC19,
	"C20": e6.RunC20,
	"C14": e1.RunC14,
	"C15": e1.RunC15,
}

func warm() int {
	for _, k := range []string{"v", "vr"} {
		if _, err := grog.Binary(k); err != nil {
			fmt.Fprintln(os.Stderr, err)
			return 2
		}
	}
	return 0
}

func usage() {
	fmt.Fprintln(os.Stderr, "usage: vctl check <Cxx> <quick|thorough> | vctl act ... | vctl chk ...")
	os.Exit(2)
}

func main() {
	if len(os.Args) < 2 {
		usage()
	}
	switch os.Args[1] {
	case "act":
		os.Exit(act.Main(os.Args[2:]))
	case "chk":
		os.Exit(act.Chk(os.Args[2:]))
	case "check":
		if len(os.Args) < 4 {
			usage()
		}
		prop, tier := os.Args[2], os.Args[3]
		if t := os.Getenv("VERIF_TIER"); t != "" && len(os.Args) == 3 {
			tier = t
		}
		f, ok := checks[prop]
		if !ok {
			fmt.Fprintln(os.Stderr, "unknown property", prop)
			os.Exit(2)
		}
		os.Exit(f(tier))
	case "driver":
		os.Exit(driverCmd(os.Args[2:]))
	case "pty":
		os.Exit(ptyCmd(os.Args[2:]))
	case "warm":
		os.Exit(warm())
	default:
		usage()
	}
}
