package main

import (
	"fmt"
	"os"

	"vctl/internal/grog"
)

// "vctl driver <name> [race]" builds an in-process driver and prints its path.
func driverCmd(args []string) int {
	if len(args) < 1 {
		return 2
	}
	if len(args) > 1 && args[1] == "tool" {
		p, err := grog.Tool(args[0])
		if err != nil {
			fmt.Fprintln(os.Stderr, err)
			return 2
		}
		fmt.Println(p)
		return 0
	}
	race := len(args) > 1 && args[1] == "race"
	p, err := grog.Driver(args[0], race)
	if err != nil {
		fmt.Fprintln(os.Stderr, err)
		return 2
	}
	fmt.Println(p)
	return 0
}
