module vctl

go 1.26

require (
	github.com/anishathalye/porcupine v1.3.0
	github.com/bmatcuk/doublestar/v4 v4.9.1
	github.com/klauspost/cpuid/v2 v2.3.0
	github.com/zeebo/xxh3 v1.0.2
	google.golang.org/protobuf v1.36.10
)
