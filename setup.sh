#!/bin/sh
# MANIFEST.setup_cmd: builds the framework from files on disk only (offline) and warms the
# build caches for the grog binaries (hooks on / hooks on + race detector).
set -e
cd "$(dirname "$0")"
VERIF_DIR="$(pwd)"; export VERIF_DIR
mkdir -p bin
(
  cd vctl
  GOTOOLCHAIN=local GOSUMDB=off GOFLAGS=-mod=mod GOPROXY=off GOWORK=off go1.26 build -o ../bin/vctl.new . 
)
mv bin/vctl.new bin/vctl
[ "$1" = "--vctl-only" ] && exit 0
./bin/vctl warm
