import re
def patch(path, edits, imp='"grog/internal/verifhook"'):
    s=open(path).read()
    for anchor, new, where in edits:
        cnt=s.count(anchor)
        assert cnt==1, (path, anchor, cnt)
        if where=='before':
            s=s.replace(anchor, new+anchor)
        else:
            s=s.replace(anchor, anchor+new)
    if imp and imp not in s:
        m=re.search(r'import \(\n', s)
        assert m, path
        s=s[:m.end()]+'\t'+imp+'\n'+s[m.end():]
    open(path,'w').write(s)
