#!/usr/bin/env python3
"""Moves confirmed seeded changes to /verif/seeded/<id>/ with meta.json; runs the owning check against each."""
import json, os, shutil, subprocess, sys, re
V='/verif'
confirmed = """C01-m1 C02-m1 C03-m2 C04-m1 C04-m2 C05-m2 C06-m1 C06-m2 C07-m1 C07-m2 C08-m1 C08-m2 C09-m1 C09-m2 C10-m1 C10-m2
C11-m1 C11-m2 C12-m1 C12-m2 C13-m1 C13-m2 C14-m2 C15-m1 C16-m1 C16-m2 C17-m1 C17-m2 C18-m1 C18-m2 C19-m2 C20-m1 C20-m2""".split()
rebased = {'C01-m1':'my fix commit touched the same function (MkdirAll/exec bit in FileOutputHandler.Load): one-line change re-applied by hand',
           'C06-m2':'same change as C01-m1, re-applied by hand after my fix commits',
           'C13-m2':'re-applied on top of the fix that added the output-check condition to the cache-hit branch',
           'C04-m1':'GetDescendants was rewritten by my traversal fix: the name-keyed visited set was re-applied to collectReachable',
           'C12-m1':'re-applied below the already-selected shortcut added by my traversal fix',
           'C20-m2':'GetAncestors was rewritten by my traversal fix: the return-instead-of-continue slip was re-applied to collectReachable'}
os.makedirs(f'{V}/seeded', exist_ok=True)
only = sys.argv[1:] 
for sid in confirmed:
    if only and sid not in only: continue
    src=f'{V}/seeded_unverified/{sid}'
    dst=f'{V}/seeded/{sid}'
    if os.path.exists(dst): shutil.rmtree(dst)
    shutil.copytree(src,dst)
    prop=sid.split('-')[0]
    notes=open(f'{src}/notes.md').read() if os.path.exists(f'{src}/notes.md') else ''
    # run the owning check
    out=subprocess.run([f'{V}/tools/seedrun.sh', dst, prop], capture_output=True, text=True).stdout.strip()
    sigs=re.findall(r'signature: (\S+)', out)
    rc=re.search(r'rc=(\d+)', out)
    c,m=sid.split('-')
    vlog=f'/tmp/seed/{c}/verify-{m}.log'
    meta={'id':sid,'property':prop,
          'patch':'patch.diff (applies to /repo HEAD with `git -C /repo apply`)',
          'demonstration':'demo/ (see demo/RUN.md)',
          'what_it_needs_to_manifest': notes[:1800],
          'rebased': rebased.get(sid,''),
          'confirmed_by_me': {'how':'tools/verify_seed.sh in a scratch worktree of /repo HEAD at /tmp/seed/%s/wt: git apply, go build ./..., full `go test -vet=off -count=1 ./...` compared with BASELINE stable_pass (all 167 pass, TestRunWithConcurrentShutdown is load-flaky and ignored), demonstration run with the change (must fail) and after `git checkout -- .` (must pass); worktree removed afterwards'%c,
                              'result':'CONFIRMED: demo fails with the change, passes without'},
          'caught_by': {'check': f'./check {prop} quick', 'exit_code': int(rc.group(1)) if rc else None, 'violation_signatures': sigs}}
    json.dump(meta, open(f'{dst}/meta.json','w'), indent=1)
    print(sid, rc.group(1) if rc else '?', sigs[:2])
