#!/usr/bin/env python3
"""usage: promote_seeds.py <src-dir> <matrix.txt> <verify.out> [how-text]
Moves every seed directory under <src-dir> that is CONFIRMED in <verify.out> to /verif/seeded/<id>/ and
writes meta.json from its notes.md, the verification line and the line of tools/seedmatrix.sh output."""
import json, os, re, shutil, sys
src, matrix, verify = sys.argv[1:4]
how = sys.argv[4] if len(sys.argv) > 4 else ''
V='/verif'
ver={}
for l in open(verify):
    m=re.match(r'RESULT (\S+) (\S+)(.*)', l)
    if m: ver[m.group(1)]=(m.group(2), m.group(3).strip())
mat={}
for l in open(matrix):
    m=re.match(r'(\S+)/(C\d\d-\S+) (C\d\d) rc=(\d+) (\d+) violation\(s\): (.*)', l)
    if m: mat[m.group(2)]=(m.group(3), int(m.group(4)), m.group(6).split())
for sid in sorted(os.listdir(src)):
    d=f'{src}/{sid}'
    if not os.path.isdir(d) or not re.match(r'C\d\d-', sid): continue
    if ver.get(sid,('',''))[0]!='CONFIRMED':
        print('skip (not confirmed):', sid, ver.get(sid)); continue
    if sid not in mat:
        print('skip (no check run):', sid); continue
    chk, rc, sigs = mat[sid]
    prop = sid[:3]
    dst=f'{V}/seeded/{sid}'
    if os.path.exists(dst): shutil.rmtree(dst)
    shutil.copytree(d, dst)
    notes=open(f'{d}/notes.md').read() if os.path.exists(f'{d}/notes.md') else ''
    needs=''
    m=re.search(r'##[^\n]*(needs|manifest|Trigger)[^\n]*\n(.*?)(\n## |\Z)', notes, re.S|re.I)
    if m: needs=m.group(2).strip()[:1500]
    meta={'id':sid,'property':prop,
      'patch':'patch.diff (applies to /repo HEAD with `git -C /repo apply`)',
      'demonstration':'demo/ (see demo/RUN.md)',
      'summary': notes[:1200],
      'what_it_needs_to_manifest': needs or notes[:1500],
      'confirmed_by_me': {'how': how or 'tools/verify_seed.sh in a scratch worktree of /repo HEAD: git apply, go build ./..., full `go test -vet=off -count=1 ./...` compared with BASELINE stable_pass (all 167 pass; TestRunWithConcurrentShutdown is load-flaky and ignored), demonstration run with the change (must fail) and after `git checkout -- .` (must pass); worktree removed afterwards',
                          'result': 'CONFIRMED '+ver[sid][1]},
      'caught_by': {'check': f'./check {chk} quick', 'how_run':'tools/seedrun2.sh (patch applied to a scratch worktree, check pointed at it with VERIF_REPO; /repo untouched)', 'exit_code': rc, 'violation_signatures': sigs}}
    json.dump(meta, open(f'{dst}/meta.json','w'), indent=1)
    shutil.rmtree(d)
    print('promoted', sid, rc, sigs[:2])
