#!/bin/sh
# Runs the repository's stable baseline with the verif guard OFF and compares with BASELINE.json.
cd /repo && GOPROXY=off go test -json -vet=off -count=1 -timeout 25m ./... > /var/tmp/verif-base.json 2>&1
python3 - <<'PY'
import json
base=json.load(open('/root/.vp/BASELINE.json'))
stable=set(base['stable_pass'])
res={}
for l in open('/var/tmp/verif-base.json'):
    try: e=json.loads(l)
    except: continue
    if e.get('Test') and e.get('Action') in('pass','fail','skip'):
        res[e['Package']+'::'+e['Test']]=e['Action']
missing=[t for t in stable if res.get(t)!='pass']
print(len(stable), 'stable; not passing now:', len(missing), missing[:10])
PY
rm -f /var/tmp/verif-base.json
