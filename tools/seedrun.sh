#!/bin/sh
# usage: tools/seedrun.sh <seed-dir> <Cxx> [<Cxx>...]   (env TIER=quick|thorough)
# Applies a seeded change to /repo, runs the given checks, and always restores /repo.
seed="$(cd "$1" && pwd)"; shift
cd /repo || exit 3
if [ -n "$(git status --porcelain)" ]; then echo "/repo not clean"; exit 3; fi
git apply "$seed/patch.diff" || { echo "patch does not apply"; exit 3; }
out=/var/tmp/seedrun-$$; mkdir -p $out
for p in "$@"; do
  ( cd /verif && VERIF_EVIDENCE_DIR=$out ./check $p ${TIER:-quick} > $out/$p.log 2>&1; echo "$(basename $seed) $p rc=$? $(grep -c '^VIOLATION' $out/$p.log) violation(s): $(grep -A1 '^VIOLATION' $out/$p.log | grep signature | head -3 | tr '\n' ' ')" )
done
git -C /repo checkout -- .
rm -rf $out
