#!/bin/sh
# usage: tools/allquick.sh <seed> [tier]   - runs every check once, prints one line per check
seed=${1:-1}; tier=${2:-quick}
for i in 01 02 03 04 05 06 07 08 09 10 11 12 13 14 15 16 17 18 19 20; do
  VERIF_SEED=$seed /verif/check C$i $tier > /var/tmp/allq-$seed-C$i.out 2>&1; rc=$?
  echo "seed=$seed C$i rc=$rc $(grep -E "^C$i $tier" /var/tmp/allq-$seed-C$i.out | sed 's/.*evaluations/evaluations/') $(grep -cE '^VIOLATION|^INFRA' /var/tmp/allq-$seed-C$i.out) alarms"
done
