#!/bin/sh
# usage: tools/seedmatrix.sh <out-file> [jobs]   - runs every kept seeded change against its owning check
# (scratch worktrees, never /repo); one line per seed in <out-file>.
out=${1:-/var/tmp/seedmatrix.txt}; jobs=${2:-4}
: > $out
ls -d /verif/seeded/C* /verif/seeded_pending/C* 2>/dev/null | while read d; do
  p=$(basename $d | cut -c1-3)
  echo "$d $p"
done | xargs -P $jobs -L 1 sh -c '/verif/tools/seedrun2.sh $0 $1 2>&1 | grep "rc=" >> '$out
sort $out -o $out
echo "caught: $(grep -c "rc=1" $out)  not caught: $(grep -vc "rc=1" $out)"
