#!/usr/bin/env python3
"""usage: seed_prompt.py <Cxx> [angle-text]   - prints the prompt given to a fresh sub-agent for one property.
The sub-agent gets the property text and a scratch worktree only (nothing from /verif)."""
import json, sys
pid = sys.argv[1]
angle = sys.argv[2] if len(sys.argv) > 2 else ''
p = [json.loads(l) for l in open('/verif/properties.jsonl') if json.loads(l)['id'] == pid][0]
print(f"""You are given a scratch git worktree of the Go project chrismatix/grog (a monorepo build tool: parallel DAG
executor, content-addressed output cache, Bazel-style labels) at /tmp/seed/{pid}/wt . Work ONLY inside /tmp/seed/{pid}/ .
Never read, list or modify /repo or /verif (they are out of bounds for this task). There is no network: build with
`GOPROXY=off go build ./...` and test with `GOPROXY=off go test -vet=off -count=1 ./...` from the worktree root, and do
not set GOFLAGS (that would rewrite go.mod). /bin/sh is dash.

This is robustness research on a verification framework: I need realistic *regressions* to test whether my monitors
notice them. The semantic property of grog under study:

  {p['id']} - {p['title']}
  {p['statement']}
  Scope: {p['quantifier']['text']}

Your job: produce TWO independent changes (call them m1 and m2; each is a separate patch against the worktree's HEAD)
to grog's non-test Go source such that, for each change,
  1. the project still compiles and the whole existing test suite still passes (run it; one test,
     TestRunWithConcurrentShutdown, is timing-flaky under load and may be ignored);
  2. the property above is broken (say which clause);
  3. the breakage needs something specific to manifest - a particular interleaving, a crash or fault at a particular
     point, a multi-step sequence of operations, an unusual input, or two cooperating sites that each look fine alone -
     NOT something that any ordinary `grog build` would expose at once. It should look like a plausible refactoring,
     optimisation or bug-fix slip that a reviewer could wave through; no dead giveaways, no comments that admit it;
  4. you have a demonstration (preferably a shell script driving the real `grog` binary built from the worktree on a
     small generated workspace; otherwise a Go test) that FAILS with the change applied and PASSES on the unchanged
     HEAD. Make it as deterministic as you can (if it depends on a race, loop enough times that it fails reliably with
     the change and never without it).
{('Preferred direction for your two changes (pick sites accordingly, the two must differ in mechanism): ' + angle) if angle else ''}
The two changes must differ from each other in mechanism and in the code they touch. Prefer sites deep in the
implementation over the obvious top-level ones, and prefer changes that survive a casual `grog build` / rebuild
smoke test.

Deliverables, for N in 1,2, under /tmp/seed/{pid}/out/mN/ :
  patch.diff   - `git diff` of the worktree against HEAD for this change only (must apply with `git apply` at the root of a
                 clean checkout of HEAD)
  notes.md     - sections "## The change", "## Clause of the property that breaks", "## What it needs to manifest"
  demo/RUN.md  - how to run the demonstration and what it prints
  demo/demo.sh - takes the path of a checkout as $1 (default /tmp/seed/{pid}/wt), builds grog from it into a temp
                 directory (`cd $1 && GOPROXY=off go build -o <tmp>/grog .`), runs the scenario in a fresh temp workspace
                 (needs a `grog.toml` at the workspace root; use a private `GROG_ROOT`/HOME so nothing outside the temp
                 directory is touched), exits 1 when the violation is observed and 0 when the property held, and removes
                 its temp directory. (If a shell demo is truly impossible, put a single `*_test.go` file with a test
                 named Test{pid}Demo... in demo/ and name the package directory `internal/...` it must be copied into in RUN.md.)
Verify both directions yourself for each change (demo fails with patch, passes after `git checkout -- .`).
When you are done, leave the worktree clean (`git checkout -- . && git clean -fdq`) and reply with a short summary:
for each change one paragraph (site, mechanism, trigger) and the demo results you observed.""")
