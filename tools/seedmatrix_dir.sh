#!/bin/sh
# usage: tools/seedmatrix_dir.sh <out-file> <jobs> <seed-dir>...   - runs the given seed directories against their owning check
out=$1; jobs=$2; shift 2
for d in "$@"; do p=$(basename $d | cut -c1-3); echo "$d $p"; done | xargs -P $jobs -L 1 sh -c '/verif/tools/seedrun2.sh $0 $1 2>&1 | grep "rc=" >> '$out
sort -u $out -o $out
