#!/usr/bin/env python3
"""Regenerates /verif/MANIFEST.json from the table below."""
import json, subprocess, os
V='/verif'
props={}
for l in open(f'{V}/properties.jsonl'):
    p=json.loads(l); props[p['id']]=p
hook_commits=[l.split()[0] for l in subprocess.run(['git','-C','/repo','log','--oneline','--grep','^verifhook:'],capture_output=True,text=True).stdout.splitlines()]

E1="history engine: real grog binary over generated workspaces and histories; trace + disk + exit status vs reference model (vctl/internal/e1)"
claimed={
 'C01':dict(level='exploration',engine='E1-histories',technique='runtime monitoring: byte oracle over recorded build histories vs executable reference model',
   text='Every successful build of seeded random edit/build histories (incl. adversarial edit pairs, alias edges, reverts A->B->A) over one persistent cache is observed at its boundary; each declared output of each selected target must be byte-identical to the reference bytes for the current sources (commands embed their provenance, so a stale result names the differing component). Held = on the K histories explored.',
   note='Trusted: vctl reference model (pure Produce function shared with the command helper), doublestar glob library; only builds that exit 0 are judged; dir/file/bin outputs, JSON BUILD files.', ref='4/C01'),
 'C02':dict(level='exploration',engine='E1-histories',technique='runtime monitoring: executed-command trace per build vs reference model of the caching rules',
   text='The set of commands each build executes (read off an O_APPEND trace written by the commands themselves) is compared with the must-exec / must-not-exec prediction of a reference model across edits, no-op rebuilds, output-path perturbations, quiet command changes (early cut-off), relocated checkouts, perturbed environments, both load_outputs modes and hash algorithms.',
   note='States the documented rules do not fix (output-less dependency changed, cache-disabled leftovers) are classified may-exec and not judged.', ref='4/C02'),
 'C03':dict(level='exploration',engine='E2-sched',technique='runtime monitoring: logical-clock log at the walker callback boundary (synctest + race detector) and O_APPEND S/E trace of the real binary, checked offline for order / once / width',
   text='Start events are checked against end events of every transitive dependency, calls per node are counted, and open [S,E] intervals are counted against num_workers, on the in-process Walker (seeded graph families, latencies incl. zero, GOMAXPROCS 1/2/16, alias nodes) and on the real binary (num_workers 1..8, sleeping commands); commands also record the digests of the dependency outputs they saw.',
   note='Schedules are sampled by the Go scheduler under stress, not enumerated; width is judged at the command level (the [S,E] interval of a command lies inside its lifetime).', ref='4/C03'),
 'C04':dict(level='fault_enumeration',engine='E2-sched',technique='runtime monitoring: testing/synctest deadlock detection + Go race detector + runtime fatal errors over in-process Walker runs',
   text='dag.Walker runs inside synctest bubbles under -race over seeded graphs with failing subsets, fail-fast on/off, external cancellation, zero/non-zero latencies and delays injected at the registration hook; a run is refuted by a synctest deadlock report, a runtime fatal error, a map-access race report on walker state, or a selected node that is neither completed nor legitimately skipped.',
   note='Deadlock is decided by the runtime (all goroutines durably blocked), never by elapsed time. Each case runs in a child process batch with its id logged first.', ref='4/C04'),
 'C05':dict(level='exploration',engine='E1-histories',technique='runtime monitoring: executed-command trace, exit status, hook event order (walk.failfast vs cmd.attempt) and follow-up builds vs reference model',
   text='Random failing subsets x failure kinds (exit code, timeout, missing output, failing check) x keep-going/fail-fast: unaffected targets must be built, dependants of failed targets must not run, exit status must be non-zero and name the failed targets, no command may start after the fail-fast cancellation event, and an identical follow-up build must attempt the failed targets again (nothing cached).',
   note='Fail-fast builds: only the containment rules are judged (which not-yet-started targets still run is schedule-dependent).', ref='4/C05'),
 'C13':dict(level='exploration',engine='E1-histories',technique='runtime monitoring: executed-command trace per build vs reference model with taint / no-cache / cache-disabled inputs',
   text='Histories mixing edits, grog taint, --enable-cache=false builds and no-cache targets at random graph positions: forced targets must execute, a consumed taint must not force again, and dependants of a forced target that reproduced identical outputs must be restored.',
   note='What a cache-disabled build leaves in the cache is not fixed by the statement: those follow-up decisions are may-exec.', ref='4/C13'),
 'C14':dict(level='exploration',engine='E1-histories',technique='runtime monitoring: executed-command trace, exit status and external marker state vs reference model across establish / cache / destroy histories',
   text='Targets with output checks (exit-status and expected_output flavours) on external markers, timeouts, omitted outputs: histories establish the condition, let grog cache, destroy or re-create it and rebuild. A failing check must force execution despite a cached result, a still-failing check / missing output / timeout / non-zero exit must fail the build, and nothing may be cached for a failed target (identical follow-up build attempts it again).',
   note='The checked condition is a marker file outside the declared inputs; commands that omit an output delete it, so it is truly missing afterwards.', ref='4/C14'),
 'C15':dict(level='exploration',engine='E1-histories',technique='runtime monitoring: differential lock-step executions (load_outputs all vs minimal) with per-command dependency-view self-checks',
   text='The same seeded history (edits, reverts, taints, wiped workspaces, partial selections, deleted cache blobs) runs in two separate workspaces and caches; per build the exit status and executed set must agree, every command executed under minimal must have recorded dependency outputs that are present and current (also through aliases), and outputs of executed targets must equal the reference bytes.',
   note='After an injected cache fault the executed sets may legitimately differ (a dependency with irretrievable outputs must be re-run under minimal only): from then on only exit status, views and bytes are judged.', ref='4/C15'),
 'C06':dict(level='exploration',engine='E3-store',technique='runtime monitoring: recursive-listing equality (type, exec bit, size, sha256, link target) before caching vs after restore, in-process handlers and real binary',
   text='The real file and directory output handlers (over a real CAS on the fs backend) cache random trees and file outputs and restore them over every listed destination pre-state; the real binary is driven through build / perturb output paths / rebuild (cache hits) and grog run of restored bin outputs. Any difference in the recursive listing, or anything extra left behind, refutes the property.',
   note='Pre-states outside the statement (directory where a file should be, symlink at the path) are leads only. Docker outputs are not covered (no daemon offline).', ref='4/C06'),
 'C07':dict(level='fault_enumeration',engine='E3-store',technique='runtime monitoring: crash-point enumeration (SIGKILL at hook points) and backend fault injection with an independent at-rest cache auditor; porcupine linearizability check of recorded fs-backend histories',
   text='Every sampled (thorough: every) hook point hit of a build is a crash point: the real process is SIGKILLed there, the cache directory is audited at rest by an auditor that shares no code with grog (own xxh3/sha256, protowire decoding) and a follow-up build must succeed with reference bytes. In-process, a decorator fails the k-th backend call (whole or mid-stream) while two targets sharing digests are written, followed by the same audit. Concurrent Set/Get/Exists/Delete histories with unique self-describing values are checked with porcupine against a per-key register.',
   note='Crash points are between hooked operations, not inside one write(2); tmp-* files are ignored (invisible under a final key); remote backends are covered by C08.', ref='4/C07'),
 'C09':dict(level='exploration',engine='E6-static',technique='runtime monitoring: differential oracle - injective canonical encoding of the target state vs the real change hash under xxh3 and sha256, over generated related pairs',
   text='hashing.GetTargetChangeHash is evaluated on real files for pairs of related states: equal states in different spellings (permutations, other workspace root, re-evaluation) must get equal keys; states differing across every component boundary (label|command, command|inputs, fingerprint key|value, separators inside list elements, content moved across file boundaries, missing vs empty, symlinked input content, bin_output vs output, platform) must get different keys under both hash algorithms. The output hash of a target is re-computed over repeated identical writes and must be stable.',
   note='A collision is only reported when it happens under both algorithms (encoding collision). Duplicate entries in the input list are a lead (keys differ for equal states: harmless re-execution).', ref='4/C09'),
 'C17':dict(level='exploration',engine='E6-static',technique='runtime monitoring: exhaustive-bounded differential test of the label API against a reference matcher written from the docs',
   text='Every string over {a,b,/,:,.,-} up to length 6 (thorough 8) and random longer fragment strings is parsed as label and pattern relative to three packages and matched against a bounded universe; round trips, shorthand and relative resolution, exact matching of the documented pattern forms at path-component boundaries and :all/:... semantics are compared with the reference.',
   note='Strings outside the documented forms are checked for crashes and round trips only; package paths with empty components are leads.', ref='4/C17'),
}
na_reason='check under construction in this session: not claimed until its monitor is built and silent on the unchanged tree'
checks=[]
for pid,c in sorted(claimed.items()):
    checks.append(dict(property_id=pid, quick_cmd=f'./check {pid} quick', thorough_cmd=f'./check {pid} thorough',
        evidence_file=f'evidence/{pid}.json', replay_cmd_template='cat {path}', engine=c['engine'],
        level_claimed=dict(category=c['level'], text=c['text'], design_ref=f"DESIGN.md section {c['ref']}"),
        level_note=c['note'], technique=c['technique']))
na=[dict(property_id=pid, reason=na_reason) for pid in sorted(props) if pid not in claimed]
m=dict(version=1, setup_cmd='./setup.sh',
  hooks=dict(guard='verif', enable='go build -tags verif (checks build /repo\'s working tree into /verif/.cache/<source-hash>/)',
     baseline_off_cmd="cd /repo && GOPROXY=off go test -json -vet=off -count=1 -timeout 25m ./...",
     source_commits=hook_commits, add_only=True),
  engines=[dict(name='E2-sched', path='vctl/internal/e2 + harness/walker', serves_properties=['C03','C04'], kind_free_text='in-process drivers overlaid into the grog module (go test -c -overlay), run in child processes under -race / synctest; offline checkers over their logs'), dict(name='E3-store', path='vctl/internal/e2 + harness/store', serves_properties=['C06','C07'], kind_free_text='in-process driver for output handlers, CAS, target cache and fs backend (restore exactness, fault-injecting backend decorator, concurrent histories for porcupine); crash-point enumeration on the real binary'), dict(name='E6-static', path='vctl/internal/e2/static.go + harness/static', serves_properties=['C09','C17'], kind_free_text='in-process differential drivers for the label algebra and the cache-key function against reference encodings'), dict(name='E1-histories', path='vctl/internal/e1', serves_properties=['C01','C02','C05','C13','C14','C15'], kind_free_text=E1)],
  checks=checks, not_applicable=na,
  notes='All checks are runtime monitors over executions of the real code. Known findings: KNOWN_FINDINGS.txt. Design: DESIGN.md.')
json.dump(m, open(f'{V}/MANIFEST.json','w'), indent=1)
print('claimed', sorted(claimed), 'na', len(na))
