#!/usr/bin/env python3
"""Regenerates /verif/MANIFEST.json from the table below."""
import json, subprocess, os
V='/verif'
props={}
for l in open(f'{V}/properties.jsonl'):
    p=json.loads(l); props[p['id']]=p
hook_commits=[l.split()[0] for l in subprocess.run(['git','-C','/repo','log','--oneline','--grep','^verifhook:'],capture_output=True,text=True).stdout.splitlines()]

E1="history engine: real grog binary over generated workspaces and histories; trace + disk + exit status vs reference model (vctl/internal/e1)"
claimed={
 'C01':dict(level='exploration',engine='E1-histories',technique='runtime monitoring: byte oracle over recorded build histories vs executable reference model',
   text='Every successful build of seeded random edit/build histories (incl. adversarial edit pairs, alias edges, reverts A->B->A) over one persistent cache is observed at its boundary; each declared output of each selected target must be byte-identical to the reference bytes for the current sources (commands embed their provenance, so a stale result names the differing component). Held = on the K histories explored.',
   note='Trusted: vctl reference model (pure Produce function shared with the command helper), doublestar glob library; only builds that exit 0 are judged; dir/file/bin outputs, JSON BUILD files.', ref='4/C01'),
 'C02':dict(level='exploration',engine='E1-histories',technique='runtime monitoring: executed-command trace per build vs reference model of the caching rules',
   text='The set of commands each build executes (read off an O_APPEND trace written by the commands themselves) is compared with the must-exec / must-not-exec prediction of a reference model across edits, no-op rebuilds, output-path perturbations, quiet command changes (early cut-off), relocated checkouts, perturbed environments, both load_outputs modes and hash algorithms.',
   note='States the documented rules do not fix (output-less dependency changed, cache-disabled leftovers) are classified may-exec and not judged.', ref='4/C02'),
}
na_reason='check under construction in this session: not claimed until its monitor is built and silent on the unchanged tree'
checks=[]
for pid,c in sorted(claimed.items()):
    checks.append(dict(property_id=pid, quick_cmd=f'./check {pid} quick', thorough_cmd=f'./check {pid} thorough',
        evidence_file=f'evidence/{pid}.json', replay_cmd_template='cat {path}', engine=c['engine'],
        level_claimed=dict(category=c['level'], text=c['text'], design_ref=f"DESIGN.md section {c['ref']}"),
        level_note=c['note'], technique=c['technique']))
na=[dict(property_id=pid, reason=na_reason) for pid in sorted(props) if pid not in claimed]
m=dict(version=1, setup_cmd='./setup.sh',
  hooks=dict(guard='verif', enable='go build -tags verif (checks build /repo\'s working tree into /verif/.cache/<source-hash>/)',
     baseline_off_cmd="cd /repo && GOPROXY=off go test -json -vet=off -count=1 -timeout 25m ./...",
     source_commits=hook_commits, add_only=True),
  engines=[dict(name='E1-histories', path='vctl/internal/e1', serves_properties=['C01','C02','C05','C13','C14','C15'], kind_free_text=E1)],
  checks=checks, not_applicable=na,
  notes='All checks are runtime monitors over executions of the real code. Known findings: KNOWN_FINDINGS.txt. Design: DESIGN.md.')
json.dump(m, open(f'{V}/MANIFEST.json','w'), indent=1)
print('claimed', sorted(claimed), 'na', len(na))
