#!/bin/sh
# usage: tools/seedrun2.sh <seed-dir> <Cxx> [<Cxx>...]     (env TIER=quick|thorough)
# Like seedrun.sh but never touches /repo: the seeded change is applied to a scratch worktree
# and the checks run against it through VERIF_REPO (several of these can run in parallel).
seed="$(cd "$1" && pwd)"; shift
id=$(echo $seed | sed "s#.*/\(C[0-9]*\)/out/\(m[0-9]\)#\1-\2#")
wt=/var/tmp/seedrepo-$$
git -C /repo worktree add -q --detach $wt HEAD || exit 3
cd $wt && git apply "$seed/patch.diff" || { echo "$id patch does not apply"; git -C /repo worktree remove --force $wt; exit 3; }
out=/var/tmp/seedrun2-$$; mkdir -p $out
for p in "$@"; do
  ( cd /verif && VERIF_REPO=$wt VERIF_CACHE_KEEP=40 VERIF_EVIDENCE_DIR=$out ./bin/vctl check $p ${TIER:-quick} > $out/$p.log 2>&1; echo "$id $p rc=$? $(grep -c '^VIOLATION' $out/$p.log) violation(s): $(grep -A1 '^VIOLATION' $out/$p.log | grep signature | head -3 | sed 's/  signature: //' | tr '\n' ' ')" )
done
git -C /repo worktree remove --force $wt
[ -n "$KEEP_OUT" ] || rm -rf $out
