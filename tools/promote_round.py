#!/usr/bin/env python3
"""usage: promote_round.py <round-tag> <matrix.txt> <verify.out> [extra-matrix.txt]
Copies the confirmed seeded changes of one round from /tmp/seed/Cxx/out/mN to /verif/seeded/Cxx-<tag>mN/
(patch.diff, notes.md, demo/) and writes meta.json from the notes, the verification line
(tools/verify_seed.sh) and the line of the check run (tools/seedrun2.sh)."""
import json, os, re, shutil, sys
tag, matrix, verify = sys.argv[1:4]
extra = sys.argv[4] if len(sys.argv) > 4 else None
ver = {}
for l in open(verify):
    m = re.match(r'RESULT (\S+) (\S+)(.*)', l)
    if m: ver[m.group(1)] = (m.group(2), m.group(3).strip())
def load(f):
    d = {}
    for l in open(f):
        m = re.match(r'(C\d\d-m\d) (C\d\d) rc=(\d+) (\d+) violation\(s\): (.*)', l)
        if m: d.setdefault(m.group(1), []).append((m.group(2), int(m.group(3)), m.group(5).split()))
    return d
mat = load(matrix)
if extra:
    for k, v in load(extra).items(): mat.setdefault(k, []).extend(v)
for sid in sorted(ver):
    if ver[sid][0] != 'CONFIRMED':
        print('skip (not confirmed):', sid, ver[sid]); continue
    c, m = sid.split('-')
    src = f'/tmp/seed/{c}/out/{m}'
    if not os.path.isdir(src): print('skip (no source):', sid); continue
    runs = mat.get(sid, [])
    caught = [r for r in runs if r[1] == 1]
    if not caught: print('NOT CAUGHT:', sid, runs); continue
    best = [r for r in caught if r[0] == c] or caught
    chk, rc, sigs = best[0]
    new = f'{c}-{tag}{m}'
    dst = f'/verif/seeded/{new}'
    if os.path.exists(dst): shutil.rmtree(dst)
    os.makedirs(dst)
    for f in ('patch.diff', 'notes.md'):
        if os.path.exists(f'{src}/{f}'): shutil.copy(f'{src}/{f}', dst)
    shutil.copytree(f'{src}/demo', f'{dst}/demo')
    notes = open(f'{src}/notes.md').read() if os.path.exists(f'{src}/notes.md') else ''
    needs = ''
    mm = re.search(r'##[^\n]*(needs|manifest|Trigger)[^\n]*\n(.*?)(\n## |\Z)', notes, re.S | re.I)
    if mm: needs = mm.group(2).strip()[:1500]
    meta = {'id': new, 'property': c,
            'patch': 'patch.diff (applies to /repo HEAD with `git -C /repo apply`)',
            'demonstration': 'demo/ (see demo/RUN.md)',
            'summary': notes[:1200],
            'what_it_needs_to_manifest': needs or notes[:1500],
            'confirmed_by_me': {'how': 'tools/verify_seed.sh in a scratch worktree of /repo HEAD: git apply, go build ./..., full `go test -vet=off -count=1 ./...` compared with BASELINE stable_pass (all 167 pass; TestRunWithConcurrentShutdown is load-flaky and ignored), demonstration run with the change (must fail) and after `git checkout -- .` (must pass); worktree removed afterwards',
                                'result': 'CONFIRMED ' + ver[sid][1]},
            'caught_by': {'check': f'./check {chk} quick', 'how_run': 'tools/seedrun2.sh (patch applied to a scratch worktree, check pointed at it with VERIF_REPO; /repo untouched)', 'exit_code': rc, 'violation_signatures': sigs,
                          'other_checks_run': [{'check': r[0], 'exit_code': r[1], 'signatures': r[2][:3]} for r in runs if r is not best[0]]}}
    json.dump(meta, open(f'{dst}/meta.json', 'w'), indent=1)
    print('promoted', new, chk, rc, sigs[:2])
