#!/bin/sh
# usage: tools/verify_seed.sh <Cxx> <mN>
# Confirms a seeded change in a scratch worktree of /repo (at /tmp/seed/<Cxx>/wt, the path the
# demonstrations default to): applies, compiles, keeps the stable baseline passing, and the
# demonstration fails with the change and passes without it. Prints one RESULT line.
C="$1"; M="$2"
B=${SEEDBASE:-/tmp/seed}
SEED=${SEEDSRC:-/verif/seeded_unverified}/$C-$M
ORIG=$B/$C/out/$M
WT=$B/$C/wt
LOG=$B/$C/verify-$M.log
: > $LOG
fail() { echo "RESULT $C-$M $1"; exit 0; }
[ -d "$ORIG/demo" ] || { mkdir -p $ORIG; cp -r $SEED/* $ORIG/; }
[ -f $SEED/patch.diff ] && cp $SEED/patch.diff $ORIG/patch.diff
cd /repo || exit 3
git worktree remove --force $WT >/dev/null 2>&1
git worktree add -q --detach $WT HEAD >>$LOG 2>&1 || fail "worktree-failed"
cd $WT
git apply $ORIG/patch.diff >>$LOG 2>&1 || { cd /repo; git worktree remove --force $WT; fail "patch-does-not-apply"; }
GOPROXY=off go build ./... >>$LOG 2>&1 || { cd /repo; git worktree remove --force $WT; fail "does-not-compile"; }
# existing tests with the change
GOPROXY=off go test -json -vet=off -count=1 -timeout 25m ./... > $B/$C/test-$M.json 2>>$LOG
NP=$(python3 - <<PY
import json
base=json.load(open('/root/.vp/BASELINE.json')); stable=set(base['stable_pass']); res={}
for l in open('$B/$C/test-$M.json'):
    try: e=json.loads(l)
    except: continue
    if e.get('Test') and e.get('Action') in('pass','fail','skip'): res[e['Package']+'::'+e['Test']]=e['Action']
missing=[t for t in stable if res.get(t)!='pass' and 'TestRunWithConcurrentShutdown' not in t]
print(len(missing), ' '.join(missing[:3]))
PY
)
rm -f $B/$C/test-$M.json
case "$NP" in 0*) ;; *) cd /repo; git worktree remove --force $WT; fail "existing-tests-fail:$NP";; esac
# the demonstration
run_demo() {
  cd $ORIG/demo
  if ls *.sh >/dev/null 2>&1; then
    S=$(ls demo.sh run.sh run_demo.sh run_e2e.sh run_cli.sh 2>/dev/null | head -1)
    SRC=$WT timeout 600 bash ./$S $WT >>$LOG 2>&1
    return $?
  fi
  # Go test only: copy the test file next to the package named in RUN.md
  T=$(ls *_test.go | head -1)
  PKG=$(grep -o 'internal/[a-z/]*' RUN.md | head -1 | sed 's#/$##')
  cp $T $WT/$PKG/
  (cd $WT && GOPROXY=off timeout 600 go test -vet=off -count=1 -run 'Test(C[0-9]|Demo)' ./$PKG/ >>$LOG 2>&1)
  rc=$?
  rm -f $WT/$PKG/$T
  return $rc
}
echo "=== demo WITH change" >>$LOG
run_demo; WITH=$?
cd $WT && git checkout -- . >>$LOG 2>&1
echo "=== demo WITHOUT change" >>$LOG
run_demo; WITHOUT=$?
cd /repo; git worktree remove --force $WT >/dev/null 2>&1
rm -rf $B/$C/grog-bin
if [ $WITH -ne 0 ] && [ $WITHOUT -eq 0 ]; then echo "RESULT $C-$M CONFIRMED (demo rc with=$WITH without=$WITHOUT)"; else echo "RESULT $C-$M NOT-CONFIRMED (demo rc with=$WITH without=$WITHOUT)"; fi
